#!/usr/bin/env python3
"""Regression over all recorded seeded changes: every /verif/seeded/<id>/patch.diff must be reported by the check of its property
(or, where meta.json says so, by the check named there). Scratch worktrees only; prints one line per seed; exit 1 on a miss.

usage: tools/seed_suite.py [id-substring]"""
import json, os, subprocess, sys

HERE = os.path.dirname(os.path.dirname(os.path.abspath(__file__)))


def main():
    sel = sys.argv[1] if len(sys.argv) > 1 else ""
    bad = 0
    for d in sorted(os.listdir(os.path.join(HERE, "seeded"))):
        if sel not in d:
            continue
        meta = json.load(open(os.path.join(HERE, "seeded", d, "meta.json")))
        prop = meta["property"]
        checks = meta.get("reported_by_checks") or [prop]
        r = subprocess.run([sys.executable, os.path.join(HERE, "tools", "run_on_patch.py"), os.path.join(HERE, "seeded", d, "patch.diff")] + checks,
                           stdout=subprocess.PIPE, stderr=subprocess.STDOUT)
        out = r.stdout.decode(errors="replace")
        fires = [l for l in out.splitlines() if " FIRES " in l]
        ok = bool(fires)
        bad += 0 if ok else 1
        print("%-8s %-7s %s" % (d, "caught" if ok else "MISSED", "; ".join(f.strip()[:160] for f in fires) if fires else out.strip()[-200:]), flush=True)
    print("seed suite: %d not caught" % bad)
    return 1 if bad else 0


if __name__ == "__main__":
    sys.exit(main())
