#!/usr/bin/env python3
"""write known_fns.txt: the free / inherent function ids of /repo's current tree (the tree the rules were confirmed on).
Functions absent from this list are treated as new helpers and analysed in place at their call sites (lib/inline.py)."""
import os, sys
HERE = os.path.dirname(os.path.dirname(os.path.abspath(__file__)))
sys.path.insert(0, HERE)
os.environ["GPA_NO_INLINE_NEW"] = "1"
from lib import facts, build
F = facts.load()
ids = sorted(fid for fid, f in F.fns.items() if f["kind"] in ("Fn", "AssocFn") and f.get("crate") in build.CRATES and not fid.startswith("<"))
open(os.path.join(HERE, "known_fns.txt"), "w").write("\n".join(ids) + "\n")
print(len(ids), "functions")
