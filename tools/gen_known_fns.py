#!/usr/bin/env python3
"""write known_fns.txt: the free / inherent function ids of /repo's current tree (the tree the rules were confirmed on).
Functions absent from this list are treated as new helpers and analysed in place at their call sites (lib/inline.py)."""
import os, sys
HERE = os.path.dirname(os.path.dirname(os.path.abspath(__file__)))
sys.path.insert(0, HERE)
os.environ["GPA_NO_INLINE_NEW"] = "1"
from lib import facts, build
F = facts.load()
ids = sorted(fid for fid, f in F.fns.items() if f["kind"] in ("Fn", "AssocFn") and f.get("crate") in build.CRATES and not fid.startswith("<"))
open(os.path.join(HERE, "known_fns.txt"), "w").write("\n".join(ids) + "\n")
print(len(ids), "functions")
# signatures (parameter and return types): lets a renamed / moved function be recognised as the one the rules were confirmed on
import json
sig = {fid: [str(l.get("ty")) for l in F.fns[fid]["locals"][:F.fns[fid]["arg_count"] + 1]] for fid in ids}
open(os.path.join(HERE, "known_sigs.json"), "w").write(json.dumps(sig, indent=0, sort_keys=True))
# number of closures (incl. coroutine bodies) under every named function, trait impl methods included: a function whose family of
# closures changed is one whose combinator calls are written out before the rules look at it (lib/inline.py)
from lib import inline
cnt = inline.closure_counts(F)
open(os.path.join(HERE, "known_closures.txt"), "w").write("".join("%s\t%d\n" % kv for kv in sorted(cnt.items())))
print(len(cnt), "functions with closures")

# body hashes (line numbers ignored): a function whose body differs is "changed" - boolean carriers are threaded through there
hs = {fid: inline.body_hash(f) for fid, f in F.fns.items() if f.get("crate") in build.CRATES}
open(os.path.join(HERE, "known_hashes.json"), "w").write(json.dumps(hs, indent=0, sort_keys=True))
print(len(hs), "body hashes")
