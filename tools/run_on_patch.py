#!/usr/bin/env python3
"""Apply a patch to a scratch worktree of /repo (outside /repo and /verif), run checks against it, clean up.

usage: tools/run_on_patch.py <patch.diff> [Cxx ...] [--tier thorough] [--expect Cxx[.Rn]]
Prints, per check, exit code and the violated rule keys. Evidence of these runs goes to a scratch dir, not /verif/evidence."""
import json
import os
import shutil
import subprocess
import sys
import tempfile

HERE = os.path.dirname(os.path.dirname(os.path.abspath(__file__)))


def main():
    args = sys.argv[1:]
    tier = "quick"
    if "--tier" in args:
        i = args.index("--tier")
        tier = args[i + 1]
        del args[i:i + 2]
    patch = os.path.abspath(args[0])
    checks = args[1:] or ["C%02d" % i for i in range(1, 21)]
    wt = tempfile.mkdtemp(prefix="verif_scratch_")
    ev = tempfile.mkdtemp(prefix="verif_scratch_ev_")
    os.rmdir(wt)
    res = {}
    try:
        subprocess.check_call(["git", "-C", "/repo", "worktree", "add", "-q", "--detach", wt, "HEAD"])
        r = subprocess.run(["git", "-C", wt, "apply", patch], stderr=subprocess.PIPE)
        if r.returncode != 0:
            print("PATCH DOES NOT APPLY:", r.stderr.decode())
            return 2
        env = dict(os.environ, GPA_REPO=wt, GPA_EVIDENCE_DIR=ev)
        for c in checks:
            r = subprocess.run([os.path.join(HERE, "verif"), "check", c, "--tier", tier], env=env, stdout=subprocess.PIPE, stderr=subprocess.STDOUT, cwd=HERE)
            out = r.stdout.decode(errors="replace")
            keys = [l.split("key=")[1].split(" at ")[0] for l in out.splitlines() if l.strip().startswith("rule=") and "key=" in l]
            res[c] = (r.returncode, keys)
            flag = "FIRES" if r.returncode == 1 else ("ok" if r.returncode == 0 else "ERROR(%d)" % r.returncode)
            print("%s %-6s %s" % (c, flag, "; ".join(keys)[:400]))
            if r.returncode not in (0, 1):
                print(out[-1500:])
    finally:
        subprocess.call(["git", "-C", "/repo", "worktree", "remove", "--force", wt])
        shutil.rmtree(wt, ignore_errors=True)
        shutil.rmtree(ev, ignore_errors=True)
    return 0


if __name__ == "__main__":
    sys.exit(main())
