#!/usr/bin/env python3
"""tools/apply_mutant.py <mutant id> <worktree>: apply one self-test mutant to a scratch worktree (for debugging a rule)"""
import json, os, subprocess, sys
HERE = os.path.dirname(os.path.dirname(os.path.abspath(__file__)))
mid, wt = sys.argv[1:3]
m = [x for x in json.load(open(os.path.join(HERE, "selftest", "mutants.json"))) if x["id"] == mid][0]
if "patch" in m:
    subprocess.check_call(["git", "-C", wt, "apply", os.path.join(HERE, "selftest", "mutants", m["patch"])])
else:
    p = os.path.join(wt, m["file"])
    s = open(p).read()
    assert m["old"] in s, "old text not found"
    open(p, "w").write(s.replace(m["old"], m["new"], 1))
print("applied", mid)
