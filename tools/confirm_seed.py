#!/usr/bin/env python3
"""Confirm a seeded change independently: (A) demo only -> demo passes; (B) patch + demo -> demo fails, pinned stable tests still pass.

usage: tools/confirm_seed.py <dir with patch.diff + demo.diff>   (scratch worktree under /tmp, removed afterwards)"""
import json, os, re, shutil, subprocess, sys, tempfile

base = json.load(open("/root/.vp/BASELINE.json"))
stable = set()
for t in base["stable_pass"]:
    name = t.split("::", 1)[1]
    if "bin/" in name:
        name = name.split("::", 1)[1]
    stable.add(name)


def run_tests(wt, target):
    env = dict(os.environ, CARGO_TARGET_DIR=target, CARGO_NET_OFFLINE="true")
    r = subprocess.run("cargo test --workspace --no-fail-fast --offline 2>&1", shell=True, cwd=wt, env=env, stdout=subprocess.PIPE)
    out = r.stdout.decode(errors="replace")
    res = {}
    for line in out.splitlines():
        m = re.match(r"test (\S+) \.\.\. (ok|FAILED|ignored)", line)
        if m:
            res[m.group(1)] = m.group(2)
    built = "error: could not compile" not in out and "error[E" not in out
    return res, built, out


def main():
    d = os.path.abspath(sys.argv[1])
    wt = tempfile.mkdtemp(prefix="verif_confirm_")
    os.rmdir(wt)
    target = os.environ.get("VERIF_CONFIRM_TARGET", "/tmp/verif_confirm_target")
    try:
        subprocess.check_call(["git", "-C", "/repo", "worktree", "add", "-q", "--detach", wt, "HEAD"])
        demo = os.path.join(d, "demo.diff")
        patch = os.path.join(d, "patch.diff")
        subprocess.check_call(["git", "-C", wt, "apply", demo])
        a, built_a, out_a = run_tests(wt, target)
        subprocess.check_call(["git", "-C", wt, "apply", patch])
        b, built_b, out_b = run_tests(wt, target)
        demo_tests = sorted(t for t in a if a[t] == "ok" and b.get(t) == "FAILED")
        stable_broken = sorted(t for t in stable if b.get(t) != "ok")
        new_in_demo = sorted(t for t in a if t not in stable and ("seed" in t.lower() or "demo" in t.lower()))
        print("built: demo-only=%s patch+demo=%s" % (built_a, built_b))
        print("demo tests present:", new_in_demo)
        print("pass without patch, fail with patch:", demo_tests)
        print("stable baseline tests not passing with the patch:", stable_broken)
        ok = built_a and built_b and demo_tests and not stable_broken
        print("CONFIRMED" if ok else "NOT CONFIRMED")
        if not ok:
            print(out_b[-3000:])
        return 0 if ok else 1
    finally:
        subprocess.call(["git", "-C", "/repo", "worktree", "remove", "--force", wt])
        shutil.rmtree(wt, ignore_errors=True)


if __name__ == "__main__":
    sys.exit(main())
