#!/usr/bin/env python3
"""Regenerate /verif/MANIFEST.json from rules/meta.py (keeps it valid and in step with the rule modules)."""
import json
import os
import sys

HERE = os.path.dirname(os.path.dirname(os.path.abspath(__file__)))
sys.path.insert(0, HERE)
from rules import meta  # noqa

props = [json.loads(l) for l in open(os.path.join(HERE, "properties.jsonl"))]
checks = []
na = []
for p in props:
    pid = p["id"]
    if pid in meta.META and os.path.exists(os.path.join(HERE, "rules", pid.lower() + ".py")):
        m = meta.META[pid]
        checks.append({
            "property_id": pid,
            "quick_cmd": "./verif check %s --tier quick" % pid,
            "thorough_cmd": "./verif check %s --tier thorough" % pid,
            "evidence_file": "/verif/evidence/%s.json" % pid,
            "replay_cmd_template": "./verif check %s --tier thorough  # report: {path}" % pid,
            "engine": "gpa-facts+rules",
            "level_claimed": {"category": "other", "text": m["text"], "design_ref": m["design_ref"]},
            "level_note": m["note"],
            "technique": "static analysis: " + m["technique"],
        })
    else:
        na.append({"property_id": pid, "reason": meta.NOT_APPLICABLE.get(
            pid, "check under construction (DESIGN.md §5); not claimed until its rule set is armed")})
man = {
    "version": 1,
    "setup_cmd": "./verif setup",
    "hooks": {"guard": "gpa_verif", "enable": "none needed: static analysis reads the source; no instrumentation in /repo",
              "baseline_off_cmd": "cd /repo && cargo test --workspace --no-fail-fast --offline",
              "source_commits": [], "add_only": True},
    "engines": [
        {"name": "gpa-facts", "path": "/verif/driver", "serves_properties": [c["property_id"] for c in checks],
         "kind_free_text": "rustc_private driver (nightly) dumping pre-coroutine-lowering MIR facts of the four workspace crates as JSON"},
        {"name": "rules", "path": "/verif/rules", "serves_properties": [c["property_id"] for c in checks],
         "kind_free_text": "python3 rule layer: call graph, edge dominance, provenance, secret flow, panic-site inventory, table agreement"},
        {"name": "ebpf-c", "path": "/verif/lib/ebpf_extract.py", "serves_properties": ["C06"],
         "kind_free_text": "clang 14 typed JSON AST + record layouts of linux-ebpf/ebpf_cgroup.c with stub libbpf headers"},
    ],
    "checks": checks,
    "not_applicable": na,
    "notes": "All checks are static analyses over facts rebuilt from /repo's working tree (content-hash keyed cache under /verif/.cache). "
             "Exit 0 = holds (known findings printed as KNOWN-FINDING), exit 1 = VIOLATION line(s), exit 2 = /repo does not build, exit 3 = broken checker.",
}
json.dump(man, open(os.path.join(HERE, "MANIFEST.json"), "w"), indent=1)
print("MANIFEST: %d checks, %d not_applicable" % (len(checks), len(na)))
