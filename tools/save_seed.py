#!/usr/bin/env python3
"""tools/save_seed.py <src dir> <dest name> <json meta file>  - copy patch/demo/notes and write meta.json"""
import json, os, shutil, sys
src, name, metaf = sys.argv[1:4]
HERE = os.path.dirname(os.path.dirname(os.path.abspath(__file__)))
dst = os.path.join(HERE, "seeded", name)
os.makedirs(dst, exist_ok=True)
for f in os.listdir(src):
    if f in ("patch.diff", "demo.diff", "notes.md", "demo_e2e.sh"):
        shutil.copy(os.path.join(src, f), os.path.join(dst, f))
json.dump(json.load(open(metaf)), open(os.path.join(dst, "meta.json"), "w"), indent=1)
