#!/usr/bin/env python3
"""Run the repository's pinned test suite (guard off) and compare with BASELINE.json's stable_pass list."""
import json, re, subprocess, sys
base = json.load(open("/root/.vp/BASELINE.json"))
r = subprocess.run("cd /repo && cargo test --workspace --no-fail-fast --offline 2>&1", shell=True, stdout=subprocess.PIPE)
out = r.stdout.decode(errors="replace")
ok = set(); bad = set()
cur = None
for line in out.splitlines():
    m = re.match(r"\s*Running (unittests )?(\S+) \((\S+)\)", line)
    if m:
        exe = m.group(3).split("/")[-1].rsplit("-", 1)[0]
        cur = exe
    m = re.match(r"test (\S+) \.\.\. (ok|FAILED|ignored)", line)
    if m:
        (ok if m.group(2) == "ok" else bad).add((cur, m.group(1)))
missing = []
for t in base["stable_pass"]:
    name = t.split("::", 1)[1]
    if "bin/" in name:
        name = name.split("::", 1)[1]
    if not any(n == name for _, n in ok):
        missing.append(t)
print("passed=%d failed=%d stable=%d missing_from_pass=%d" % (len(ok), len(bad), len(base["stable_pass"]), len(missing)))
for m in missing:
    print("  NOT PASSING:", m)
sys.exit(1 if missing else 0)
