#!/usr/bin/env python3
"""tools/add_neg.py <id> <prop> <patch> <checks,comma> <note>: register a behaviour-preserving rewrite as a negative self-test mutant"""
import json, shutil, sys, os
HERE = os.path.dirname(os.path.dirname(os.path.abspath(__file__)))
mid, prop, patch, checks, note = sys.argv[1:6]
p = os.path.join(HERE, "selftest", "mutants.json")
m = json.load(open(p))
m = [x for x in m if x["id"] != mid]
shutil.copy(patch, os.path.join(HERE, "selftest", "mutants", mid + ".patch"))
m.append({"id": mid, "prop": prop, "all_checks": checks.split(","), "kind": "negative", "expect": [], "patch": mid + ".patch", "note": note})
json.dump(m, open(p, "w"), indent=1)
print("mutants:", len(m))
