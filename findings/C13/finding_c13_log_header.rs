// Demonstration for finding F16 (C13): `logger::get_log_header` slices the header at byte 34, but the time stamp in front of it is
// rendered with `[subsecond]` (as many digits as needed, no trailing zeros), so whenever the clock's sub-second part has one or two
// significant digits the header is shorter than 34 bytes and the slice panics. Every log line of every request goes through it.
use proxy_agent_shared::logger::{get_log_header, LoggerLevel};
use std::time::{Duration, Instant};

#[test]
fn finding_c13_log_header_never_panics() {
    let start = Instant::now();
    let mut calls: u64 = 0;
    let prev = std::panic::take_hook();
    std::panic::set_hook(Box::new(|_| {}));
    let mut panicked = None;
    while start.elapsed() < Duration::from_secs(240) {
        calls += 1;
        if let Err(e) = std::panic::catch_unwind(|| get_log_header(LoggerLevel::Info)) {
            let msg = e
                .downcast_ref::<String>()
                .cloned()
                .or_else(|| e.downcast_ref::<&str>().map(|s| s.to_string()))
                .unwrap_or_default();
            panicked = Some(msg);
            break;
        }
    }
    std::panic::set_hook(prev);
    println!("get_log_header called {} times in {:?}", calls, start.elapsed());
    assert!(
        panicked.is_none(),
        "get_log_header panicked after {} calls: {}",
        calls,
        panicked.unwrap()
    );
}
