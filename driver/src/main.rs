// gpa-facts: rustc_private MIR fact extractor for the GuestProxyAgent static checks.
//
// Used as RUSTC_WORKSPACE_WRAPPER under `cargo +nightly check`. For every workspace crate it
// dumps, after macro expansion and before anything is stolen, the *pre-coroutine-lowering*
// MIR (`mir_promoted`) of every fn / assoc fn / closure / coroutine as one JSON document
// `$GPA_FACTS_DIR/<crate>.json`, then lets compilation continue normally.
#![feature(rustc_private)]

extern crate rustc_abi;
extern crate rustc_driver;
extern crate rustc_hir;
extern crate rustc_interface;
extern crate rustc_middle;
extern crate rustc_span;

mod json;
use json::J;

use rustc_driver::{Callbacks, Compilation};
use rustc_hir::def::DefKind;
use rustc_hir::def_id::{DefId, LocalDefId};
use rustc_middle::mir::{self, *};
use rustc_middle::ty::print::{with_crate_prefix, with_no_trimmed_paths};
use rustc_middle::ty::{self, Ty, TyCtxt, TypeVisitableExt};
use rustc_span::Span;

struct Cb;

impl Callbacks for Cb {
    fn after_expansion<'tcx>(
        &mut self,
        _c: &rustc_interface::interface::Compiler,
        tcx: TyCtxt<'tcx>,
    ) -> Compilation {
        let dir = match std::env::var("GPA_FACTS_DIR") {
            Ok(d) => d,
            Err(_) => return Compilation::Continue,
        };
        let krate = tcx.crate_name(rustc_hir::def_id::LOCAL_CRATE).to_string();
        if krate.starts_with("build_script_") {
            return Compilation::Continue;
        }
        let cx = Cx { tcx, krate: krate.clone() };
        let doc = cx.dump_crate();
        let mut out = String::with_capacity(1 << 24);
        doc.write(&mut out);
        let path = format!("{}/{}.json", dir, krate);
        let tmp = format!("{}.tmp{}", path, std::process::id());
        std::fs::write(&tmp, out.as_bytes()).expect("write facts");
        std::fs::rename(&tmp, &path).expect("rename facts");
        Compilation::Continue
    }
}

struct Cx<'tcx> {
    tcx: TyCtxt<'tcx>,
    krate: String,
}

fn s(x: impl Into<String>) -> J {
    J::Str(x.into())
}
fn n(x: impl TryInto<i128>) -> J {
    J::Num(x.try_into().ok().unwrap_or(-1))
}

impl<'tcx> Cx<'tcx> {
    /// replace the `crate` path root printed under `with_crate_prefix` by the crate's name
    fn fix(&self, p: String) -> String {
        if !p.contains("crate") {
            return p;
        }
        let b = p.as_bytes();
        let mut out = String::with_capacity(p.len() + 32);
        let mut i = 0;
        while i < b.len() {
            if b[i..].starts_with(b"crate::")
                && (i == 0 || !(b[i - 1].is_ascii_alphanumeric() || b[i - 1] == b'_'))
            {
                out.push_str(&self.krate);
                out.push_str("::");
                i += 7;
            } else {
                // copy one utf-8 char
                let ch = p[i..].chars().next().unwrap();
                out.push(ch);
                i += ch.len_utf8();
            }
        }
        out
    }

    fn path(&self, d: DefId) -> String {
        let p = with_no_trimmed_paths!(with_crate_prefix!(self.tcx.def_path_str(d)));
        self.fix(p)
    }

    fn ty(&self, t: Ty<'tcx>) -> String {
        let p = with_no_trimmed_paths!(with_crate_prefix!(t.to_string()));
        self.fix(p)
    }

    /// def path of the nominal head of a type after peeling references / raw pointers
    fn ty_head(&self, t: Ty<'tcx>) -> J {
        let mut t = t;
        loop {
            match t.kind() {
                ty::Ref(_, inner, _) => t = *inner,
                ty::RawPtr(inner, _) => t = *inner,
                _ => break,
            }
        }
        match t.kind() {
            ty::Adt(def, _) => s(self.path(def.did())),
            ty::Closure(d, _) | ty::Coroutine(d, _) | ty::CoroutineClosure(d, _) => s(self.path(*d)),
            ty::FnDef(d, _) => s(self.path(*d)),
            _ => J::Null,
        }
    }

    fn span(&self, sp: Span) -> (String, i128, J) {
        let sm = self.tcx.sess.source_map();
        let exp = if sp.from_expansion() {
            let ed = sp.ctxt().outer_expn_data();
            s(format!("{:?}", ed.kind))
        } else {
            J::Null
        };
        let cs = sp.source_callsite();
        if cs.is_dummy() {
            return (String::new(), 0, exp);
        }
        let loc = sm.lookup_char_pos(cs.lo());
        let file = match &loc.file.name {
            rustc_span::FileName::Real(r) => match r.local_path() {
                Some(p) => p.to_string_lossy().to_string(),
                None => format!("{:?}", r),
            },
            other => format!("{:?}", other),
        };
        (file, loc.line as i128, exp)
    }

    fn dump_crate(&self) -> J {
        let tcx = self.tcx;
        let mut fns = Vec::new();
        let mut consts = Vec::new();
        // phase 1: clone every body before any query that could steal one (resolving an
        // instance may reveal an opaque type, which borrow-checks and steals its definer)
        let mut bodies = Vec::new();
        for def in tcx.hir_body_owners() {
            let kind = tcx.def_kind(def);
            // statics too: their initialisers (Lazy::new(f)) are the only callers of some functions
            // constants: the initialiser of a table (`const T: [(..); N] = [..]`) is what a table-driven loop iterates; only those
            // whose MIR nothing has consumed yet (a constant used in a type was already evaluated during type checking)
            let is_const = matches!(kind, DefKind::Const { .. } | DefKind::AssocConst { .. });
            if is_const && tcx.generics_of(def.to_def_id()).requires_monomorphization(tcx) {
                continue;
            }
            if is_const || matches!(kind, DefKind::Fn | DefKind::AssocFn | DefKind::Closure | DefKind::SyntheticCoroutineBody | DefKind::Static { .. }) {
                let (b, p) = tcx.mir_promoted(def);
                if is_const && (b.is_stolen() || p.is_stolen()) {
                    continue;
                }
                let body: Body<'tcx> = b.borrow().clone();
                let prom: Vec<Body<'tcx>> = p.borrow().iter().cloned().collect();
                bodies.push((def, kind, body, prom));
            }
        }
        for (def, kind, body, prom) in &bodies {
            fns.push(self.dump_fn(*def, *kind, body, prom));
        }
        for def in tcx.hir_body_owners() {
            let kind = tcx.def_kind(def);
            match kind {
                DefKind::Const { .. } | DefKind::AssocConst { .. } | DefKind::Static { .. } => {
                    if let Some(c) = self.dump_const_item(def) {
                        consts.push(c);
                    }
                }
                _ => {}
            }
        }
        let mut adts = Vec::new();
        let mut impls = Vec::new();
        for id in tcx.hir_free_items() {
            let def = id.owner_id.def_id;
            match tcx.def_kind(def) {
                DefKind::Struct | DefKind::Enum | DefKind::Union => adts.push(self.dump_adt(def)),
                DefKind::Impl { .. } => impls.push(self.dump_impl(def)),
                _ => {}
            }
        }
        J::Obj(vec![
            ("crate", s(self.krate.clone())),
            ("fns", J::Arr(fns)),
            ("consts", J::Arr(consts)),
            ("adts", J::Arr(adts)),
            ("impls", J::Arr(impls)),
        ])
    }

    fn dump_adt(&self, def: LocalDefId) -> J {
        let tcx = self.tcx;
        let adt = tcx.adt_def(def);
        let mut variants = Vec::new();
        for v in adt.variants() {
            let mut fields = Vec::new();
            for f in &v.fields {
                let fty = tcx.type_of(f.did).instantiate_identity().skip_norm_wip();
                fields.push(J::Obj(vec![
                    ("name", s(f.name.to_string())),
                    ("ty", s(self.ty(fty))),
                    ("head", self.ty_head(fty)),
                ]));
            }
            variants.push(J::Obj(vec![("name", s(v.name.to_string())), ("fields", J::Arr(fields))]));
        }
        let (file, line, _) = self.span(tcx.def_span(def));
        J::Obj(vec![
            ("id", s(self.path(def.to_def_id()))),
            ("kind", s(format!("{:?}", adt.adt_kind()))),
            ("repr_c", J::Bool(adt.repr().c())),
            ("variants", J::Arr(variants)),
            ("file", s(file)),
            ("line", J::Num(line)),
        ])
    }

    fn dump_impl(&self, def: LocalDefId) -> J {
        let tcx = self.tcx;
        let self_ty = tcx.type_of(def).instantiate_identity().skip_norm_wip();
        let tr = match tcx.impl_opt_trait_ref(def) {
            Some(t) => s(self.path(t.skip_binder().def_id)),
            None => J::Null,
        };
        let (file, line, exp) = self.span(tcx.def_span(def));
        let mut items = Vec::new();
        for it in tcx.associated_item_def_ids(def) {
            items.push(s(self.path(*it)));
        }
        J::Obj(vec![
            ("self_ty", s(self.ty(self_ty))),
            ("self_head", self.ty_head(self_ty)),
            ("trait", tr),
            ("items", J::Arr(items)),
            ("file", s(file)),
            ("line", J::Num(line)),
            ("exp", exp),
        ])
    }

    fn dump_const_item(&self, def: LocalDefId) -> Option<J> {
        let tcx = self.tcx;
        let did = def.to_def_id();
        if tcx.generics_of(did).requires_monomorphization(tcx) {
            return None;
        }
        let ty = tcx.type_of(did).instantiate_identity().skip_norm_wip();
        let val = match tcx.def_kind(def) {
            DefKind::Static { .. } => J::Null,
            _ => match tcx.const_eval_poly(did) {
                Ok(v) => self.const_value(v, ty),
                Err(_) => J::Null,
            },
        };
        let (file, line, _) = self.span(tcx.def_span(def));
        Some(J::Obj(vec![
            ("id", s(self.path(did))),
            ("ty", s(self.ty(ty))),
            ("val", val),
            ("file", s(file)),
            ("line", J::Num(line)),
        ]))
    }

    fn const_value(&self, v: ConstValue, ty: Ty<'tcx>) -> J {
        let tcx = self.tcx;
        match v {
            ConstValue::Scalar(sc) => {
                if let Ok(si) = sc.try_to_scalar_int() {
                    let size = si.size();
                    if ty.is_signed() {
                        J::Num(si.to_int(size))
                    } else {
                        let u = si.to_uint(size);
                        if u <= i128::MAX as u128 { J::Num(u as i128) } else { s(format!("{}", u)) }
                    }
                } else if let rustc_middle::mir::interpret::Scalar::Ptr(ptr, _) = sc {
                    // &[u8; N] byte-string constants (format_args templates, b"..")
                    let mut out = J::Null;
                    if let ty::Ref(_, inner, _) = ty.kind() {
                        if let ty::Array(elem, len) = inner.kind() {
                            if *elem == tcx.types.u8 {
                                if let Some(n) = len.try_to_target_usize(tcx) {
                                    let (prov, off) = ptr.into_raw_parts();
                                    if let Some(rustc_middle::mir::interpret::GlobalAlloc::Memory(a)) =
                                        tcx.try_get_global_alloc(prov.alloc_id())
                                    {
                                        let lo = off.bytes() as usize;
                                        let hi = lo + n as usize;
                                        if hi <= a.inner().len() {
                                            let b = a.inner().inspect_with_uninit_and_ptr_outside_interpreter(lo..hi);
                                            out = J::Obj(vec![("bytes", J::Arr(b.iter().map(|x| J::Num(*x as i128)).collect()))]);
                                        }
                                    }
                                }
                            }
                        }
                    }
                    out
                } else {
                    J::Null
                }
            }
            ConstValue::Slice { .. } => {
                // &str / &[u8]
                match v.try_get_slice_bytes_for_diagnostics(tcx) {
                    Some(b) => match std::str::from_utf8(b) {
                        Ok(st) => s(st.to_string()),
                        Err(_) => J::Arr(b.iter().map(|x| J::Num(*x as i128)).collect()),
                    },
                    None => J::Null,
                }
            }
            ConstValue::ZeroSized => s("<zst>"),
            ConstValue::Indirect { .. } => J::Null,
        }
    }

    fn dump_fn(&self, def: LocalDefId, kind: DefKind, body: &Body<'tcx>, promoted: &[Body<'tcx>]) -> J {
        let tcx = self.tcx;
        let did = def.to_def_id();
        let parent = if matches!(kind, DefKind::Closure | DefKind::SyntheticCoroutineBody) {
            s(self.path(tcx.parent(did)))
        } else {
            J::Null
        };
        let ckind = match if matches!(kind, DefKind::Static { .. } | DefKind::Const { .. } | DefKind::AssocConst { .. }) { None } else { tcx.coroutine_kind(did) } {
            Some(k) => s(format!("{:?}", k)),
            None => J::Null,
        };
        let vis = match kind {
            DefKind::Fn | DefKind::AssocFn => s(format!("{:?}", tcx.visibility(did))),
            _ => J::Null,
        };
        let is_static = matches!(kind, DefKind::Static { .. } | DefKind::Const { .. } | DefKind::AssocConst { .. });
        let (file, line, _) = self.span(body.span);
        let hi = {
            let sm = tcx.sess.source_map();
            let cs = body.span.source_callsite();
            if cs.is_dummy() { 0 } else { sm.lookup_char_pos(cs.hi()).line as i128 }
        };
        let mut prom = Vec::new();
        for p in promoted.iter() {
            prom.push(self.dump_body(def, p));
        }
        let mut o = vec![
            ("id", s(self.path(did))),
            ("kind", s(if is_static { "Static".to_string() } else { format!("{:?}", kind) })),
            ("parent", parent),
            ("coroutine", ckind),
            ("vis", vis),
            ("file", s(file)),
            ("line", J::Num(line)),
            ("line_hi", J::Num(hi)),
            ("is_async", J::Bool(!is_static && tcx.asyncness(did).is_async())),
        ];
        if let J::Obj(b) = self.dump_body(def, body) {
            o.extend(b);
        }
        o.push(("promoted", J::Arr(prom)));
        J::Obj(o)
    }

    fn dump_body(&self, owner: LocalDefId, body: &Body<'tcx>) -> J {
        let mut locals = Vec::new();
        let mut names: Vec<Option<String>> = vec![None; body.local_decls.len()];
        let mut dbg = Vec::new();
        for vdi in &body.var_debug_info {
            match &vdi.value {
                VarDebugInfoContents::Place(p) => {
                    if p.projection.is_empty() {
                        names[p.local.as_usize()] = Some(vdi.name.to_string());
                    }
                    dbg.push(J::Obj(vec![("name", s(vdi.name.to_string())), ("place", self.place(body, *p))]));
                }
                VarDebugInfoContents::Const(_) => {}
            }
        }
        for (i, d) in body.local_decls.iter_enumerated() {
            locals.push(J::Obj(vec![
                ("ty", s(self.ty(d.ty))),
                ("head", self.ty_head(d.ty)),
                ("name", match &names[i.as_usize()] { Some(x) => s(x.clone()), None => J::Null }),
                ("user", J::Bool(d.is_user_variable())),
            ]));
        }
        let mut blocks = Vec::new();
        for (_bb, data) in body.basic_blocks.iter_enumerated() {
            let mut stmts = Vec::new();
            for st in &data.statements {
                if let Some(j) = self.stmt(owner, body, st) {
                    stmts.push(j);
                }
            }
            let term = self.term(owner, body, data.terminator());
            blocks.push(J::Obj(vec![("cleanup", J::Bool(data.is_cleanup)), ("stmts", J::Arr(stmts)), ("term", term)]));
        }
        J::Obj(vec![
            ("arg_count", n(body.arg_count)),
            ("locals", J::Arr(locals)),
            ("debug", J::Arr(dbg)),
            ("blocks", J::Arr(blocks)),
        ])
    }

    fn place(&self, body: &Body<'tcx>, p: Place<'tcx>) -> J {
        let tcx = self.tcx;
        let mut proj = Vec::new();
        let mut pty = mir::PlaceTy::from_ty(body.local_decls[p.local].ty);
        for elem in p.projection.iter() {
            let j = match elem {
                ProjectionElem::Deref => s("*"),
                ProjectionElem::Field(f, fty) => {
                    let name = match pty.ty.kind() {
                        ty::Adt(adt, _) => {
                            let v = match pty.variant_index {
                                Some(v) => adt.variant(v),
                                None if adt.is_enum() => adt.variants().iter().next().unwrap(),
                                None => adt.non_enum_variant(),
                            };
                            v.fields.get(f).map(|fd| fd.name.to_string())
                        }
                        _ => None,
                    };
                    J::Obj(vec![
                        ("f", n(f.as_usize())),
                        ("n", match name { Some(x) => s(x), None => J::Null }),
                        ("ty", s(self.ty(fty))),
                    ])
                }
                ProjectionElem::Index(l) => J::Obj(vec![("i", n(l.as_usize()))]),
                ProjectionElem::ConstantIndex { offset, from_end, .. } => {
                    J::Obj(vec![("ci", n(offset)), ("from_end", J::Bool(from_end))])
                }
                ProjectionElem::Subslice { from, to, from_end } => {
                    J::Obj(vec![("sub", J::Arr(vec![n(from), n(to)])), ("from_end", J::Bool(from_end))])
                }
                ProjectionElem::Downcast(name, v) => {
                    let nm = match name {
                        Some(x) => x.to_string(),
                        None => match pty.ty.kind() {
                            ty::Adt(adt, _) => adt.variant(v).name.to_string(),
                            _ => format!("{}", v.as_usize()),
                        },
                    };
                    J::Obj(vec![("d", s(nm)), ("v", n(v.as_usize()))])
                }
                ProjectionElem::OpaqueCast(_) => s("opaque"),
                ProjectionElem::UnwrapUnsafeBinder(_) => s("unbind"),
            };
            proj.push(j);
            pty = pty.projection_ty(tcx, elem);
        }
        J::Obj(vec![("l", n(p.local.as_usize())), ("p", J::Arr(proj))])
    }

    fn operand(&self, owner: LocalDefId, body: &Body<'tcx>, op: &Operand<'tcx>) -> J {
        match op {
            Operand::Copy(p) => J::Obj(vec![("k", s("copy")), ("p", self.place(body, *p))]),
            Operand::Move(p) => J::Obj(vec![("k", s("move")), ("p", self.place(body, *p))]),
            Operand::Constant(c) => self.constant(owner, c),
            _ => J::Obj(vec![("k", s("const")), ("ty", s("<runtime-check>"))]),
        }
    }

    fn constant(&self, owner: LocalDefId, c: &ConstOperand<'tcx>) -> J {
        let tcx = self.tcx;
        let ty = c.const_.ty();
        let mut o = vec![("k", s("const")), ("ty", s(self.ty(ty)))];
        if let ty::FnDef(d, args) = ty.kind() {
            o.push(("fn", s(self.path(*d))));
            o.push(("fnargs", self.generic_args(args)));
            if let Some(r) = self.resolve(owner, *d, args) {
                o.push(("resolved", s(r)));
            }
            return J::Obj(o);
        }
        match c.const_ {
            Const::Unevaluated(u, _) => {
                if let Some(p) = u.promoted {
                    o.push(("promoted", n(p.as_usize())));
                } else {
                    o.push(("def", s(self.path(u.def))));
                    // evaluate simple named constants
                    if !matches!(tcx.def_kind(u.def), DefKind::AnonConst | DefKind::InlineConst) {
                        let env = ty::TypingEnv::post_analysis(tcx, owner);
                        if let Ok(v) = c.const_.eval(tcx, env, c.span) {
                            let j = self.const_value(v, ty);
                            if !matches!(j, J::Null) {
                                o.push(("val", j));
                            }
                        }
                    }
                }
            }
            Const::Val(v, _) => {
                let j = self.const_value(v, ty);
                if !matches!(j, J::Null) {
                    o.push(("val", j));
                }
            }
            Const::Ty(_, ct) => {
                // pattern constants are valtrees: evaluate to a value when possible
                let env = ty::TypingEnv::post_analysis(tcx, owner);
                let mut done = false;
                if !ct.has_non_region_param() {
                    if let Ok(v) = c.const_.eval(tcx, env, c.span) {
                        let j = self.const_value(v, ty);
                        if !matches!(j, J::Null) {
                            o.push(("val", j));
                            done = true;
                        }
                    }
                }
                if !done {
                    o.push(("tyconst", s(format!("{:?}", ct))));
                }
            }
        }
        J::Obj(o)
    }

    fn generic_args(&self, args: ty::GenericArgsRef<'tcx>) -> J {
        let mut v = Vec::new();
        for a in args.iter() {
            if let Some(t) = a.as_type() {
                v.push(J::Obj(vec![("ty", s(self.ty(t))), ("head", self.ty_head(t))]));
            } else if let Some(c) = a.as_const() {
                v.push(J::Obj(vec![("const", s(format!("{:?}", c)))]));
            }
        }
        J::Arr(v)
    }

    fn resolve(&self, owner: LocalDefId, d: DefId, args: ty::GenericArgsRef<'tcx>) -> Option<String> {
        let tcx = self.tcx;
        if !matches!(tcx.def_kind(d), DefKind::Fn | DefKind::AssocFn) {
            return None;
        }
        let env = ty::TypingEnv::post_analysis(tcx, owner);
        let args = tcx.erase_and_anonymize_regions(args);
        let r = std::panic::catch_unwind(std::panic::AssertUnwindSafe(|| ty::Instance::try_resolve(tcx, env, d, args)));
        match r {
            Ok(Ok(Some(inst))) => Some(self.path(inst.def_id())),
            _ => None,
        }
    }

    fn rvalue(&self, owner: LocalDefId, body: &Body<'tcx>, rv: &Rvalue<'tcx>) -> J {
        let op = |o: &Operand<'tcx>| self.operand(owner, body, o);
        match rv {
            Rvalue::Use(o, ..) => J::Obj(vec![("k", s("use")), ("o", op(o))]),
            Rvalue::Repeat(o, _) => J::Obj(vec![("k", s("repeat")), ("o", op(o))]),
            Rvalue::Ref(_, bk, p) => J::Obj(vec![
                ("k", s("ref")),
                ("mut", J::Bool(matches!(bk, BorrowKind::Mut { .. }))),
                ("p", self.place(body, *p)),
            ]),
            Rvalue::RawPtr(_, p) => J::Obj(vec![("k", s("rawptr")), ("p", self.place(body, *p))]),
            Rvalue::Cast(ck, o, t) => J::Obj(vec![
                ("k", s("cast")),
                ("ck", s(format!("{:?}", ck))),
                ("o", op(o)),
                ("ty", s(self.ty(*t))),
            ]),
            Rvalue::BinaryOp(b, ops) => J::Obj(vec![
                ("k", s("bin")),
                ("op", s(format!("{:?}", b))),
                ("a", op(&ops.0)),
                ("b", op(&ops.1)),
            ]),
            Rvalue::UnaryOp(u, o) => J::Obj(vec![("k", s("un")), ("op", s(format!("{:?}", u))), ("a", op(o))]),
            Rvalue::Discriminant(p) => J::Obj(vec![("k", s("discr")), ("p", self.place(body, *p))]),
            Rvalue::CopyForDeref(p) => J::Obj(vec![
                ("k", s("use")),
                ("o", J::Obj(vec![("k", s("copy")), ("p", self.place(body, *p))])),
            ]),
            Rvalue::Aggregate(ak, ops) => {
                let mut o = vec![("k", s("agg"))];
                match &**ak {
                    AggregateKind::Array(_) => o.push(("ak", s("array"))),
                    AggregateKind::Tuple => o.push(("ak", s("tuple"))),
                    AggregateKind::Adt(d, v, _, _, _) => {
                        o.push(("ak", s("adt")));
                        o.push(("adt", s(self.path(*d))));
                        let adt = self.tcx.adt_def(*d);
                        let var = adt.variant(*v);
                        o.push(("variant", s(var.name.to_string())));
                        o.push(("fields", J::Arr(var.fields.iter().map(|f| s(f.name.to_string())).collect())));
                    }
                    AggregateKind::Closure(d, _) => {
                        o.push(("ak", s("closure")));
                        o.push(("def", s(self.path(*d))));
                    }
                    AggregateKind::Coroutine(d, _) => {
                        o.push(("ak", s("coroutine")));
                        o.push(("def", s(self.path(*d))));
                    }
                    AggregateKind::CoroutineClosure(d, _) => {
                        o.push(("ak", s("coroutine_closure")));
                        o.push(("def", s(self.path(*d))));
                    }
                    AggregateKind::RawPtr(..) => o.push(("ak", s("rawptr"))),
                }
                o.push(("ops", J::Arr(ops.iter().map(|x| op(x)).collect())));
                J::Obj(o)
            }
            Rvalue::ThreadLocalRef(d) => J::Obj(vec![("k", s("tls")), ("def", s(self.path(*d)))]),
            Rvalue::WrapUnsafeBinder(o, _) => J::Obj(vec![("k", s("use")), ("o", op(o))]),
        }
    }

    fn stmt(&self, owner: LocalDefId, body: &Body<'tcx>, st: &Statement<'tcx>) -> Option<J> {
        let (file, line, exp) = self.span(st.source_info.span);
        let _ = file;
        match &st.kind {
            StatementKind::Assign(b) => {
                let (p, rv) = &**b;
                Some(J::Obj(vec![
                    ("k", s("assign")),
                    ("lhs", self.place(body, *p)),
                    ("rv", self.rvalue(owner, body, rv)),
                    ("line", J::Num(line)),
                    ("exp", exp),
                ]))
            }
            StatementKind::SetDiscriminant { place, variant_index } => Some(J::Obj(vec![
                ("k", s("setdiscr")),
                ("lhs", self.place(body, **place)),
                ("v", n(variant_index.as_usize())),
                ("line", J::Num(line)),
            ])),
            StatementKind::Intrinsic(i) => Some(J::Obj(vec![
                ("k", s("intrinsic")),
                ("what", s(format!("{:?}", i))),
                ("line", J::Num(line)),
            ])),
            _ => None,
        }
    }

    fn unwind(&self, u: &UnwindAction) -> J {
        match u {
            UnwindAction::Cleanup(b) => n(b.as_usize()),
            _ => J::Null,
        }
    }

    fn term(&self, owner: LocalDefId, body: &Body<'tcx>, t: &Terminator<'tcx>) -> J {
        let (file, line, exp) = self.span(t.source_info.span);
        let op = |o: &Operand<'tcx>| self.operand(owner, body, o);
        let bb = |b: &BasicBlock| n(b.as_usize());
        let mut o: Vec<(&'static str, J)> = Vec::new();
        match &t.kind {
            TerminatorKind::Goto { target } => {
                o.push(("k", s("goto")));
                o.push(("target", bb(target)));
            }
            TerminatorKind::SwitchInt { discr, targets } => {
                o.push(("k", s("switch")));
                o.push(("d", op(discr)));
                let mut v = Vec::new();
                for (val, tgt) in targets.iter() {
                    v.push(J::Arr(vec![
                        if val <= i128::MAX as u128 { J::Num(val as i128) } else { s(format!("{}", val)) },
                        bb(&tgt),
                    ]));
                }
                o.push(("targets", J::Arr(v)));
                o.push(("otherwise", bb(&targets.otherwise())));
            }
            TerminatorKind::UnwindResume => o.push(("k", s("resume"))),
            TerminatorKind::UnwindTerminate(_) => o.push(("k", s("terminate"))),
            TerminatorKind::Return => o.push(("k", s("return"))),
            TerminatorKind::Unreachable => o.push(("k", s("unreachable"))),
            TerminatorKind::Drop { place, target, unwind, .. } => {
                o.push(("k", s("drop")));
                o.push(("p", self.place(body, *place)));
                o.push(("target", bb(target)));
                o.push(("unwind", self.unwind(unwind)));
            }
            TerminatorKind::Call { func, args, destination, target, unwind, fn_span, .. } => {
                o.push(("k", s("call")));
                o.push(("f", op(func)));
                o.push(("args", J::Arr(args.iter().map(|a| op(&a.node)).collect())));
                o.push(("dest", self.place(body, *destination)));
                o.push(("target", match target { Some(b) => bb(b), None => J::Null }));
                o.push(("unwind", self.unwind(unwind)));
                let (_, fl, _) = self.span(*fn_span);
                o.push(("fn_line", J::Num(fl)));
            }
            TerminatorKind::TailCall { func, args, .. } => {
                o.push(("k", s("tailcall")));
                o.push(("f", op(func)));
                o.push(("args", J::Arr(args.iter().map(|a| op(&a.node)).collect())));
            }
            TerminatorKind::Assert { cond, expected, msg, target, unwind } => {
                o.push(("k", s("assert")));
                o.push(("cond", op(cond)));
                o.push(("expected", J::Bool(*expected)));
                let (kind, ops): (String, Vec<J>) = match &**msg {
                    AssertKind::BoundsCheck { len, index } => ("BoundsCheck".into(), vec![op(len), op(index)]),
                    AssertKind::Overflow(b, l, r) => (format!("Overflow({:?})", b), vec![op(l), op(r)]),
                    AssertKind::OverflowNeg(x) => ("OverflowNeg".into(), vec![op(x)]),
                    AssertKind::DivisionByZero(x) => ("DivisionByZero".into(), vec![op(x)]),
                    AssertKind::RemainderByZero(x) => ("RemainderByZero".into(), vec![op(x)]),
                    other => (format!("{:?}", other).split('(').next().unwrap_or("").to_string(), vec![]),
                };
                o.push(("msg", s(kind)));
                o.push(("ops", J::Arr(ops)));
                o.push(("target", bb(target)));
                o.push(("unwind", self.unwind(unwind)));
            }
            TerminatorKind::Yield { value, resume, resume_arg, drop } => {
                o.push(("k", s("yield")));
                o.push(("value", op(value)));
                o.push(("target", bb(resume)));
                o.push(("resume_arg", self.place(body, *resume_arg)));
                o.push(("drop", match drop { Some(b) => bb(b), None => J::Null }));
            }
            TerminatorKind::CoroutineDrop => o.push(("k", s("coroutine_drop"))),
            TerminatorKind::FalseEdge { real_target, imaginary_target } => {
                o.push(("k", s("falseedge")));
                o.push(("target", bb(real_target)));
                o.push(("imaginary", bb(imaginary_target)));
            }
            TerminatorKind::FalseUnwind { real_target, unwind } => {
                o.push(("k", s("falseunwind")));
                o.push(("target", bb(real_target)));
                o.push(("unwind", self.unwind(unwind)));
            }
            TerminatorKind::InlineAsm { .. } => o.push(("k", s("asm"))),
        }
        o.push(("file", s(file)));
        o.push(("line", J::Num(line)));
        o.push(("exp", exp));
        // full macro backtrace (innermost first) for call terminators: tells `panic!` written by hand from
        // one generated inside `tokio::select!` / derives
        if matches!(t.kind, TerminatorKind::Call { .. }) && t.source_info.span.from_expansion() {
            let mut chain = Vec::new();
            let mut sp = t.source_info.span;
            let mut guard = 0;
            while sp.from_expansion() && guard < 16 {
                let ed = sp.ctxt().outer_expn_data();
                chain.push(s(format!("{:?}", ed.kind)));
                sp = ed.call_site;
                guard += 1;
            }
            o.push(("exp_chain", J::Arr(chain)));
        }
        J::Obj(o)
    }
}

fn main() {
    let mut args: Vec<String> = std::env::args().collect();
    // RUSTC_WORKSPACE_WRAPPER: argv[1] is the real rustc path; drop it.
    if args.len() > 1 && (args[1].ends_with("rustc") || args[1].contains("/rustc")) {
        args.remove(1);
    }
    args[0] = "rustc".to_string();
    rustc_driver::install_ice_hook("gpa-facts", |_| ());
    let mut cb = Cb;
    rustc_driver::run_compiler(&args, &mut cb);
}
