"""C05 Proxy-owned headers cannot be spoofed or duplicated (DESIGN §5 C05)."""
from lib import mir, q

PS = "azure_proxy_agent::proxy::proxy_server::ProxyServer::"
HNR = PS + "handle_new_http_request"
HRS = PS + "handle_request_with_signature"
CONV = PS + "convert_request"
K = "azure_proxy_agent::common::constants::"

READ_ONLY = ("get", "get_all", "contains_key", "iter", "keys", "values", "len", "is_empty", "keys_len", "capacity")


def base_local(B, o, depth=12):
    """the variable an operand ultimately names (through refs / moves of single-definition temporaries)"""
    while depth > 0 and o["k"] in ("copy", "move"):
        depth -= 1
        l = o["p"]["l"]
        if B.locals[l].get("name") and not B.locals[l]["name"].startswith(("__", "<")):
            return l
        d = B.single_def(l)
        if d is None:
            return l
        bi, si, kind, payload = d
        if kind == "assign" and payload["rv"]["k"] in ("use", "cast"):
            o = payload["rv"]["o"]
        elif kind == "assign" and payload["rv"]["k"] == "ref":
            o = {"k": "copy", "p": payload["rv"]["p"]}
        else:
            return l
    return None


def header_mutations(B):
    """[(block, method, map_operand, term)] – every HeaderMap method call that is not read-only,
    plus every headers_mut() result that flows somewhere else"""
    out = []
    for bi, w, r, t in B.calls:
        b = q.base_name(w or "")
        if b.startswith("http::HeaderMap::") or b.startswith("http::header::HeaderMap::") or b.startswith("http::header::map::HeaderMap::"):
            m = b.rsplit("::", 1)[-1]
            if m in READ_ONLY:
                continue
            out.append((bi, m, t["args"][0] if t["args"] else None, t))
    return out


def header_name_const(B, o):
    """named constant given to HeaderName::from_static for this header-name operand"""
    out = set()
    for org in B.origins(o):
        if org[0] == "call" and q.ends(org[1], "HeaderName::from_static"):
            t = B.blocks[org[2]]["term"]
            out |= q.const_args(B, t, 0)
        elif org[0] == "const" and org[1]:
            out.add(org[1])
        else:
            out.add("<%s>" % (org[1] if len(org) > 1 else org[0]))
    return out


def request_local_of_map(B, map_operand):
    """local of the Request whose headers_mut() produced this map operand"""
    for org in B.origins(map_operand):
        if org[0] == "call" and q.ends(org[1], "headers_mut"):
            t = B.blocks[org[2]]["term"]
            return base_local(B, t["args"][0])
    return None


def run(F, R, tier):
    R.explanation = (
        "Resolved-callee inventory of every header mutation on the forwarded request in the handler routes: the "
        "claims, date and authorization headers are written with HeaderMap::insert (replace-all) on the very request "
        "object that is forwarded, the inserts edge-dominate every send, their values derive from the connection's "
        "kernel-attested claims / the proxy's clock / the computed signature, and no other mutator (append, entry, "
        "remove, extend...) touches that header map. Holds for every multiset of client headers because insert "
        "replaces all existing values of a (case-insensitive) name.")
    R.rule("C05.R1", "claims and date headers: HeaderMap::insert on the forwarded request, dominating every send")
    R.rule("C05.R2", "claims value = format(CLAIMS_IS_ROOT, connection claims.runAsElevated); date = get_date_time_rfc1123_string()")
    R.rule("C05.R3", "authorization header inserted (insert) after signing and before the send, on the request that is sent")
    R.rule("C05.R4", "header-mutation inventory on the forwarded request = exactly those three inserts")
    R.assumptions.append("http::HeaderMap::insert removes all previous values of the name; header names are case-insensitive (documented API)")
    R.not_decided += ["header bytes hyper adds on the wire (host, framing)"]

    hnr = R.anchor(HNR, "C05.R1")
    hrs = R.anchor(HRS, "C05.R3")
    if not hnr or not hrs:
        return
    # helpers that receive `&mut` of the request / its header map are analysed in place (MIR inlining), so that a step extracted into
    # a helper is seen exactly like the same step written inline
    from lib import inline
    hnr, inl1 = inline.inline_calls(F, hnr, inline.takes_mut_of(["http::Request<", "HeaderMap"]))
    hrs, inl2 = inline.inline_calls(F, hrs, inline.takes_mut_of(["http::Request<", "HeaderMap"]))
    for f_ in inl1 + inl2:
        R.touched(f_)
    B = mir.Body(hnr, F)
    BS = mir.Body(hrs, F)

    sends = [c[0] for c in B.calls_named("HttpConnectionContext::send_request")]
    hrs_calls = B.calls_named("ProxyServer::handle_request_with_signature")
    conv_calls = B.calls_named("ProxyServer::convert_request")
    sinks = sends + [c[0] for c in hrs_calls]
    # the request object that is forwarded
    fwd = set()
    for bi, w, r, t in hrs_calls:
        fwd.add(base_local(B, t["args"][2]))
    for bi, w, r, t in conv_calls:
        fwd.add(base_local(B, t["args"][0]))
    R.check(len(fwd) == 1 and None not in fwd, "C05.R1", "C05.R1:%s:one-forwarded-request" % HNR, "-",
            "both routes forward the same request variable (%s)" % [B.locals[l].get("name") for l in fwd if l is not None],
            "the two routes forward different request objects: %s" % fwd)
    fwd_local = next(iter(fwd)) if len(fwd) == 1 else None
    # the direct send takes the result of convert_request(forwarded)
    for sb in sends:
        t = B.blocks[sb]["term"]
        org = B.origins(t["args"][1])
        R.check(q.only_from(org, [lambda o: o[0] == "call" and q.ends(o[1], "ProxyServer::convert_request")]) and org,
                "C05.R1", R.key("C05.R1", HNR, "send-arg"), q.where(B, sb),
                "the exempt-route send forwards convert_request(<forwarded request>)", "send argument origins: %s" % sorted(map(str, org)))

    muts = header_mutations(B)
    found = {}
    for bi, m, mo, t in muts:
        names = header_name_const(B, t["args"][1]) if len(t["args"]) > 1 else set()
        req = request_local_of_map(B, mo) if mo else None
        key = R.key("C05.R4", HNR, "mutation-%s" % m)
        on_fwd = req is not None and req == fwd_local
        if not on_fwd:
            R.ok("C05.R4", key, q.where(B, bi), "HeaderMap::%s on another object (not the forwarded request)" % m, nontrivial=False)
            continue
        if m == "insert" and names and names <= {K + "CLAIMS_HEADER", K + "DATE_HEADER"}:
            nm = next(iter(names))
            found.setdefault(nm, []).append((bi, t))
            R.ok("C05.R4", key, q.where(B, bi), "insert(%s) on the forwarded request" % nm.rsplit("::", 1)[-1])
        else:
            R.fail("C05.R4", key, q.where(B, bi),
                   "HeaderMap::%s(%s) on the forwarded request is not one of the proxy-owned inserts" % (m, sorted(names)))
    # headers_mut() results that flow elsewhere than into a HeaderMap method
    for bi, w, r, t in B.calls_named("headers_mut"):
        dest = t["dest"]["l"]
        consumers = set()
        frontier, seen = [dest], {dest}
        while frontier:
            l = frontier.pop()
            for u in B.uses_of(l):
                if u[0] == "assign" and u[2]["rv"]["k"] in ("use", "ref", "cast"):
                    tl = u[2]["lhs"]["l"]
                    if tl not in seen:
                        seen.add(tl)
                        frontier.append(tl)
                elif u[0] == "callarg":
                    consumers.add(q.base_name(u[2] or "?"))
        bad = [c for c in consumers if "HeaderMap" not in c]
        R.check(not bad, "C05.R4", R.key("C05.R4", HNR, "headers_mut-consumer"), q.where(B, bi),
                "headers_mut() result is consumed only by HeaderMap methods %s" % sorted(consumers),
                "headers_mut() result escapes to %s" % bad)

    for nm, label in ((K + "CLAIMS_HEADER", "claims"), (K + "DATE_HEADER", "date")):
        sites = found.get(nm, [])
        if not sites:
            R.fail("C05.R1", "C05.R1:%s:insert-missing:%s" % (HNR, label), "-",
                   "no HeaderMap::insert(%s) on the forwarded request" % nm.rsplit("::", 1)[-1])
            continue
        blocks = [s[0] for s in sites]
        p = B.path([0], sinks, cut_blocks=blocks)
        R.check(p is None, "C05.R1", "C05.R1:%s:insert-dominates:%s" % (HNR, label), q.where(B, blocks[0]),
                "insert(%s) is on every path to a send site / the signing route" % label,
                "a send is reachable without inserting the %s header" % label,
                witness={"path_lines": B.path_lines(p)} if p else None)
        # R2 values
        for bi, t in sites:
            vorg = B.origins(t["args"][2])
            fs = [o for o in vorg if o[0] == "call" and q.ends(o[1], "HeaderValue::from_str")]
            if not fs or len(vorg) != len(fs):
                R.fail("C05.R2", R.key("C05.R2", HNR, "value-%s" % label), q.where(B, bi),
                       "%s header value is not HeaderValue::from_str(..): %s" % (label, sorted(map(str, vorg))))
                continue
            ft = B.blocks[fs[0][2]]["term"]
            if label == "claims":
                fmt = q.format_of(B, ft["args"][0])
                ok = False
                detail = "claims value is not a format string"
                if fmt and len(fmt["args"]) == 2:
                    a0, a1 = fmt["args"]
                    c0 = set()
                    for o in a0["origins"]:
                        if o[0] == "promoted":
                            c0 |= {c[0] for c in q.promoted_consts(B.fn, o[1])}
                        elif o[0] == "const":
                            c0.add(o[1])
                    ok0 = c0 == {K + "CLAIMS_IS_ROOT"}
                    ok1 = all(o[0] == "param" and o[1] == "tcp_connection_context" and o[2][:1] == ("claims",) and o[2][-1] == "runAsElevated"
                              for o in a1["origins"]) and a1["origins"]
                    ok = ok0 and ok1
                    detail = "claims header = format(%r; %s, %s)" % (q.template_text(fmt), sorted(map(str, c0)), sorted(map(str, a1["origins"])))
                R.check(ok, "C05.R2", R.key("C05.R2", HNR, "value-claims"), q.where(B, bi), detail)
            else:
                org = B.origins(ft["args"][0])
                ok = org and all(o[0] == "call" and q.ends(o[1], "misc_helpers::get_date_time_rfc1123_string") for o in org)
                R.check(ok, "C05.R2", R.key("C05.R2", HNR, "value-date"), q.where(B, bi),
                        "date header value = misc_helpers::get_date_time_rfc1123_string()", "date value origins: %s" % sorted(map(str, org)))

    # ---------------------------------------------------------------- HRS
    ssends = BS.calls_named("HttpConnectionContext::send_request")
    sent = {base_local(BS, c[3]["args"][1]) for c in ssends}
    smuts = header_mutations(BS)
    auth_sites = []
    for bi, m, mo, t in smuts:
        names = header_name_const(BS, t["args"][1]) if len(t["args"]) > 1 else set()
        req = request_local_of_map(BS, mo) if mo else None
        key = R.key("C05.R4", HRS, "mutation-%s" % m)
        if req not in sent:
            R.ok("C05.R4", key, q.where(BS, bi), "HeaderMap::%s on another object" % m, nontrivial=False)
            continue
        if m == "insert" and names == {K + "AUTHORIZATION_HEADER"}:
            auth_sites.append((bi, t))
            R.ok("C05.R4", key, q.where(BS, bi), "insert(AUTHORIZATION_HEADER) on the request that is sent")
        else:
            R.fail("C05.R4", key, q.where(BS, bi), "HeaderMap::%s(%s) on the sent request is not the proxy-owned insert" % (m, sorted(names)))
    R.floor("C05.R4", len(found.get(K + "CLAIMS_HEADER", [])) + len(found.get(K + "DATE_HEADER", [])) + len(auth_sites), 3,
            "proxy-owned header inserts on the forwarded request")
    imp, ref, ts = q.outcome_edges(BS, q.from_call("helpers::compute_signature"), "Ok")
    sb = [c[0] for c in ssends]
    if not ts or not auth_sites:
        R.fail("C05.R3", "C05.R3:%s:missing" % HRS, "-", "no compute_signature test / authorization insert in the signing route")
    else:
        ab = [a[0] for a in auth_sites]
        for e in sorted(imp):
            p = BS.path([e[1]], sb, cut_blocks=ab)
            R.check(p is None, "C05.R3", R.key("C05.R3", HRS, "signed-then-inserted"), q.where(BS, e[0]),
                    "from the Ok edge of compute_signature every path to the send passes insert(AUTHORIZATION_HEADER)",
                    "a signed request can be sent without the authorization insert",
                    witness={"path_lines": BS.path_lines(p)} if p else None)
        # per send site (a retry / second send counts): the request object handed to *this* send is one that received the insert
        for c in ssends:
            sl = base_local(BS, c[3]["args"][1])
            mine = [a[0] for a in auth_sites if request_local_of_map(BS, a[1]["args"][0]) == sl]
            okm = bool(mine) and all(BS.path([e[1]], [c[0]], cut_blocks=mine) is None for e in imp)
            R.check(okm, "C05.R3", R.key("C05.R3", HRS, "each-send-carries-the-insert"), q.where(BS, c[0]),
                    "the request given to this send is the object that received insert(AUTHORIZATION_HEADER) on every signed path",
                    "this send forwards a request object (%s) that did not receive the proxy's authorization insert: a client-supplied "
                    "authorization header on it reaches the host" % (BS.locals[sl].get("name") if sl is not None else "?"))
        p = BS.path([0], ab, cut_edges=imp)
        R.check(p is None, "C05.R3", "C05.R3:%s:insert-only-after-signing" % HRS, q.where(BS, ab[0]),
                "insert(AUTHORIZATION_HEADER) is reachable only through the Ok edge of compute_signature")
        # request rebuilt from the client's head => client's own authorization header is replaced, the others kept
        for bi, t in auth_sites:
            vorg = B.origins(t["args"][2]) if False else BS.origins(t["args"][2])
            ok = vorg and all(o[0] == "call" and q.ends(o[1], "HeaderValue::from_str") for o in vorg)
            R.check(ok, "C05.R3", R.key("C05.R3", HRS, "value"), q.where(BS, bi),
                    "authorization value = HeaderValue::from_str(<formatted signature header>)", "origins %s" % sorted(map(str, vorg)))
    # convert_request must not touch headers at all
    cv = R.anchor(CONV, "C05.R4")
    if cv:
        BC = mir.Body(cv, F)
        m2 = header_mutations(BC) + BC.calls_named("headers_mut")
        R.check(not m2, "C05.R4", "C05.R4:%s:no-header-mutation" % CONV, "%s:%s" % (cv["file"], cv["line"]),
                "convert_request performs no header mutation")
    # below the handler the request travels HttpConnectionContext::send_request -> TcpConnectionContext::send_request ->
    # Client::send_request -> hyper: the three proxy-owned headers reach the host exactly as inserted only if nothing on that chain
    # touches the request again (a later remove / insert / rebuild can delete or duplicate them); same inventory as C04.R1 / C14.R1
    from lib import cg
    from rules.c04 import send_chain_untouched
    send_chain_untouched(F, R, cg.get(F), "C05.R4")
    # helper contract: the date helper renders the clock, in the HTTP date format
    from lib import contracts
    dh = R.anchor("proxy_agent_shared::misc_helpers::get_date_time_rfc1123_string", "C05.R2")
    if dh:
        BD = mir.Body(dh, F)
        ok, last = contracts.follow_chain(BD, contracts.RET, ["Iterator::collect", "chars", "OffsetDateTime::format", "OffsetDateTime::now_utc"])
        fmts = set()
        for bi, w, r, t in BD.calls_named("format_description::parse"):
            fmts |= contracts.const_names(BD, t["args"][0])
        want = "'[weekday repr:short], [day] [month repr:short] [year] [hour]:[minute]:[second] GMT'"
        R.check(ok and fmts == {want}, "C05.R2", "C05.R2:%s:contract" % dh["id"], "%s:%s" % (dh["file"], dh["line"]),
                "get_date_time_rfc1123_string() = OffsetDateTime::now_utc().format(<RFC 1123 description>) - the proxy's current time",
                "the date helper changed: %s; format description %s" % (last if not ok else "chain ok", sorted(fmts)))
