"""C01 Complete mediation: guard dominance + upstream-send inventory (DESIGN §5 C01)."""
from lib import cg, mir, q

PS = "azure_proxy_agent::proxy::proxy_server::ProxyServer::"
PC = "azure_proxy_agent::proxy::proxy_connection::"
HNR = PS + "handle_new_http_request"
HRS = PS + "handle_request_with_signature"
HTTP_SEND = PC + "HttpConnectionContext::send_request"
TCP_SEND = PC + "TcpConnectionContext::send_request"
CLIENT_SEND = PC + "Client::send_request"
TCP_NEW = PC + "TcpConnectionContext::new"
AUTHZ = "azure_proxy_agent::proxy::proxy_authorizer::"
ARES = AUTHZ + "AuthorizeResult"


def is_net_primitive(c):
    b = q.base_name(c)
    return (("SendRequest" in b and b.endswith("::send_request")) or b.endswith("TcpStream::connect")
            or b.endswith("http1::handshake") or b.endswith("hyper_client::send_request")
            or b.endswith("hyper_client::build_http_sender"))


def send_blocks(B):
    return [c[0] for c in B.calls_named("HttpConnectionContext::send_request")]


def status_consts_on_paths(B, start_edge, R, rule, label, expected_status, forbidden_blocks):
    """From a refusing edge: nothing in forbidden_blocks reachable; every path to Return passes
    empty_response(<expected_status>)."""
    src, tgt = start_edge
    reach = B.reach([tgt])
    hit = reach & set(forbidden_blocks)
    key = "%s:%s:refuse-%s" % (rule, B.id, label)
    wh = q.where(B, src)
    if hit:
        p = B.path([tgt], hit)
        R.fail(rule, key + ":send-reachable", wh,
               "an upstream send is reachable from the refusing edge of guard '%s'" % label,
               witness={"path_lines": B.path_lines(p)})
        return
    good, bad = [], []
    for bi, w, r, t in B.calls_named("ProxyServer::empty_response"):
        if bi not in reach:
            continue
        cs = q.const_args(B, t, 0)
        if cs == {expected_status}:
            good.append(bi)
        else:
            bad.append((bi, cs))
    rets = B.return_blocks()
    p = B.path([tgt], rets, cut_blocks=good)
    if p is not None:
        R.fail(rule, key + ":status", wh,
               "refusing edge of guard '%s' can return without empty_response(%s); statuses seen: %s"
               % (label, expected_status.rsplit("::", 1)[-1], sorted(str(b[1]) for b in bad)),
               witness={"path_lines": B.path_lines(p)})
    else:
        R.ok(rule, key, wh, "refusal of '%s': no send reachable; every path to return passes empty_response(%s) "
             "[%d site(s)]" % (label, expected_status.rsplit("::", 1)[-1], len(good)),
             witness={"edge": [src, tgt]})


def run(F, R, tier):
    R.explanation = (
        "Static all-paths analysis of the request handler's pre-lowering MIR: (R1) call-graph inventory of every "
        "function from which an upstream write is reachable; (R2) each of the five guards edge-dominates every "
        "upstream send site and the call of the signing route; (R3) from each refusing edge no send is reachable "
        "and every path to return passes empty_response(<documented status>); (R4) the arguments of "
        "get_access_control_rules/authorize derive from the connection context, not from the request; (R5) on "
        "the Err edge of the audit lookup the context gets claims=None, destination_ip=None and no upstream "
        "connection is built. Decided for all requests/identities/policies at once (every CFG path).")
    R.rule("C01.R1", "upstream-send inventory: only HNR (exempt branch) and HRS reach an upstream write")
    R.rule("C01.R2", "each guard's passing edges dominate every send site / the HRS call")
    R.rule("C01.R3", "refusing edges reach no send and always answer with the documented status")
    R.rule("C01.R4", "authorization inputs derive from the connection context")
    R.rule("C01.R5", "no audit record => no identity, no destination, no upstream connection")
    R.not_decided += [
        "that hyper routes every request on the socket through this service function",
        "that the kernel attribution is right (C06) and that authorize() is right (C02/C03)",
        "'not one byte' at TCP level: on an attributed connection a TCP handshake to the recorded destination "
        "happens at accept time, before authorization (no payload)",
    ]
    R.assumptions.append("tokio/hyper deliver a request only via the service_fn closure; HeaderMap/StatusCode are the http crate's")
    G = cg.get(F)

    hnr = R.anchor(HNR, "C01.R2")
    hrs = R.anchor(HRS, "C01.R2")
    if not hnr or not hrs:
        return
    B = mir.Body(hnr, F)
    BS = mir.Body(hrs, F)

    # ---------------------------------------------------------------- R1 inventory
    def body(fid):
        return fid + "::{closure#0}"
    expect_callers = {
        body(CLIENT_SEND): {CLIENT_SEND},
        CLIENT_SEND: {body(TCP_SEND)},
        body(TCP_SEND): {TCP_SEND},
        TCP_SEND: {body(HTTP_SEND)},
        body(HTTP_SEND): {HTTP_SEND},
        HTTP_SEND: {body(HNR), body(HRS)},
    }
    for callee, exp in expect_callers.items():
        if callee not in F.fns:
            R.fail("C01.R1", "C01.R1:anchor-missing:%s" % callee, "-", "anchor-missing=%s" % callee)
            continue
        got = G.callers(callee)
        key = "C01.R1:callers:%s" % callee
        extra = got - exp
        R.check(not extra and got, "C01.R1", key, "%s:%s" % (F.fns[callee]["file"], F.fns[callee]["line"]),
                "callers of %s are exactly %s" % (callee.split("proxy::")[-1], sorted(x.split("proxy::")[-1] for x in got)),
                "unexpected caller(s) of %s: %s" % (callee, sorted(extra)))
    # the raw hyper send is used on the proxy path only inside Client::send_request
    stop = {HTTP_SEND, body(HTTP_SEND)}
    reach = G.reachable([body(HNR)], stop=stop)
    prim = sorted(x for x in reach if is_net_primitive(x))
    R.check(not prim, "C01.R1", "C01.R1:%s:other-network-primitive" % HNR, "%s:%s" % (hnr["file"], hnr["line"]),
            "no network-send primitive is reachable from the request handler except through "
            "HttpConnectionContext::send_request (%d functions reachable)" % len(reach),
            "network primitive(s) reachable from the handler bypassing HttpConnectionContext::send_request: %s" % prim,
            witness={"chain": G.reaches(body(HNR), is_net_primitive, stop=stop)} if prim else None)
    # who else can open upstream connections for the proxy path
    bhs = "azure_proxy_agent::common::hyper_client::build_http_sender"
    got = {c for c in G.callers(bhs)}
    allowed = {body(TCP_NEW), body("azure_proxy_agent::common::hyper_client::send_request")}
    R.check(got <= allowed and body(TCP_NEW) in got, "C01.R1", "C01.R1:callers:build_http_sender", "-",
            "build_http_sender is called only at accept time (TcpConnectionContext::new) and by the agent's own host client",
            "unexpected callers of build_http_sender: %s" % sorted(got - allowed))

    # ---------------------------------------------------------------- R2/R3 guards in HNR
    sends = send_blocks(B)
    hrs_calls = [c[0] for c in B.calls_named("ProxyServer::handle_request_with_signature")]
    sinks = set(sends) | set(hrs_calls)
    R.floor("C01.R2", len(sends), 1, "direct send sites in HNR")
    R.floor("C01.R2", len(hrs_calls), 1, "calls of the signing route in HNR")
    for sb in list(sends) + list(hrs_calls):
        if q.immediate_await(B, sb) is None:
            R.fail("C01.R2", "C01.R2:%s:not-awaited-in-place" % HNR, q.where(B, sb),
                   "a send future is not awaited in place: call site no longer equals execution point")
    SC = "http::StatusCode::"
    guards = []

    # (a) traversal
    tests = q.bool_call_edges(B, ["contains_traversal_characters"])
    if not tests:
        R.fail("C01.R2", "C01.R2:%s:guard-missing:traversal" % HNR, "-", "no branch on contains_traversal_characters()")
    for sb, tr, fa, cb, args in tests:
        guards.append(("traversal", {fa}, {tr}, SC + "NOT_FOUND"))

    # (b) destination_ip is Some  (c) claims is Some
    for label, field in (("destination", "destination_ip"), ("claims", "claims")):
        imp, ref, ts = q.outcome_edges(B, q.from_param_field("tcp_connection_context", field), "Some")
        # only tests of the Option itself (path exactly the field), not of values derived from its payload
        if not ts:
            R.fail("C01.R2", "C01.R2:%s:guard-missing:%s" % (HNR, label), "-",
                   "no test of tcp_connection_context.%s" % field)
            continue
        guards.append((label, imp, ref, SC + "MISDIRECTED_REQUEST"))

    # (d) rules Ok
    imp, ref, ts = q.outcome_edges(B, q.from_call("proxy_authorizer::get_access_control_rules"), "Ok")
    if not ts:
        R.fail("C01.R2", "C01.R2:%s:guard-missing:rules" % HNR, "-", "no test of get_access_control_rules()")
    else:
        guards.append(("rules", imp, ref, SC + "INTERNAL_SERVER_ERROR"))

    # (e) authorize() result is not Forbidden
    auth_calls = B.calls_named("proxy_authorizer::authorize")
    eq, ne, ts = q.enum_value_edges(B, F, q.from_call("proxy_authorizer::authorize"), ARES, "Forbidden")
    if not ts or not auth_calls:
        R.fail("C01.R2", "C01.R2:%s:guard-missing:authorize" % HNR, "-", "no test of the authorize() result against Forbidden")
    else:
        guards.append(("forbidden", ne, eq, SC + "FORBIDDEN"))
        ab = [c[0] for c in auth_calls]
        # every path entry -> sink passes the authorize call
        p = B.path([0], sinks, cut_blocks=ab)
        R.check(p is None, "C01.R2", "C01.R2:%s:authorize-dominates" % HNR, q.where(B, ab[0]),
                "the call of proxy_authorizer::authorize is on every path to a send site",
                "a send site is reachable without calling proxy_authorizer::authorize",
                witness={"path_lines": B.path_lines(p)} if p else None)

    for label, passing, refusing, status in guards:
        p = B.path([0], sinks, cut_edges=passing)
        key = "C01.R2:%s:guard:%s" % (HNR, label)
        wh = q.where(B, next(iter(passing))[0]) if passing else "-"
        R.check(p is None and passing, "C01.R2", key, wh,
                "guard '%s': its passing edge(s) %s dominate all %d sink(s)" % (label, sorted(passing), len(sinks)),
                "a send site / the signing route is reachable without passing guard '%s'" % label,
                witness={"path_lines": B.path_lines(p)} if p else None)
        for e in sorted(refusing):
            status_consts_on_paths(B, e, R, "C01.R3", label, status, sinks)
    R.tables["C01.guards"] = {g[0]: g[3].rsplit("::", 1)[-1] for g in guards}

    # guarded values are not reassigned in the handler
    for fld in ("destination_ip", "claims", "destination_port"):
        writes = []
        for bi, b in enumerate(B.blocks):
            for s in b["stmts"]:
                if s["k"] == "assign" and s["lhs"]["p"] and fld in mir.field_names(s["lhs"]):
                    if any(o[0] == "param" and o[1] == "tcp_connection_context" for o in B.origins({"l": s["lhs"]["l"], "p": []})):
                        writes.append(bi)
        R.check(not writes, "C01.R2", "C01.R2:%s:no-reassign:%s" % (HNR, fld), "-",
                "tcp_connection_context.%s is never written in the handler" % fld)

    # HRS: send dominated by Ok of body.collect()
    ssends = send_blocks(BS)
    R.floor("C01.R2", len(ssends), 1, "send sites in HRS")
    imp, ref, ts = q.outcome_edges(BS, q.from_call("collect"), "Ok")
    if not ts:
        R.fail("C01.R2", "C01.R2:%s:guard-missing:collect" % HRS, "-", "no test of body.collect() in the signing route")
    else:
        p = BS.path([0], ssends, cut_edges=imp)
        R.check(p is None, "C01.R2", "C01.R2:%s:guard:collect" % HRS, q.where(BS, next(iter(imp))[0]),
                "the Ok edge of body.collect() dominates the send in the signing route",
                witness={"path_lines": BS.path_lines(p)} if p else None)
        for e in sorted(ref):
            status_consts_on_paths(BS, e, R, "C01.R3", "collect", SC + "BAD_REQUEST", ssends)

    # ---------------------------------------------------------------- R4 provenance of the decision inputs
    ctx = [lambda o: o[0] == "param" and o[1] == "tcp_connection_context"]
    for callee, idxs in (("proxy_authorizer::get_access_control_rules", (0, 1)), ("proxy_authorizer::authorize", (0, 1, 4))):
        for bi, w, r, t in B.calls_named(callee):
            for i in idxs:
                org = B.origins(t["args"][i])
                want = {0: "destination_ip", 1: "destination_port", 4: "claims"}[i]
                good = any(o[0] == "param" and o[1] == "tcp_connection_context" and o[2][:1] == (want,) for o in org)
                pure = q.only_from(org, ctx)
                R.check(good and pure, "C01.R4", R.key("C01.R4", HNR, "%s-arg%d" % (callee.split("::")[-1], i)), q.where(B, bi),
                        "argument %d of %s derives only from tcp_connection_context.%s" % (i, callee, want),
                        "argument %d of %s has origins %s" % (i, callee, sorted(map(str, org))))
    for bi, w, r, t in B.calls_named("proxy_authorizer::authorize"):
        org = B.origins(t["args"][3])
        good = any(o[0] == "call" and q.ends(o[1], "uri") for o in org) and \
            q.only_from(org, [lambda o: o[0] == "call" and q.ends(o[1], "uri")])
        R.check(good, "C01.R4", R.key("C01.R4", HNR, "authorize-arg3"), q.where(B, bi),
                "the URL given to authorize() is request.uri()", "URL argument origins: %s" % sorted(map(str, org)))
        org = B.origins(t["args"][5])
        R.check(q.only_from(org, [lambda o: o[0] == "call" and q.ends(o[1], "get_access_control_rules")]) and org,
                "C01.R4", R.key("C01.R4", HNR, "authorize-arg5"), q.where(B, bi),
                "the rules given to authorize() are the Ok payload of get_access_control_rules()",
                "rules argument origins: %s" % sorted(map(str, org)))

    # ---------------------------------------------------------------- R5 no record => no identity
    tn = R.anchor(TCP_NEW, "C01.R5")
    ga = R.anchor(PC + "TcpConnectionContext::get_audit_entry", "C01.R5")
    if tn and ga:
        BN = mir.Body(tn, F)
        imp, ref, ts = q.outcome_edges(BN, q.from_call("TcpConnectionContext::get_audit_entry"), "Err")
        if not ts:
            R.fail("C01.R5", "C01.R5:%s:test-missing" % TCP_NEW, "-", "no test of get_audit_entry() result")
        else:
            bh = [c[0] for c in BN.calls_named("hyper_client::build_http_sender")]
            cl = [c[0] for c in BN.calls_named("Claims::from_audit_entry")]
            for e in sorted(imp):
                r = BN.reach([e[1]])
                R.check(not (r & set(bh)), "C01.R5", R.key("C01.R5", TCP_NEW, "err-no-upstream-connection"), q.where(BN, e[0]),
                        "on the Err edge of the audit lookup build_http_sender is not reachable")
                R.check(not (r & set(cl)), "C01.R5", R.key("C01.R5", TCP_NEW, "err-no-claims"), q.where(BN, e[0]),
                        "on the Err edge of the audit lookup no Claims are built")
            # build_http_sender / from_audit_entry are dominated by the Ok edge
            p = BN.path([0], bh + cl, cut_edges=ref)
            R.check(p is None and bh and cl, "C01.R5", "C01.R5:%s:ok-dominates" % TCP_NEW, "-",
                    "Claims::from_audit_entry and build_http_sender are dominated by the Ok edge of get_audit_entry()",
                    witness={"path_lines": BN.path_lines(p)} if p else None)
            # the tuple built on the Err edge carries None, None
            errblocks = set()
            for e in imp:
                errblocks |= BN.reach([e[1]])
            okblocks = set()
            for e in ref:
                okblocks |= BN.reach([e[1]])
            only_err = errblocks - okblocks
            found = False
            for bi in sorted(only_err):
                for s in BN.blocks[bi]["stmts"]:
                    if s["k"] == "assign" and s["rv"]["k"] == "agg" and s["rv"]["ak"] == "tuple" and len(s["rv"]["ops"]) == 4:
                        ops = s["rv"]["ops"]
                        vs = [q.operand_variant(BN, ops[0]), q.operand_variant(BN, ops[1])]
                        found = True
                        R.check(all(v and v[1] == "None" for v in vs), "C01.R5", "C01.R5:%s:err-tuple-none" % TCP_NEW,
                                q.where(BN, bi), "on the Err edge (claims, destination_ip) = (None, None)",
                                "on the Err edge the identity tuple is %s" % vs)
            if not found:
                R.fail("C01.R5", "C01.R5:%s:err-tuple-missing" % TCP_NEW, "-",
                       "could not find the (claims, destination_ip, port, sender) tuple on the Err edge")
        # get_audit_entry returns Ok only on the Ok edge of lookup_audit
        BG = mir.Body(ga, F)
        imp, ref, ts = q.outcome_edges(BG, q.from_call("redirector::lookup_audit"), "Ok")
        okret = []
        for bi, b in enumerate(BG.blocks):
            for s in b["stmts"]:
                if s["k"] == "assign" and s["lhs"]["l"] == 0 and s["rv"]["k"] == "agg" and s["rv"].get("variant") == "Ok":
                    okret.append(bi)
        p = BG.path([0], okret, cut_edges=imp)
        R.check(ts and okret and p is None, "C01.R5", "C01.R5:%s:ok-only-on-lookup-ok" % ga["id"], "-",
                "get_audit_entry builds Ok(..) only under the Ok edge of redirector::lookup_audit",
                witness={"path_lines": BG.path_lines(p)} if p else None)

    # ---------------------------------------------------------------- R7 helper contract: the traversal test
    from lib import contracts
    R.rule("C01.R7", "contains_traversal_characters() is path(url).contains(\"..\")")
    contracts.result_is_call_on(F, R, "C01.R7", "azure_proxy_agent::proxy::proxy_connection::HttpConnectionContext::contains_traversal_characters",
                                "contains", ("self.url", ["Uri::path"]), "'..'",
                                "the traversal guard is str::contains(Uri::path(self.url), \"..\") - any '..' anywhere in the path")

    # helper contract: a failed policy lookup stays a failure (the handler's Err -> 500 arm depends on it)
    gar = F.body_of("azure_proxy_agent::proxy::proxy_authorizer::get_access_control_rules")
    if not gar:
        R.fail("C01.R7", "C01.R7:anchor-missing:get_access_control_rules", "-", "anchor-missing=proxy_authorizer::get_access_control_rules")
    else:
        Bg = mir.Body(gar, F)
        R.touched(gar["id"])
        bad = []
        for o in Bg.origins(contracts.RET):
            if o[0] == "call" and q.ends(o[1], "get_wireserver_rules", "get_imds_rules", "get_hostga_rules") and not o[3]:
                continue
            if o[0] == "agg" and str(o[1]).endswith("Result::Ok"):
                # Ok(None) for destinations without rules
                pay = set()
                for s in Bg.blocks[o[2]]["stmts"]:
                    if s["k"] == "assign" and s["rv"]["k"] == "agg" and s["rv"].get("variant") == "Ok":
                        pay |= Bg.origins(s["rv"]["ops"][0])
                if pay and all(x[0] == "agg" and str(x[1]).endswith("Option::None") for x in pay):
                    continue
                bad.append("Ok(%s)" % sorted(map(str, pay)))
                continue
            bad.append(str(o))
        R.check(not bad, "C01.R7", "C01.R7:%s:lookup-result-passed-through" % gar["id"], "%s:%s" % (gar["file"], gar["line"]),
                "get_access_control_rules returns the key keeper's Result unchanged (or Ok(None) for other destinations): a failed lookup is an Err",
                "get_access_control_rules can turn the lookup's result into something else: %s - a failed policy lookup would no longer "
                "reach the handler's 500 arm" % bad)

    # ... and the three getters behind it report a dead / unreachable key keeper task as an error: their result is the channel
    # round trip itself (send error or the receiver's result), never a locally built default
    for nm in ("get_wireserver_rules", "get_imds_rules", "get_hostga_rules"):
        gfn = F.body_of("azure_proxy_agent::shared_state::key_keeper_wrapper::KeyKeeperSharedState::" + nm)
        if not gfn:
            R.fail("C01.R7", "C01.R7:anchor-missing:%s" % nm, "-", "anchor-missing=KeyKeeperSharedState::%s" % nm)
            continue
        Bw = mir.Body(gfn, F)
        R.touched(gfn["id"])
        org = Bw.origins(contracts.RET)
        okw = bool(org) and all(o[0] == "call" and (q.ends(o[1], "mpsc::Sender::send") or (q.ends(o[1], "oneshot::channel") and tuple(o[3]) == ("1",)))
                                for o in org)
        contracts.reliable_round_trip(F, R, "C01.R7", "azure_proxy_agent::shared_state::key_keeper_wrapper::KeyKeeperSharedState::" + nm,
                                      "KeyKeeperSharedState::" + nm)
        R.check(okw, "C01.R7", "C01.R7:%s:channel-failure-is-an-error" % gfn["id"], "%s:%s" % (gfn["file"], gfn["line"]),
                "%s returns the send error or what the oneshot receiver yields - no default in place of a failed round trip" % nm,
                "%s result origins: %s" % (nm, sorted(map(str, org))))

    if tier == "thorough":
        # R6: the /provision short-circuit reaches no send site
        pv = [c[0] for c in B.calls_named("ProxyServer::handle_provision_state_check_request")]
        for pb in pv:
            rb = B.reach([pb])
            R.check(not (rb & sinks), "C01.R6", R.key("C01.R6", HNR, "provision-no-send"), q.where(B, pb),
                    "the /provision short-circuit returns without reaching a send site")
        R.rule("C01.R6", "the /provision short-circuit reaches no send site")
