"""C13 No input can crash a request handler or a background task (DESIGN §5 C13) – taint-armed panic-site inventory."""
import json
import os
import re

from lib import build, cg, mir, q, taint
from rules.c07 import owner_types

AP = "azure_proxy_agent::"
CLAIMS = AP + "proxy::Claims"
CLAIMS_TEXT_FIELDS = ("userName", "userGroups", "processName", "processFullPath", "processCmdLine")
SVC = AP + "proxy::proxy_server::ProxyServer::handle_new_tcp_connection::{closure#0}::{closure#0}::{closure#0}"
TABLE = os.path.join(build.VERIF, "rules", "tables", "c13_sites.json")

# external producers of externally-controlled data: (regex on resolved callee, what)
SOURCE_CALLS = [
    (re.compile(r"^serde_json::(from_str|from_slice|from_reader|from_value)$"), "deserialised document (host reply / file)"),
    (re.compile(r"^serde_xml_rs::from_str$"), "deserialised XML (host reply)"),
    (re.compile(r"SendRequest::send_request$"), "upstream/host HTTP response"),
    (re.compile(r"^http_body_util::BodyExt::(frame|collect)$"), "HTTP body frames"),
    (re.compile(r"^hyper::body::Frame::(data_ref|into_data|data_mut)$"), "HTTP body frame data"),
    (re.compile(r"^std::fs::(read_to_string|read)$"), "file contents read back"),
    (re.compile(r"^<std::fs::File as std::io::Read>::read(_to_string|_to_end)?$"), "file contents read back"),
]

# the clock: text rendered from it has a value-dependent length ([subsecond] prints as many digits as needed), so slicing such text at a
# constant byte offset is a panic that no test sees; label CLOCK arms byte-offset sinks only
CLOCK_CALLS = [(re.compile(r"^time::OffsetDateTime::now_(utc|local)$"), "the clock (OffsetDateTime::now_utc)"),
               (re.compile(r"^std::time::SystemTime::now$"), "the clock (SystemTime::now)")]

UNWRAPS = ("Option::unwrap", "Option::expect", "Result::unwrap", "Result::expect", "Result::unwrap_err", "Result::expect_err")
# std / crate APIs documented to panic on bad arguments: name -> argument indexes whose value can trigger the panic
PANICKY = {
    "String::truncate": (0, 1), "String::insert": (0, 1), "String::insert_str": (0, 1), "String::remove": (0, 1),
    "String::split_off": (0, 1), "String::drain": (0, 1), "String::replace_range": (0, 1), "str::split_at": (0, 1),
    "core::str::split_at": (0, 1), "Vec::remove": (0, 1), "Vec::insert": (0, 1), "Vec::swap_remove": (0, 1), "Vec::split_off": (0, 1),
    "Vec::drain": (0, 1), "core::slice::copy_from_slice": (0, 1), "core::slice::split_at": (0, 1), "core::slice::chunks": (1,),
    "core::slice::chunks_exact": (1,), "core::slice::windows": (1,), "core::slice::swap": (1, 2),
    "HeaderName::from_static": (0,), "HeaderValue::from_static": (0,), "RefCell::borrow": (0,), "RefCell::borrow_mut": (0,),
    "Duration::from_secs_f64": (0,), "Duration::from_secs_f32": (0,), "Instant::duration_since": (),
    "char::from_digit": (1,), "u32::pow": (), "Iterator::step_by": (1,),
}


def load_table():
    if os.path.exists(TABLE):
        return json.load(open(TABLE))
    return {"safe": {}, "env_only_explicit_panics": {}}


def run(F, R, tier):
    R.explanation = (
        "Inventory of every panic-capable construct (explicit panic!/assert!/unreachable!, unwrap/expect, Index on "
        "str/String/slices/Vec/maps, MIR bounds/division asserts, a curated table of std APIs documented to panic) in all non-test code of "
        "the two agent crates reachable from the service entry, armed by an interprocedural external-data taint (summary-based access-path "
        "taint: the request, the caller's names/paths/command line, every host reply and everything deserialised from it or read back from "
        "files, and transitively the message parameters of the logging/event/status APIs they are formatted into). Every armed site must be "
        "in the reviewed SAFE table or be a known finding; byte-offset string truncation is armed regardless of a preceding length test.")
    R.rule("C13.R1", "every reachable panic-capable site whose operand is external-data tainted is reviewed SAFE or a known finding")
    R.rule("C13.R2", "byte-offset truncation/slicing of str/String derived from external data (no char-boundary idiom)")
    R.rule("C13.R3", "explicit panic! sites written by hand are the reviewed environment-only ones")
    R.rule("C13.R4", "unsigned subtraction feeding a sleep/timeout must not be able to wrap (liveness)")
    R.not_decided += ["panics inside third-party crates on odd input (hyper, serde, aya)", "stack or memory exhaustion",
                      "liveness beyond 'the task does not unwind' (except R4)",
                      "integer-overflow asserts other than R4: present only in debug builds (release wraps)"]
    R.assumptions.append("external callees propagate taint from any argument to their result; comparisons/len/is_* are clean")
    G = cg.get(F)
    tbl = load_table()

    roots = [AP + "main"]
    # closures that initialise statics (Lazy::new(|| ..)) run on first use from anywhere: roots as well
    for fid, fn in F.fns.items():
        if fn["crate"] in ("azure_proxy_agent", "proxy_agent_shared") and fn["kind"] == "Static":
            roots.append(fid)
    reach = G.reachable(roots)
    reach_ws = {f for f in reach if f in F.fns and F.fns[f]["crate"] in ("azure_proxy_agent", "proxy_agent_shared")}
    R.tables["C13.reachable_functions"] = len(reach_ws)

    # ------------------------------------------------------------------ taint sources
    claim_seeds = {}
    call_seeds = {}
    clock_seeds = {}
    for fid in reach_ws:
        fn = F.fns[fid]
        B = None
        for bi, blk in enumerate(fn["blocks"]):
            if blk["cleanup"]:
                continue
            for s in blk["stmts"]:
                if s["k"] != "assign":
                    continue
                for pl in mir.places_in_rvalue(s["rv"]):
                    if not pl["p"] or not any(isinstance(e, dict) and e.get("n") in CLAIMS_TEXT_FIELDS for e in pl["p"]):
                        continue
                    B = B or mir.Body(fn, F)
                    for owner, fld in owner_types(B, pl):
                        if fld in CLAIMS_TEXT_FIELDS and owner.split("<")[0].strip() == CLAIMS:
                            claim_seeds.setdefault(fid, []).append((s["lhs"]["l"], taint.place_path(s["lhs"]), "caller %s" % fld))
            t = blk["term"]
            if t["k"] == "call" and "fn" in t["f"]:
                c = q.base_name(t["f"].get("resolved") or t["f"]["fn"])
                for rx, what in SOURCE_CALLS:
                    if rx.search(c):
                        call_seeds.setdefault(fid, []).append((t["dest"]["l"], taint.place_path(t["dest"]), what))
                for rx, what in CLOCK_CALLS:
                    if rx.search(c):
                        clock_seeds.setdefault(fid, []).append((t["dest"]["l"], taint.place_path(t["dest"]), what))

    def seed_hook(E, B):
        for (l, p, what) in claim_seeds.get(B.id, ()):
            E.add(B.id, l, p, "EXT", (what, None, B.fn["line"]))
        for (l, p, what) in call_seeds.get(B.id, ()):
            E.add(B.id, l, p, "EXT", (what, None, B.fn["line"]))
        for (l, p, what) in clock_seeds.get(B.id, ()):
            E.add(B.id, l, p, "CLOCK", (what, None, B.fn["line"]))
        if B.id == SVC or B.id == SVC + "::{closure#0}":
            E.add(B.id, 2, (), "EXT", ("client HTTP request", None, B.fn["line"]))

    # ------------------------------------------------------------------ sinks
    def sink_fn(caller, callee, term):
        b = q.base_name(callee)
        if any(q.ends(b, u) for u in UNWRAPS):
            return ("P2-unwrap", (0,), True)
        if " as std::ops::Index" in callee or " as core::ops::Index" in callee or "std::ops::IndexMut<" in callee or "std::ops::Index<" in callee:
            return ("P3-index", (0, 1), True)
        for name, idxs in PANICKY.items():
            if q.ends(b, name):
                return ("P5-" + name.rsplit("::", 1)[-1], idxs or None, True)
        return None

    def term_sinks(fid, B, bi, t):
        if t["k"] != "assert":
            return []
        m = t["msg"]
        if m == "BoundsCheck":
            return [("P4-bounds", "index out of bounds", t["ops"])]
        if m in ("DivisionByZero", "RemainderByZero"):
            return [("P4-" + m, m, t["ops"][:1])]
        return []

    E = taint.Engine(F, G, sink_fn=sink_fn)
    E.seed_hooks.append(seed_hook)
    E.term_sinks = term_sinks
    E.model_channels = True
    n = E.run()
    R.engine = E
    nabs = sum(1 for f in E.facts.values() for v in f.values() for (_p, l) in v if l == "EXT")
    tainted_fns = sorted(f for f, v in E.facts.items() if any(l == "EXT" for s in v.values() for (_p, l) in s))
    R.touched(*tainted_fns)
    R.tables["C13.taint"] = {"functions_processed": n, "ext_facts": nabs, "functions_with_ext_data": len(tainted_fns),
                             "claim_field_reads": sum(len(v) for v in claim_seeds.values()),
                             "source_calls": sum(len(v) for v in call_seeds.values())}
    R.check(nabs > 200 and (AP + "proxy::proxy_server::ProxyServer::handle_new_http_request::{closure#0}") in tainted_fns,
            "C13.R1", "C13.R1:engine-sanity", "-",
            "external-data taint reached the request handler (%d EXT facts in %d functions; %d source calls, %d claim-field reads)"
            % (nabs, len(tainted_fns), sum(len(v) for v in call_seeds.values()), sum(len(v) for v in claim_seeds.values())),
            "external-data taint did not reach the request handler: the analysis is blind")

    # ------------------------------------------------------------------ inventory (all sites, armed or not)
    inventory = {"P1": 0, "P2": 0, "P3": 0, "P4": 0, "P5": 0, "overflow-debug-only": 0}
    ordinal = {}
    site_key = {}

    def key_of(fid, kind, sink, line):
        base = (fid, kind, sink)
        lst = ordinal.setdefault(base, [])
        if line not in lst:
            lst.append(line)
            lst.sort()
        return base

    explicit = []
    for fid in sorted(reach_ws):
        fn = F.fns[fid]
        for bi, blk in enumerate(fn["blocks"]):
            if blk["cleanup"]:
                continue
            t = blk["term"]
            if t["k"] == "call" and "fn" in t["f"]:
                c = q.base_name(t["f"].get("resolved") or t["f"]["fn"])
                if c.startswith("core::panicking::") or c.startswith("std::rt::begin_panic") or c.endswith("::assert_failed"):
                    chain = " ".join(t.get("exp_chain") or [])
                    if "tokio::select" in chain or "Macro(Derive" in chain or "Macro(Attr" in chain:
                        continue  # generated `unreachable!`/"all branches disabled" arms of select!, derive internals
                    inventory["P1"] += 1
                    explicit.append((fid, t["line"], fn["file"], chain))
                elif sink_fn(fid, t["f"].get("resolved") or t["f"]["fn"], t):
                    k = sink_fn(fid, t["f"].get("resolved") or t["f"]["fn"], t)[0]
                    inventory[k[:2]] += 1
            elif t["k"] == "assert":
                if t["msg"].startswith("Overflow"):
                    inventory["overflow-debug-only"] += 1
                elif term_sinks(fid, None, bi, t):
                    inventory["P4"] += 1
    R.tables["C13.inventory"] = inventory

    # ------------------------------------------------------------------ R1/R2 armed sites
    safe = tbl.get("safe", {})
    armed = {}
    for key, f in E.findings.items():
        if f["label"] == "CLOCK":
            if not is_byte_offset_site(f):
                continue
        elif f["label"] != "EXT":
            continue
        if f["fn"] not in reach_ws:
            continue
        owner = f["fn"]
        ikey = "%s:%s:%s" % (owner, f["kind"], f["sink"].rsplit("::", 1)[-1] if "Index" not in f["sink"] else index_kind(f["sink"]))
        a = armed.setdefault(ikey, {"fn": owner, "where": f["where"], "sites": set(), "trace": f["trace"], "kind": f["kind"], "sink": f["sink"], "entries": set()})
        a["sites"] |= f["sites"]
        a["entries"].add(f.get("entry", "?"))
    used_safe = set()
    for ikey in sorted(armed):
        a = armed[ikey]
        rule = "C13.R2" if is_byte_offset_site(a) else "C13.R1"
        full = "%s:%s" % (rule, ikey)
        idiom = char_boundary_idiom(F, a, a["fn"]) if rule == "C13.R2" else None
        if idiom:
            R.ok(rule, full, a["where"], "armed byte-offset site uses an accepted char-boundary idiom: %s" % idiom)
        elif ikey in safe:
            used_safe.add(ikey)
            R.ok(rule, full, a["where"], "armed (external data reaches %s %s via %s) – reviewed SAFE: %s" % (
                a["kind"], a["sink"].rsplit("::", 1)[-1], sorted(a["entries"]), safe[ikey]), witness={"trace": a["trace"][:8]})
        else:
            R.fail(rule, full, a["where"], "external data reaches panic-capable %s `%s` (line(s) %s; data arrives via %s)" % (
                a["kind"], a["sink"], sorted(a["sites"]), sorted(a["entries"])), witness={"trace": a["trace"]})
    stale = sorted(set(safe) - used_safe)
    R.tables["C13.safe_entries_not_armed_today"] = stale

    # ------------------------------------------------------------------ R3 explicit panics
    envp = tbl.get("env_only_explicit_panics", {})
    for fid, line, file, chain in explicit:
        owner = fid.split("::{closure")[0]
        R.check(owner in envp, "C13.R3", "C13.R3:explicit-panic:%s" % owner, "%s:%s" % (file, line),
                "hand-written panic – reviewed environment-only: %s" % envp.get(owner),
                "hand-written panic!/assert!/unreachable! reachable from the service tasks; not in the reviewed environment-only table")

    # helper contract behind the accepted idiom "offset = len() of what truncate_at_char_boundary returned": the helper returns a
    # borrowed PREFIX of its argument (the argument itself or &s[..end]); anything else (an owned string with a marker appended, a
    # suffix, another text) makes that len() a meaningless offset for the original text
    for fid_, fn_ in F.fns.items():
        if fn_["crate"] not in ("azure_proxy_agent", "proxy_agent_shared") or fn_["kind"] not in ("Fn", "AssocFn"):
            continue
        if fid_.rsplit("::", 1)[-1] not in BOUNDARY_FNS:
            continue
        Bh = mir.Body(fn_, F)
        R.touched(fid_)
        rty = str(Bh.locals[0].get("ty", ""))
        okh = rty == "&str"
        det = "returns %s" % rty
        for o in Bh.origins({"k": "copy", "p": {"l": 0, "p": []}}):
            if o[0] == "param" and not o[2] and o[1] == (Bh.locals[1].get("name") or 1):
                continue
            if o[0] == "call" and "Index" in o[1] and o[1].endswith("::index"):
                tt = Bh.blocks[o[2]]["term"]
                recv = Bh.origins(tt["args"][0])
                rng = Bh.origins(tt["args"][1])
                if recv and all(x[0] == "param" and not x[2] for x in recv) and rng and all(x[0] == "agg" and str(x[1]).endswith("RangeTo") for x in rng):
                    continue
            okh = False
            det += "; result can be %s" % str(o)
        R.check(okh, "C13.R2", "C13.R2:%s:prefix-contract" % fid_, "%s:%s" % (fn_["file"], fn_["line"]),
                "%s returns a borrowed prefix of its argument (the idiom `truncate(helper(..).len())` relies on it)" % fid_.rsplit("::", 1)[-1],
                "%s no longer returns a borrowed prefix of its argument (%s): callers that use the length of its result as a cut offset of the "
                "original text cut inside a character" % (fid_.rsplit("::", 1)[-1], det))

    # ------------------------------------------------------------------ R5 "keep publishing status": not hostage to the host's replies
    from rules.c16 import bookkeeping_independent_of_poll
    R.rule("C13.R5", "status tasks start and the provisioning deadline fires whatever the host returns")
    bookkeeping_independent_of_poll(F, R, "C13.R5")

    # ------------------------------------------------------------------ R4 wrapping subtraction feeding a sleep
    for fid in sorted(reach_ws):
        fn = F.fns[fid]
        B = None
        for bi, blk in enumerate(fn["blocks"]):
            if blk["cleanup"]:
                continue
            for s in blk["stmts"]:
                if s["k"] == "assign" and s["rv"]["k"] == "bin" and s["rv"]["op"] in ("SubWithOverflow", "Sub", "SubUnchecked"):
                    lt = fn["locals"][s["lhs"]["l"]]["ty"]
                    if not any(u in lt for u in ("u8", "u16", "u32", "u64", "u128", "usize")):
                        continue
                    B = B or mir.Body(fn, F)
                    if feeds_sleep(B, s["lhs"]["l"]):
                        guarded = dominated_by_ge_test(B, bi, s)
                        R.check(guarded, "C13.R4", R.key("C13.R4", fid.split("::{closure")[0], "sub-feeds-sleep"), "%s:%s" % (fn["file"], s["line"]),
                                "unsigned subtraction feeding a sleep is guarded by a >= test of the same operands",
                                "unsigned subtraction `a - b` feeds a sleep/timeout without a dominating a >= b test: debug builds panic, "
                                "release builds wrap to an (almost) endless sleep – the task stops making progress")


def index_kind(sink):
    m = re.search(r"<(.*?) as (?:std|core)::ops::Index(?:Mut)?<(.*)>>", sink)
    if m:
        recv = m.group(1).split("<")[0].rsplit("::", 1)[-1]
        return "index-%s" % recv
    return "index"


def is_byte_offset_site(a):
    s = a["sink"]
    if "Index" in s and ("for str>" in s or "String as " in s or "<str as " in s or "for std::string::String>" in s):
        return True
    return s.endswith("String::truncate") or s.endswith("str::split_at") or s.endswith("String::split_off") \
        or s.endswith("String::insert") or s.endswith("String::insert_str") or s.endswith("String::remove") \
        or s.endswith("String::drain") or s.endswith("String::replace_range")


def feeds_sleep(B, local, depth=0):
    seen = set()
    frontier = [local]
    while frontier:
        l = frontier.pop()
        if l in seen:
            continue
        seen.add(l)
        for u in B.uses_of(l):
            if u[0] == "assign":
                frontier.append(u[2]["lhs"]["l"])
            elif u[0] == "callarg":
                name = q.base_name(u[3] or u[2] or "")
                if q.ends(name, "tokio::time::sleep", "time::sleep", "sleep", "timeout", "sleep_until", "interval"):
                    return True
                frontier.append(u[4]["dest"]["l"])
            elif u[0] == "switch":
                pass
    return False


def dominated_by_ge_test(B, bi, s):
    """is the subtraction a - b dominated by a comparison edge implying a >= b (same operand origins)?"""
    a = frozenset(map(str, B.origins(s["rv"]["a"])))
    b = frozenset(map(str, B.origins(s["rv"]["b"])))
    for sb in B.switch_blocks():
        e, tr, fa = B.truth_edges(sb)
        if e[0] != "bin":
            continue
        op, x, y = e[1], frozenset(map(str, B.origins(e[2]))), frozenset(map(str, B.origins(e[3])))
        edge = None
        if (x, y) == (a, b):
            edge = {"Ge": tr, "Gt": tr, "Lt": fa, "Le": None}.get(op)
        elif (x, y) == (b, a):
            edge = {"Le": tr, "Lt": tr, "Gt": fa, "Ge": None}.get(op)
        if edge and B.path([0], [bi], cut_edges=[edge]) is None:
            return True
    return False


BOUNDARY_FNS = ("truncate_at_char_boundary", "floor_char_boundary", "ceil_char_boundary")


def boundary_search(F, B, o):
    if o["k"] not in ("copy", "move") or o["p"]["p"]:
        return False
    d = B.single_def(o["p"]["l"])
    hops = 0
    while d and d[2] == "assign" and d[3]["rv"]["k"] == "use" and d[3]["rv"]["o"]["k"] in ("copy", "move") and not d[3]["rv"]["o"]["p"]["p"] and hops < 6:
        hops += 1
        d = B.single_def(d[3]["rv"]["o"]["p"]["l"])
    if not d or d[2] != "call":
        return False
    t = d[3]
    w, r = mir.callee_of(t)
    if not q.ends(q.base_name(w or ""), "Option::unwrap_or") or len(t["args"]) != 2:
        return False
    dv = t["args"][1]
    if not (dv["k"] == "const" and dv.get("val") == 0):
        return False
    x = t["args"][0]
    if x["k"] not in ("copy", "move") or x["p"]["p"]:
        return False
    d2 = B.single_def(x["p"]["l"])
    if not d2 or d2[2] != "call":
        return False
    t2 = d2[3]
    w2, r2 = mir.callee_of(t2)
    if q.base_name(w2 or "").rsplit("::", 1)[-1] not in ("find", "rfind") or len(t2["args"]) != 2:
        return False
    for c in B.origins(t2["args"][1]):
        cf = F.fns.get(c[1]) if c[0] == "agg" else None
        if cf is None:
            return False
        Bc = mir.Body(cf, F)
        ro = Bc.origins({"l": 0, "p": []})
        if not ro or not all(y[0] == "call" and q.ends(y[1], "is_char_boundary") for y in ro):
            return False
        for y in ro:
            ta = Bc.blocks[y[2]]["term"]["args"]
            idx = Bc.origins(ta[1])
            if not (idx and all(z[0] == "param" and z[1] not in Bc.upvar.values() for z in idx)):
                return False
    return True


def char_boundary_idiom(F, a, fid):
    """accepted idioms for a byte offset into external text: the offset is 0, or is tested by is_char_boundary on the
    dominating path, or is the len() of a prefix returned by a boundary helper of the same text"""
    fn = F.fns.get(fid)
    if fn is None:
        return None
    B = mir.Body(fn, F)
    sites = [c for c in B.calls if q.base_name(c[2] or c[1] or "") == a["sink"] or (c[2] or c[1] or "") == a["sink"]]
    if not sites:
        return None
    reasons = []
    for bi, w, r, t in sites:
        offsets = []
        if len(t["args"]) < 2:
            return None
        arg = t["args"][1]
        d = None
        if arg["k"] in ("copy", "move"):
            d = B.single_def(arg["p"]["l"])
        if d and d[2] == "assign" and d[3]["rv"]["k"] == "agg" and d[3]["rv"]["ak"] == "adt" and "Range" in str(d[3]["rv"].get("adt")):
            offsets = list(d[3]["rv"]["ops"])
        else:
            offsets = [arg]
        for o in offsets:
            if o["k"] == "const":
                if o.get("val") == 0:
                    reasons.append("offset 0")
                    continue
                return None
            org = B.origins(o)
            # len() of a prefix produced by a boundary helper
            if org and all(x[0] == "call" and q.ends(x[1], "len") for x in org):
                okp = True
                for x in org:
                    ro = B.origins(B.blocks[x[2]]["term"]["args"][0])
                    if not (ro and all(y[0] == "call" and q.ends(y[1], *BOUNDARY_FNS) for y in ro)):
                        okp = False
                if okp:
                    reasons.append("offset = len() of a prefix returned by %s" % "/".join(BOUNDARY_FNS[:1]))
                    continue
            if org and all(x[0] == "call" and q.ends(x[1], *BOUNDARY_FNS) for x in org):
                reasons.append("offset returned by a char-boundary function")
                continue
            # `candidates.find(|&i| text.is_char_boundary(i)).unwrap_or(0)`: the offset passed the boundary test, or is 0
            if boundary_search(F, B, o):
                reasons.append("offset selected by an is_char_boundary search (0 when none)")
                continue
            # is_char_boundary(.., offset) true-edge dominates the site
            from rules.c05 import base_local
            bl = base_local(B, o)
            dom = False
            for sb, tr, fa, cb, cargs in q.bool_call_edges(B, ["is_char_boundary"]):
                if len(cargs) > 1 and base_local(B, cargs[1]) == bl and B.path([0], [bi], cut_edges=[tr]) is None:
                    dom = True
            if dom:
                reasons.append("offset tested by is_char_boundary on every path to the slice")
                continue
            return None
    return "; ".join(sorted(set(reasons))) if reasons else None
