"""C11 Enforce blocks, audit forwards and records; every denial is recorded once (DESIGN §5 C11)."""
from lib import cg, mir, paths, q

AP = "azure_proxy_agent::"
AZ = AP + "proxy::proxy_authorizer::"
PS = AP + "proxy::proxy_server::ProxyServer::"
HNR = PS + "handle_new_http_request"
LCS = PS + "log_connection_summary"
ARES = AZ + "AuthorizeResult"
ASW = AP + "shared_state::agent_status_wrapper::"
MODE = AP + "proxy::authorization_rules::AuthorizationMode"


def impl(name):
    return "<%s%s as %sAuthorizer>::authorize" % (AZ, name, AZ)


def mode_table(F, R, name):
    fn = R.anchor(impl(name), "C11.R1")
    if not fn:
        return None
    try:
        rows = paths.decision_rows(F, fn["id"])
    except (paths.HasLoop, paths.TooManyPaths) as e:
        R.fail("C11.R1", "C11.R1:%s:not-analysable" % fn["id"], "-", str(e))
        return None
    table = set()
    for atoms, res in rows:
        row = []
        for d, v in atoms:
            if "runAsElevated" in d:
                row.append(("elevated", v))
            elif d.startswith("discr(param:access_control_rules.@Some.0") and isinstance(v, str) and set(v.split("|")) <= {"Audit", "Enforce", "Disabled"}:
                # `match mode { Audit => .., _ => .. }` instead of `mode == Audit`
                row.append(("mode==Audit", v == "Audit") if "Audit" not in v.split("|") or v == "Audit" else ("?" + d, v))
            elif d.startswith("discr(param:access_control_rules"):
                row.append(("rules", v))
            elif "is_allowed" in d:
                row.append(("allowed", v))
            elif d.startswith("eq(") and ".mode" in d and ("variant:%s::" % MODE) in d:
                row.append(("mode==" + d.split("variant:%s::" % MODE)[1].rstrip(")"), v))
            else:
                row.append(("?" + d, v))
        rank = {"elevated": 0, "rules": 1, "allowed": 2}
        row = sorted(set(row), key=lambda x: (rank.get(x[0], 3 if x[0].startswith("mode==") else 4), str(x)))
        table.add((tuple(row), res if isinstance(res, str) else str(res)))
    return table


EXPECTED = {
    (("rules", "None"),): "Ok",
    (("rules", "Some"), ("allowed", True)): "Ok",
    (("rules", "Some"), ("allowed", False), ("mode==Audit", True)): "OkWithAudit",
    (("rules", "Some"), ("allowed", False), ("mode==Audit", False)): "Forbidden",
}


def run(F, R, tier):
    R.explanation = (
        "Path-predicate tables of the three endpoint authorizers (rules None -> Ok; allowed -> Ok; denied in Audit -> OkWithAudit; "
        "denied otherwise -> Forbidden; the three agree), exactly-one-record reasoning on the acyclic region after authorize() in the "
        "handler (on every result != Ok path exactly one log_connection_summary(.., true, ..) event, none on the Ok path), the shape "
        "of log_connection_summary (true -> add_one_failed_connection_summary only), and the actor arm that counts a denial "
        "(vacant -> count 1, occupied -> count += 1, keyed by user/ip/port/process/cmdline/status) with publication into the status.")
    R.rule("C11.R1", "mode table of the endpoint authorizers (and agreement of the three)")
    R.rule("C11.R2", "exactly one authorize-failed record per denial, none for an allowed request")
    R.rule("C11.R3", "audit forwards like allowed: the result has no use after the Forbidden test")
    R.rule("C11.R4", "the failed-summary counter: vacant -> 1, occupied -> += 1, keyed by caller and destination")
    R.rule("C11.R5", "publication: failed summary feeds failedAuthenticateSummary of the aggregate status")
    R.not_decided += ["numeric totals after a history (they also depend on the 24-hour ClearAllSummary, which the statement does not mention)",
                      "Forbidden => 403 and nothing relayed is decided by C01.R2(e)/R3; disabled mode short-circuit by C02.R4"]
    G = cg.get(F)

    # ------------------------------------------------------------------ R1
    tables = {}
    for name in ("WireServer", "GAPlugin", "Imds"):
        t = mode_table(F, R, name)
        if t is None:
            continue
        norm = set()
        for row, res in t:
            r2 = tuple(x for x in row if x[0] != "elevated")
            if any(x == ("elevated", False) for x in row):
                continue  # C03.R1's subject
            norm.add((r2, res))
        tables[name] = norm
        fid = impl(name)
        for row, res in sorted(norm, key=str):
            exp = EXPECTED.get(row)
            R.check(exp == res, "C11.R1", "C11.R1:%s:row:%s" % (fid, "/".join("%s=%s" % x for x in row)), "proxy_agent/src/proxy/proxy_authorizer.rs",
                    "%s: %s => %s" % (name, dict(row), res), "%s: path %s returns %s, table says %s" % (name, dict(row), res, exp))
        missing = set(EXPECTED) - {r for r, _ in norm}
        R.check(not missing, "C11.R1", "C11.R1:%s:all-rows" % fid, "-", "%s implements all four rows of the mode table" % name,
                "%s lacks rows %s" % (name, sorted(missing, key=str)))
    if len(tables) == 3:
        same = tables["WireServer"] == tables["GAPlugin"] == tables["Imds"]
        R.check(same, "C11.R1", "C11.R1:siblings-agree", "-", "WireServer, GAPlugin and Imds have identical mode tables (modulo the elevation guard)")

    # helper contract: how the host's mode string becomes the mode the table above switches on
    from lib import contracts
    fs = R.anchor("<azure_proxy_agent::proxy::authorization_rules::AuthorizationMode as std::str::FromStr>::from_str", "C11.R1")
    if fs:
        tb, nomatch, lowered = contracts.string_match_table(F, mir.Body(fs, F), "AuthorizationMode")
        want = {"disabled": {"Disabled"}, "audit": {"Audit"}, "enforce": {"Enforce"}}
        R.check(tb == want and nomatch == {"Err"} and lowered, "C11.R1", "C11.R1:AuthorizationMode::from_str:table", "%s:%s" % (fs["file"], fs["line"]),
                "mode strings (case-folded) map to disabled->Disabled, audit->Audit, enforce->Enforce, anything else is an error",
                "AuthorizationMode::from_str maps %s; no match -> %s; case-folded: %s" % ({k: sorted(v) for k, v in tb.items()}, sorted(nomatch), lowered))
    fai = F.fns.get(AP + "proxy::authorization_rules::ComputedAuthorizationItem::from_authorization_item")
    if fai:
        Bf = mir.Body(fai, F)
        R.touched(fai["id"])
        # the mode stored in the computed item is from_str(item.mode), or Disabled when that fails
        modes = set()
        for bi, fl in contracts.agg_fields(Bf, "ComputedAuthorizationItem"):
            if "mode" in fl:
                for o in Bf.origins(fl["mode"]):
                    if o[0] == "call" and q.ends(o[1], "from_str"):
                        src = Bf.origins(Bf.blocks[o[2]]["term"]["args"][0])
                        modes.add("from_str(%s)" % "|".join(sorted(".".join((str(x[1]),) + tuple(x[2])) if x[0] == "param" else x[0] for x in src)))
                    elif o[0] == "agg":
                        modes.add(str(o[1]).rsplit("::", 1)[-1])
                    else:
                        modes.add(str(o[0]))
        R.check(modes == {"from_str(authorization_item.mode)", "Disabled"}, "C11.R1", "C11.R1:from_authorization_item:mode", "%s:%s" % (fai["file"], fai["line"]),
                "ComputedAuthorizationItem.mode = AuthorizationMode::from_str(item.mode), Disabled if the string is invalid",
                "ComputedAuthorizationItem.mode is built from %s" % sorted(modes))

    # ------------------------------------------------------------------ R2
    hnr = R.anchor(HNR, "C11.R2")
    if hnr:
        B = mir.Body(hnr, F)
        auth = B.calls_named("proxy_authorizer::authorize")
        sends = [c[0] for c in B.calls_named("HttpConnectionContext::send_request")] + \
                [c[0] for c in B.calls_named("ProxyServer::handle_request_with_signature")]
        rets = B.return_blocks()
        logs = []
        for bi, w, r, t in B.calls_named("ProxyServer::log_connection_summary"):
            flag = t["args"][3]
            val = None
            if flag["k"] == "const":
                val = bool(flag.get("val"))
            logs.append((bi, val))
        after_auth = B.reach([auth[0][0]]) if auth else set()
        failed_logs = [bi for bi, v in logs if v is True and bi in after_auth]
        nonconst = [bi for bi, v in logs if v is None]
        R.check(not nonconst, "C11.R2", "C11.R2:%s:flag-constant" % HNR, "-",
                "every log_connection_summary call passes a literal log_authorize_failed flag (%d calls)" % len(logs))
        eq_ok, ne_ok, ts = q.enum_value_edges(B, F, q.from_call("proxy_authorizer::authorize"), ARES, "Ok")
        if not ts or not auth:
            R.fail("C11.R2", "C11.R2:%s:test-missing" % HNR, "-", "no test of the authorize() result against Ok")
        else:
            stops = set(sends) | set(rets)
            # allowed path: no failed record between authorize and the send
            for e in sorted(eq_ok):
                r = B.reach([e[1]], cut_blocks=sends)
                hit = [b for b in failed_logs if b in r]
                R.check(not hit, "C11.R2", R.key("C11.R2", HNR, "ok-no-record"), q.where(B, e[0]),
                        "result == Ok: no authorize-failed record on the way to the send",
                        "an allowed request is recorded as a failed authorization at line(s) %s" % [B.line(b) for b in hit])
            # outermost "result != Ok" edges: reachable from authorize() before any record and before another such edge
            r0 = B.reach([auth[0][0]], cut_edges=ne_ok, cut_blocks=failed_logs)
            # (the edge itself has to be takeable on such a path: a second test of the same value after the record, `if matches!(v,
            # Forbidden)`, is entered with v == Ok on the record-free path and cannot take its Forbidden edge)
            outer = sorted(e for e in ne_ok if e[0] in r0 and
                           B.path([auth[0][0]], [e[1]], cut_edges=[x for x in ne_ok if x != e], cut_blocks=failed_logs) is not None)
            R.floor("C11.R2", len(outer), 1, "outermost result != Ok edges after authorize()")
            for e in outer:
                # at least one
                p = B.path([e[1]], stops, cut_blocks=failed_logs)
                R.check(p is None and failed_logs, "C11.R2", R.key("C11.R2", HNR, "denial-at-least-one"), q.where(B, e[0]),
                        "result != Ok: every path to a send / return passes a log_connection_summary(.., true, ..)",
                        "a denied request (enforce or audit) can proceed without being recorded",
                        witness={"path_lines": B.path_lines(p)} if p else None)
                # at most one: after one failed record no second is reachable
                twice = []
                for fb in failed_logs:
                    nxt = [tg for tg, _ in B.succ(fb)]
                    r2 = B.reach(nxt)
                    twice += [b for b in failed_logs if b in r2]
                R.check(not twice, "C11.R2", R.key("C11.R2", HNR, "denial-at-most-one"), q.where(B, e[0]),
                        "after an authorize-failed record no second one is reachable (%d record site(s))" % len(failed_logs),
                        "a denial can be recorded twice: second record at line(s) %s" % [B.line(b) for b in twice])
            # precise form: the only way from authorize() to a send without a record is through an edge proving result == Ok
            p_ = B.path([auth[0][0]], sends, cut_blocks=failed_logs, cut_edges=eq_ok)
            R.check(p_ is None, "C11.R2", "C11.R2:%s:unrecorded-only-if-ok" % HNR, q.where(B, auth[0][0]),
                    "every path from authorize() to a send either records the denial or crosses an edge proving result == Ok",
                    "a request whose result is not known to be Ok (e.g. OkWithAudit) reaches the send without an authorize-failed record",
                    witness={"path_lines": B.path_lines(p_)} if p_ else None)
            # failed records appear only on the != Ok side (after authorize)
            p = B.path([auth[0][0]], failed_logs, cut_edges=ne_ok)
            R.check(p is None, "C11.R2", "C11.R2:%s:record-only-on-denial" % HNR, "-",
                    "authorize-failed records after authorize() are reachable only through a result != Ok edge")
        # R3: an audited denial takes the same forwarding path as an allowed request
        if auth:
            subj = q.from_call("proxy_authorizer::authorize")
            _, not_ok, _ = q.enum_value_edges(B, F, subj, ARES, "Ok")
            _, not_audit, _ = q.enum_value_edges(B, F, subj, ARES, "OkWithAudit")
            r_ok = B.reach([auth[0][0]], cut_edges=not_ok)
            r_au = B.reach([auth[0][0]], cut_edges=not_audit)
            s_ok = [b for b in sends if b in r_ok]
            R.check(bool(s_ok) and all(b in r_au for b in s_ok), "C11.R3", "C11.R3:%s:audit-reaches-forwarding" % HNR, q.where(B, auth[0][0]),
                    "every forwarding site an allowed request (result == Ok) can reach is reachable for an audited denial (result == OkWithAudit)",
                    "forwarding sites reachable with Ok but not with OkWithAudit: lines %s" % [B.line(b) for b in s_ok if b not in r_au])
            TOUCH = ("headers_mut", "uri_mut", "method_mut", "body_mut", "version_mut", "extensions_mut", "into_parts", "into_body",
                     "send_request", "handle_request_with_signature", "empty_response", "Response::new", "Builder::body")
            for nm, excl in (("audit-only", r_au - r_ok), ("allowed-only", r_ok - r_au)):
                bad = []
                for b in sorted(excl):
                    if B.blocks[b]["cleanup"]:
                        continue
                    tk = B.blocks[b]["term"]
                    if tk["k"] == "return":
                        bad.append("return at line %s" % B.line(b))
                    elif tk["k"] == "call":
                        w_, r_ = mir.callee_of(tk)
                        if w_ != mir.POLL and q.ends(r_ or w_ or "", *TOUCH):
                            bad.append("%s at line %s" % (q.base_name(r_ or w_), B.line(b)))
                R.check(not bad, "C11.R3", "C11.R3:%s:%s-region-only-records" % (HNR, nm), q.where(B, auth[0][0]),
                        "blocks reachable only for %s requests (%d) neither return, build a response nor touch or send the request: "
                        "after the decision both kinds share one forwarding path" % (nm.split("-")[0], len(excl)),
                        "the %s region does more than record: %s" % (nm, bad))

    lcs = R.anchor(LCS, "C11.R2")
    if lcs:
        B = mir.Body(lcs, F)
        fa = [c[0] for c in B.calls_named("AgentStatusSharedState::add_one_failed_connection_summary")]
        ok_ = [c[0] for c in B.calls_named("AgentStatusSharedState::add_one_connection_summary")]
        flag_tests = []
        for sb in B.switch_blocks():
            e, tr, fal = B.truth_edges(sb)
            if e[0] == "op" and any(o[0] == "param" and o[1] == "log_authorize_failed" for o in B.origins(e[1])):
                flag_tests.append((sb, tr, fal))
        if len(flag_tests) != 1 or len(fa) != 1 or len(ok_) != 1:
            R.fail("C11.R2", "C11.R2:%s:shape" % LCS, "-", "log_connection_summary: expected one flag test, one failed-summary and one summary call; "
                   "found %d/%d/%d" % (len(flag_tests), len(fa), len(ok_)))
        else:
            sb, tr, fal = flag_tests[0]
            rt, rf = B.reach([tr[1]]), B.reach([fal[1]])
            rets = B.return_blocks()
            c1 = fa[0] in rt and ok_[0] not in rt and B.path([tr[1]], rets, cut_blocks=fa) is None
            c2 = ok_[0] in rf and fa[0] not in rf
            c3 = B.path([0], fa + ok_, cut_blocks=[sb]) is None
            R.check(c1 and c2 and c3, "C11.R2", "C11.R2:%s:flag-selects-summary" % LCS, q.where(B, sb),
                    "log_authorize_failed == true reaches exactly add_one_failed_connection_summary (on every path), false reaches only add_one_connection_summary")
            # the summary handed over carries the caller and the destination
            for c in B.calls_named("AgentStatusSharedState::add_one_failed_connection_summary"):
                org = B.origins(c[3]["args"][1])
                R.check(any(o[0] == "agg" and str(o[1]).endswith("ProxySummary") for o in org), "C11.R2", "C11.R2:%s:summary-object" % LCS, q.where(B, c[0]),
                        "the recorded object is the ProxySummary built from this connection's claims")

    # ------------------------------------------------------------------ R4
    act = F.fns.get(ASW + "AgentStatusSharedState::start_new::{closure#0}")
    if not act:
        R.fail("C11.R4", "C11.R4:anchor-missing:agent-status-actor", "-", "anchor-missing=AgentStatusSharedState::start_new::{closure#0}")
    else:
        R.touched(act["id"])
        B = mir.Body(act, F)
        arms = q.actor_arms(B, F, ASW + "AgentStatusAction")
        arm = arms.get("AddOneFailedConnectionSummary")
        other = arms.get("AddOneConnectionSummary")
        if not arm:
            R.fail("C11.R4", "C11.R4:%s:arm-missing" % act["id"], "-", "no AddOneFailedConnectionSummary arm in the actor loop")
        else:
            sb, entry, region = arm
            excl = region - (other[2] if other else set())
            # blocks specific to this arm
            mine = set()
            for b in region:
                if all((b not in a[2]) for n, a in arms.items() if n != "AddOneFailedConnectionSummary"):
                    mine.add(b)
            maps = set()
            incs = []
            inserts = 0
            for b in sorted(mine):
                t = B.blocks[b]["term"]
                if t["k"] == "call":
                    w, r = mir.callee_of(t)
                    if q.ends(w, "HashMap::entry", "HashMap::get_mut", "HashMap::insert", "HashMap::remove", "HashMap::clear"):
                        for o in B.origins(t["args"][0]):
                            maps.add(B.locals[o[2]]["name"] if False else str(o))
                        # name of the map variable
                        bl = t["args"][0]
                        seen = 0
                        while bl["k"] in ("copy", "move") and seen < 8:
                            seen += 1
                            nm = B.locals[bl["p"]["l"]].get("name")
                            if nm and not nm.startswith("<"):   # `<helper>param`: the parameter of a helper analysed in place
                                maps.add("var:" + nm)
                                break
                            d = B.single_def(bl["p"]["l"])
                            if not d or d[2] != "assign":
                                break
                            rv = d[3]["rv"]
                            bl = rv["o"] if rv["k"] in ("use", "cast") else {"k": "copy", "p": rv["p"]} if rv["k"] == "ref" else {"k": "const"}
                    if q.ends(w, "VacantEntry::insert"):
                        inserts += 1
                    # the entry API spelling: .and_modify(|c| c.count += 1).or_insert_with(|| summary.into())
                    if q.ends(w, "Entry::and_modify", "Entry::or_insert_with") and len(t["args"]) == 2:
                        for o in B.origins(t["args"][1]):
                            cf_ = F.fns.get(o[1]) if o[0] == "agg" else None
                            if cf_ is None:
                                incs.append(("unreadable-closure", None))
                                continue
                            Bc = mir.Body(cf_, F)
                            R.touched(cf_["id"])
                            if q.ends(w, "Entry::and_modify"):
                                for cb_ in Bc.blocks:
                                    for s in cb_["stmts"]:
                                        if s["k"] == "assign" and s["rv"]["k"] == "bin" and s["rv"]["op"] in ("Add", "AddWithOverflow", "AddUnchecked"):
                                            a, c = s["rv"]["a"], s["rv"]["b"]
                                            incs.append((mir.field_names(a["p"]) if a["k"] in ("copy", "move") else (), c.get("val") if c["k"] == "const" else None))
                                        elif s["k"] == "assign" and s["rv"]["k"] == "bin" and s["rv"]["op"] in ("Sub", "SubWithOverflow", "Mul", "MulWithOverflow"):
                                            incs.append(("other-arith", s["rv"]["op"]))
                            else:
                                ro = Bc.origins({"l": 0, "p": []})
                                conv = any(q.ends(v, "into", "from") for v in Bc.via({"l": 0, "p": []}))
                                if ro and all((x[0] == "call" and q.ends(x[1], "into", "from")) or (conv and x[0] == "param") for x in ro):
                                    inserts += 1
                    if q.ends(w, "Entry::or_insert") and len(t["args"]) == 2:
                        ro = B.origins(t["args"][1])
                        conv = any(q.ends(v, "into", "from") for v in B.via(t["args"][1]))
                        if ro and (conv or all(x[0] == "call" and q.ends(x[1], "into", "from") for x in ro)):
                            inserts += 1
                for s in B.blocks[b]["stmts"]:
                    if s["k"] == "assign" and s["rv"]["k"] == "bin" and s["rv"]["op"] in ("Add", "AddWithOverflow", "AddUnchecked"):
                        a, c = s["rv"]["a"], s["rv"]["b"]
                        fld = mir.field_names(a["p"]) if a["k"] in ("copy", "move") else ()
                        incs.append((fld, c.get("val") if c["k"] == "const" else None))
                    if s["k"] == "assign" and s["rv"]["k"] == "bin" and s["rv"]["op"] in ("Sub", "SubWithOverflow", "Mul", "MulWithOverflow"):
                        incs.append(("other-arith", s["rv"]["op"]))
            varnames = {m for m in maps if m.startswith("var:")}
            R.check(varnames == {"var:failed_authenticate_summary"}, "C11.R4", "C11.R4:%s:map" % act["id"], q.where(B, entry),
                    "the AddOneFailedConnectionSummary arm touches only the failed_authenticate_summary map",
                    "the arm touches maps %s" % sorted(varnames))
            R.check(incs == [(("count",), 1)] and inserts == 1, "C11.R4", "C11.R4:%s:count-increment" % act["id"], q.where(B, entry),
                    "vacant key -> one insert; occupied -> count += 1; no other arithmetic in the arm",
                    "arm arithmetic %s, vacant inserts %d" % (incs, inserts))
            # key = summary.to_key_string()
            ks = [b for b in mine if B.blocks[b]["term"]["k"] == "call" and q.ends(mir.callee_of(B.blocks[b]["term"])[0], "ProxySummary::to_key_string")]
            R.check(len(ks) == 1, "C11.R4", "C11.R4:%s:key" % act["id"], "-", "the map key is ProxySummary::to_key_string() of the received summary")
        # the summary maps change only where a record is added (Add* arms) or the 24-hour clear runs: handing the records to a reader
        # must not consume them (drain / take / remove in a Get* arm loses every denial counted so far at the next publication)
        def map_var(bl):
            seen = 0
            while bl["k"] in ("copy", "move") and seen < 10:
                seen += 1
                nm = B.locals[bl["p"]["l"]].get("name")
                if nm and not nm.startswith("<"):
                    return nm
                d = B.single_def(bl["p"]["l"])
                if not d or d[2] != "assign":
                    return None
                rv = d[3]["rv"]
                bl = rv["o"] if rv["k"] in ("use", "cast") else {"k": "copy", "p": rv["p"]} if rv["k"] == "ref" else {"k": "const"}
            return None
        READS = ("iter", "values", "keys", "len", "is_empty", "get", "contains_key", "clone", "deref", "into_iter", "borrow", "as_ref")
        allowed = {"AddOneFailedConnectionSummary": ("entry", "get_mut", "insert"), "AddOneConnectionSummary": ("entry", "get_mut", "insert"),
                   "ClearAllSummary": ("clear",)}
        n_acc = 0
        for bi, w, r, t in B.calls:
            if not t["args"] or w == mir.POLL:
                continue
            for a in t["args"]:
                mv = map_var(a)
                if mv not in ("failed_authenticate_summary", "proxy_summary"):
                    continue
                short_ = q.base_name(w or "").rsplit("::", 1)[-1]
                n_acc += 1
                if short_ in READS and "mem::" not in (w or ""):
                    continue
                in_arms = [n for n, a_ in arms.items() if bi in a_[2] and all(bi not in o_[2] for m_, o_ in arms.items() if m_ != n)]
                ok_ = any(short_ in allowed.get(n, ()) for n in in_arms)
                R.check(ok_, "C11.R4", R.key("C11.R4", act["id"], "map-mutation:%s:%s" % (mv, short_)), q.where(B, bi),
                        "%s.%s() is part of adding a record / of the periodic clear" % (mv, short_),
                        "%s is modified by %s() in the %s arm: reading or publishing the summary consumes the records, so denials counted "
                        "so far vanish from the next status" % (mv, short_, "/".join(in_arms) or "?"))
        R.floor("C11.R4", n_acc, 4, "accesses to the two summary maps in the actor loop")
        # single writer: the map is a local of the actor task
        R.check(any(l.get("name") == "failed_authenticate_summary" for l in B.locals), "C11.R4", "C11.R4:%s:map-is-task-local" % act["id"], "-",
                "failed_authenticate_summary is a local of the single actor task (single writer => no lost update)")
    # the denial must be *delivered* to the actor: reliable awaited send of the right message, response awaited
    wf = F.body_of(ASW + "AgentStatusSharedState::add_one_failed_connection_summary")
    if not wf:
        R.fail("C11.R4", "C11.R4:anchor-missing:add_one_failed_connection_summary", "-", "anchor-missing=AgentStatusSharedState::add_one_failed_connection_summary")
    else:
        R.touched(wf["id"])
        Bw = mir.Body(wf, F)
        sends = Bw.calls_named("mpsc::Sender::send")
        lossy = [q.base_name(c[2] or c[1]).rsplit("::", 1)[-1] for c in Bw.calls
                 if q.ends(c[2] or c[1] or "", "try_send", "send_timeout", "try_reserve", "try_reserve_owned", "blocking_send")]
        variants = set()
        for b in Bw.blocks:
            for s in b["stmts"]:
                if s["k"] == "assign" and s["rv"]["k"] == "agg" and s["rv"].get("adt") == ASW + "AgentStatusAction":
                    variants.add(s["rv"]["variant"])
        awaited = len(sends) == 1 and q.immediate_await(Bw, sends[0][0]) is not None
        polls = [c for c in Bw.calls if c[1] == mir.POLL and "oneshot::Receiver" in str((c[3]["f"].get("fnargs") or [{}])[0].get("ty", ""))]
        R.check(awaited and not lossy and variants == {"AddOneFailedConnectionSummary"} and len(polls) == 1, "C11.R4",
                "C11.R4:%s:reliable-delivery" % wf["id"], "%s:%s" % (wf["file"], wf["line"]),
                "the failed summary is enqueued with mpsc::Sender::send(..).await (back-pressure, never dropped) and the actor's reply is awaited",
                "the failed summary is enqueued with %s (awaited send: %s; reply awaited: %d): when the actor's queue is full the denial is "
                "silently lost from the published summary" % (lossy or "?", awaited, len(polls)))
    ks = F.fns.get(AP + "proxy::proxy_summary::ProxySummary::to_key_string")
    if not ks:
        R.fail("C11.R4", "C11.R4:anchor-missing:to_key_string", "-", "anchor-missing=ProxySummary::to_key_string")
    else:
        R.touched(ks["id"])
        B = mir.Body(ks, F)
        fmt = None
        for bi, w, r, t in B.calls_named("fmt::format"):
            fmt = q.format_of(B, {"k": "copy", "p": {"l": t["dest"]["l"], "p": []}})
        fields = []
        if fmt:
            for a in fmt["args"]:
                for o in a["origins"]:
                    if o[0] == "param" and o[1] == "self":
                        fields.append(o[2][0] if o[2] else "?")
                    elif o[0] == "call":
                        fo = B.origins(B.blocks[o[2]]["term"]["args"][0])
                        fields += [x[2][0] for x in fo if x[0] == "param" and x[2]]
        ro = B.origins({"k": "copy", "p": {"l": 0, "p": []}})
        lossy = q.lossy_via(B, {"k": "copy", "p": {"l": 0, "p": []}})
        R.check(bool(ro) and all(o[0] == "call" and q.ends(o[1], "fmt::format") for o in ro) and not lossy, "C11.R4", "C11.R4:%s:key-is-whole-format" % ks["id"],
                "%s:%s" % (ks["file"], ks["line"]), "the key returned is the formatted string itself (not shortened, hashed or otherwise folded)",
                "the key returned is derived from the formatted string through %s: distinct callers can share one key and be counted under "
                "another caller's identity" % (sorted({q.base_name(o[1]) if o[0] == "call" else str(o[0]) for o in ro}) + lossy))
        need = {"userName", "clientIp", "ip", "port", "processFullPath", "processCmdLine", "responseStatus"}
        R.check(set(fields) >= need, "C11.R4", "C11.R4:%s:key-fields" % ks["id"], "%s:%s" % (ks["file"], ks["line"]),
                "summary key covers user, client ip, destination ip/port, process path, command line, status: %s" % fields,
                "summary key lacks %s" % sorted(need - set(fields)))
    fr = None
    for fid_, fn_ in F.fns.items():
        if "From<azure_proxy_agent::proxy::proxy_summary::ProxySummary>" in fid_ and fid_.endswith("::from") and "ProxyConnectionSummary" in fid_:
            fr = fn_
    if not fr:
        R.fail("C11.R4", "C11.R4:anchor-missing:From<ProxySummary>", "-", "anchor-missing=From<ProxySummary> for ProxyConnectionSummary")
    else:
        R.touched(fr["id"])
        B = mir.Body(fr, F)
        one = False
        for b in B.blocks:
            for s in b["stmts"]:
                if s["k"] == "assign" and s["rv"]["k"] == "agg" and str(s["rv"].get("adt", "")).endswith("ProxyConnectionSummary"):
                    i = s["rv"]["fields"].index("count")
                    o = s["rv"]["ops"][i]
                    one = o["k"] == "const" and o.get("val") == 1
        R.check(one, "C11.R4", "C11.R4:%s:first-count-is-1" % fr["id"], "%s:%s" % (fr["file"], fr["line"]), "a new summary entry starts with count = 1")

    # ------------------------------------------------------------------ R5
    if True:
        found = False
        for fid, fn in F.fns.items():
            if "proxy_agent_status" not in fid or fn["crate"] != "azure_proxy_agent":
                continue
            B = mir.Body(fn, F)
            for bi, blk in enumerate(B.blocks):
                for s in blk["stmts"]:
                    if s["k"] == "assign" and s["rv"]["k"] == "agg" and "failedAuthenticateSummary" in (s["rv"].get("fields") or []):
                        i = s["rv"]["fields"].index("failedAuthenticateSummary")
                        org = B.origins(s["rv"]["ops"][i])
                        # read afresh from the status actor for every publication: no remembered copy (a field of the task, a cache)
                        ok = any(o[0] == "call" and q.ends(o[1], "get_all_failed_connection_summary") for o in org) and \
                            all((o[0] == "call" and q.ends(o[1], "get_all_failed_connection_summary", "Vec::new", "Default::default")) or o[0] in ("agg", "const", "promoted")
                                for o in org)
                        found = True
                        R.check(ok, "C11.R5", R.key("C11.R5", fid, "publication"), "%s:%s" % (fn["file"], s["line"]),
                                "failedAuthenticateSummary of the aggregate status = get_all_failed_connection_summary()",
                                "failedAuthenticateSummary origins: %s" % sorted(map(str, org)))
        R.check(found, "C11.R5", "C11.R5:publication-site", "-", "the aggregate status is built with a failedAuthenticateSummary field")

    # hand-written Clone of the published record
    from lib import contracts as _ct
    for im in _ct.handwritten_impls(F, "clone::Clone", ("proxy_agent_shared",)):
        if im["self_ty"].endswith("ProxyConnectionSummary"):
            _ct.faithful_clone(F, R, "C11.R5", im)
