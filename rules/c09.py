"""C09 Agent state converges to the host's latest status – decided clauses (DESIGN §5 C09)."""
from lib import cg, mir, q

AP = "azure_proxy_agent::"
KK = AP + "key_keeper::KeyKeeper::"
LP = KK + "loop_poll"
KW = AP + "shared_state::key_keeper_wrapper::"
KS = AP + "key_keeper::key::KeyStatus::"
K = AP + "common::constants::"
DISABLE = AP + "key_keeper::DISABLE_STATE"

ENDPOINTS = ("wireserver", "imds", "hostga")
CONSTS = {"wireserver": ("WIRE_SERVER_IP_NETWORK_BYTE_ORDER", "WIRE_SERVER_PORT"),
          "imds": ("IMDS_IP_NETWORK_BYTE_ORDER", "IMDS_PORT"),
          "hostga": ("GA_PLUGIN_IP_NETWORK_BYTE_ORDER", "GA_PLUGIN_PORT")}


def endpoint_of(name):
    n = name.lower().replace("_", "")
    if "wireserver" in n:
        return "wireserver"
    if "imds" in n:
        return "imds"
    if "hostga" in n or "gaplugin" in n:
        return "hostga"
    return None


def _reads_local(B, o, target, depth=6):
    """operand is (a copy / negation-free move of) local `target`"""
    while depth > 0 and o.get("k") in ("copy", "move"):
        depth -= 1
        l = o["p"]["l"]
        if l == target:
            return True
        d = B.single_def(l)
        if d is None or d[2] != "assign" or d[3]["rv"]["k"] != "use":
            return False
        o = d[3]["rv"]["o"]
    return False


def short(c):
    return q.base_name(c).split("::{closure")[0].rsplit("::", 1)[-1]


def run(F, R, tier):
    R.explanation = (
        "Decided clauses of convergence (convergence over arbitrary histories is NOT decided): (R1) from the Err edge of the status poll "
        "no state setter is reachable before the next poll, and get_status yields Ok only after validate(); (R2) endpoint pairing checked by "
        "sibling agreement over wireserver|imds|hostga: rule-id update <- status rule id, rules replaced on the 'updated' edge with the same "
        "endpoint's rules, KeyStatus getters read the same endpoint's field, actor arms touch the same endpoint's variable, redirect policy "
        "follows the same endpoint's mode and uses that endpoint's address constants (declared exception: HostGA mode = WireServer mode); "
        "(R3) redirect updates and clear_key are control-dependent on the 'state changed' edge, clear_key on state == disabled; (R4) the "
        "key fetch/acquire block is entered iff the host names no key or a key different from the one held.")
    for rid, txt in (("C09.R1", "a failed poll changes nothing"), ("C09.R2", "endpoint pairing (sibling agreement)"),
                     ("C09.R3", "redirect policy / clear_key follow the state-changed edge"), ("C09.R4", "key block entered iff host names no/different key")):
        R.rule(rid, txt)
    R.not_decided += ["convergence after arbitrary histories of answers and faults (e.g. what a failed acquire leaves behind)",
                      "'behaviour is a function of the last answer alone'"]
    G = cg.get(F)
    lp = R.anchor(LP, "C09.R1")
    if not lp:
        return
    B = mir.Body(lp, F)

    setters = []
    for bi, w, r, t in B.calls:
        if w == mir.POLL:
            continue
        s = short(r or w or "")
        if s.startswith("set_") and s.endswith("_rules") or (s.startswith("update_") and s.endswith("_rule_id")) or \
                s in ("update_key", "clear_key", "update_current_secure_channel_state") or (s.startswith("update_") and s.endswith("_redirect_policy")):
            if "KeyKeeperSharedState" in (r or w) or "redirector" in (r or w):
                setters.append((bi, s))
    R.floor("C09.R1", len(setters), 12, "state-setter call sites in loop_poll")

    # ------------------------------------------------------------------ R1
    gs = B.calls_named("key::get_status")
    R.floor("C09.R1", len(gs), 1, "key::get_status call")
    imp, ref, ts = q.outcome_edges(B, q.from_call("key::get_status"), "Err")
    if not ts:
        R.fail("C09.R1", "C09.R1:%s:test-missing" % LP, "-", "no test of get_status()")
    head = q.outer_loop_header(B, gs[0][0]) if gs else None
    R.check(head is not None, "C09.R1", "C09.R1:%s:poll-loop" % LP, "-", "get_status is polled inside a loop (iteration boundary = loop header bb%s)" % head)
    cut = [c[0] for c in gs] + ([head] if head is not None else [])
    for e in sorted(imp):
        r = B.reach([e[1]], cut_blocks=cut)
        hit = sorted({s for bi, s in setters if bi in r})
        R.check(not hit, "C09.R1", R.key("C09.R1", LP, "err-no-setter"), q.where(B, e[0]),
                "from the Err edge of get_status no state setter is reachable in the rest of that iteration (%d setter sites checked)" % len(setters),
                "a failed status poll can still reach %s in the same iteration" % hit)
    # setters that follow the poll within an iteration are reachable only through its Ok edge
    okimp, _, _ = q.outcome_edges(B, q.from_call("key::get_status"), "Ok")
    after_poll = B.reach([gs[0][0]], cut_blocks=[head] if head is not None else []) if gs else set()
    post = [bi for bi, s in setters if bi in after_poll]
    R.floor("C09.R1", len(post), 11, "state setters that follow the poll inside an iteration")
    p = B.path([gs[0][0]], post, cut_edges=okimp, cut_blocks=[head] if head is not None else []) if gs else None
    R.check(p is None, "C09.R1", "C09.R1:%s:setters-after-ok-poll" % LP, "-",
            "every state setter that follows the poll is reachable only through its Ok edge",
            witness={"path_lines": B.path_lines(p)} if p else None)
    pre = sorted({s for bi, s in setters if bi not in after_poll})
    if pre:
        R.observe("setters reachable before the poll in an iteration (notify-driven reset, not caused by a poll result): %s" % pre)
    gsf = R.anchor(AP + "key_keeper::key::get_status", "C09.R1")
    if gsf:
        BG = mir.Body(gsf, F)
        v_imp, _, v_ts = q.outcome_edges(BG, q.from_call("KeyStatus::validate"), "Ok")
        okret = []
        for bi, b in enumerate(BG.blocks):
            for s in b["stmts"]:
                if s["k"] == "assign" and s["lhs"]["l"] == 0 and not s["lhs"]["p"] and s["rv"]["k"] == "agg" and s["rv"].get("variant") == "Ok":
                    okret.append(bi)
        p = BG.path([0], okret, cut_edges=v_imp)
        R.check(bool(v_ts) and okret and p is None, "C09.R1", "C09.R1:%s:validated" % gsf["id"], "-",
                "get_status returns Ok(status) only after status.validate() succeeded")

    # helper contract: validate() answers Ok only for a valid document - its callers use `?` and discard the bool
    vf = R.anchor(KS + "validate", "C09.R1")
    if vf:
        BV = mir.Body(vf, F)
        okb, flags = [], set()
        for bi, b in enumerate(BV.blocks):
            for s in b["stmts"]:
                if s["k"] == "assign" and s["lhs"]["l"] == 0 and not s["lhs"]["p"] and s["rv"]["k"] == "agg" and s["rv"].get("variant") == "Ok":
                    okb.append(bi)
                    o = s["rv"]["ops"][0]
                    if o["k"] in ("copy", "move"):
                        flags.add(o["p"]["l"])
                    elif o["k"] == "const" and o.get("val") in (1, True):
                        flags.add("const-true")
                    else:
                        flags.add("const-false")
        okv = bool(okb) and len(flags) == 1
        detail = "Ok payloads: %s" % sorted(map(str, flags))
        if okv and "const-true" not in flags:
            okv = False
            fl = next(iter(flags))
            if isinstance(fl, int):
                # the payload temp is a copy of the flag variable
                d_ = BV.single_def(fl)
                while d_ is not None and d_[2] == "assign" and d_[3]["rv"]["k"] == "use" and d_[3]["rv"]["o"]["k"] in ("copy", "move") \
                        and not d_[3]["rv"]["o"]["p"]["p"]:
                    fl = d_[3]["rv"]["o"]["p"]["l"]
                    d_ = BV.single_def(fl)
                for sb in BV.switch_blocks():
                    e, tr, fa = BV.truth_edges(sb)
                    if e[0] == "op" and e[1]["k"] in ("copy", "move") and any(
                            (x[0] == "unknown" and False) for x in ()) is False and _reads_local(BV, e[1], fl):
                        # Ok(flag) only reachable through the flag == true edge, and the flag is not written again afterwards
                        after = BV.reach([tr[1]])
                        rewritten = [d[0] for d in BV.defs.get(fl, []) if d[0] in after]
                        if BV.path([0], okb, cut_edges=[tr]) is None and not rewritten:
                            okv = True
                detail = "Ok(%s) reachable only through the `flag is true` edge: %s" % (BV.locals[fl].get("name") or fl, okv)
        R.check(okv, "C09.R1", "C09.R1:%s:ok-means-valid" % vf["id"], "%s:%s" % (vf["file"], vf["line"]),
                "KeyStatus::validate returns Ok only for a document that passed every check (its bool is never false)",
                "KeyStatus::validate can return Ok(false): get_status() uses `validate()?` and ignores the bool, so an invalid document is "
                "processed like a valid one (%s)" % detail)

    # ------------------------------------------------------------------ R2 in loop_poll
    # one status document updates all three endpoints: an iteration that runs one endpoint's rule-id update runs the other two as well
    # (no short-circuit between them: `a().await || b().await` skips b once a reports a change)
    upd_blocks = {}
    for bi, w, r, t in B.calls:
        s_ = short(r or w or "")
        if w != mir.POLL and s_.startswith("update_") and s_.endswith("_rule_id") and "KeyKeeperSharedState" in (r or w or ""):
            upd_blocks.setdefault(endpoint_of(s_), []).append(bi)
    for a_ep, a_bl in sorted(upd_blocks.items()):
        for b_ep, b_bl in sorted(upd_blocks.items()):
            if a_ep == b_ep or not a_ep or not b_ep:
                continue
            for ab in a_bl:
                hdr_ = q.outer_loop_header(B, ab)
                if hdr_ is None:
                    continue
                p_in = B.path([hdr_], [ab], cut_blocks=b_bl)
                p_out = B.path([tg for tg, _ in B.succ(ab)], [hdr_], cut_blocks=b_bl)
                R.check(p_in is None or p_out is None, "C09.R2", "C09.R2:%s:%s-update-implies-%s-update" % (LP, a_ep, b_ep), q.where(B, ab),
                        "an iteration that updates the %s rule id also updates the %s rule id" % (a_ep, b_ep),
                        "an iteration can update the %s rule id and go on to the next poll without looking at the %s rule id of the same "
                        "status document (short-circuit / early exit between the endpoints): %s keeps the previous document's rules"
                        % (a_ep, b_ep, b_ep), witness={"path_lines": B.path_lines(p_out)} if p_out else None)
    R.floor("C09.R2", len(upd_blocks), 3, "endpoints whose rule id is updated in loop_poll")
    for bi, w, r, t in B.calls:
        if w == mir.POLL:
            continue
        s = short(r or w or "")
        ep = endpoint_of(s)
        if not ep or "KeyKeeperSharedState" not in (r or w or ""):
            continue
        if s.startswith("update_") and s.endswith("_rule_id"):
            org = B.origins(t["args"][1])
            src = {short(o[1]) for o in org if o[0] == "call"}
            ok = org and all(o[0] == "call" for o in org) and all(endpoint_of(x) == ep and x.endswith("_rule_id") for x in src)
            R.check(ok, "C09.R2", "C09.R2:%s:%s-arg" % (LP, s), q.where(B, bi),
                    "%s receives status.%s()" % (s, "/".join(sorted(src))), "%s receives %s" % (s, sorted(map(str, org))))
        if s.startswith("set_") and s.endswith("_rules"):
            org = B.origins(t["args"][1])
            src = {short(o[1]) for o in org if o[0] == "call"}
            ok = org and all(o[0] == "call" for o in org) and all(endpoint_of(x) == ep and x.endswith("_rules") for x in src)
            R.check(ok, "C09.R2", "C09.R2:%s:%s-arg" % (LP, s), q.where(B, bi),
                    "%s receives status.%s()" % (s, "/".join(sorted(src))), "%s receives %s" % (s, sorted(map(str, org))))
            # guarded by the `updated` flag of the same endpoint's rule-id update
            guards = []
            hdr_ = q.outer_loop_header(B, bi)
            for sb in B.switch_blocks():
                e, tr, fa = B.truth_edges(sb)
                opnd = None
                if e[0] == "op" and e[1]["k"] in ("copy", "move"):
                    opnd = e[1]
                elif e[0] == "call" and mir.closure_comb(e[1]):
                    # `result.map(|(updated, _)| updated).unwrap_or_else(|_| false)`: the flag read through Option/Result combinators
                    opnd = {"k": "copy", "p": B.blocks[e[3]]["term"]["dest"]}
                if opnd is None:
                    continue
                for o in B.origins(opnd):
                    if o[0] == "call" and short(o[1]).startswith("update_") and short(o[1]).endswith("_rule_id") and o[3][-1:] == ("0",):
                        # a test of the flag that leads to this call within the iteration (other reads of the flag, e.g. OR-ing the three
                        # flags into "something changed", guard nothing)
                        if bi in B.reach([tr[1]], cut_blocks=[hdr_] if hdr_ is not None else ()):
                            guards.append((endpoint_of(short(o[1])), tr))
            mine = [g[1] for g in guards if g[0] == ep]
            # the flag may be looked at more than once on the way (a helper logs `if updated {..}` and hands the flag on): the guard of
            # the call is the innermost test - one from whose true edge the call is reached without meeting another test of the flag
            inner = []
            for e_ in mine:
                others = [x[0] for x in mine if x != e_]
                if bi in B.reach([e_[1]], cut_blocks=([hdr_] if hdr_ is not None else []) + others):
                    inner.append(e_)
            mine = inner or mine
            # ... and on that edge it is always called (also when the new document carries no rules: "none" must be installed too)
            for e_ in mine:
                p2 = B.path([e_[1]], [hdr_] if hdr_ is not None else B.return_blocks(), cut_blocks=[bi])
                R.check(p2 is None, "C09.R2", "C09.R2:%s:%s-always-on-updated-edge" % (LP, s), q.where(B, e_[0]),
                        "once the rule id was reported as updated, %s is called on every path of the iteration" % s,
                        "after the %s rule id changed there is a path that does not call %s (e.g. a branch for 'rules removed'): the previous "
                        "document's rules stay enforced" % (ep, s), witness={"path_lines": B.path_lines(p2)} if p2 else None)
            p = B.path([0], [bi], cut_edges=mine)
            R.check(bool(mine) and p is None, "C09.R2", "C09.R2:%s:%s-on-updated-edge" % (LP, s), q.where(B, bi),
                    "%s is reachable only through the 'updated' edge of update_%s_rule_id" % (s, ep),
                    "%s is not guarded by the 'updated' flag of its own endpoint's rule id" % s)
    # redirect policies
    for bi, w, r, t in B.calls:
        if w == mir.POLL:
            continue
        s = short(r or w or "")
        if not (s.startswith("update_") and s.endswith("_redirect_policy")):
            continue
        ep = endpoint_of(s)
        modes = set()
        for o in B.origins(t["args"][0]):
            if o[0] == "call" and q.ends(o[1], "ne", "eq"):
                ct = B.blocks[o[2]]["term"]
                for a in ct["args"]:
                    for o2 in B.origins(a):
                        if o2[0] == "call":
                            modes.add(short(o2[1]))
                        elif o2[0] == "const" and o2[1]:
                            modes.add(o2[1].rsplit("::", 1)[-1])
                        elif o2[0] == "promoted":
                            for c in q.promoted_consts(B.fn, o2[1]):
                                modes.add((c[0] or str(c[1])).rsplit("::", 1)[-1])
        getter = {m for m in modes if m.startswith("get_")}
        ok = len(getter) == 1 and endpoint_of(next(iter(getter))) == ep and next(iter(getter)).endswith("_mode") and "DISABLE_STATE" in modes
        R.check(ok, "C09.R2", "C09.R2:%s:%s-arg" % (LP, s), q.where(B, bi),
                "%s(redirect = status.%s() != DISABLE_STATE)" % (s, "/".join(sorted(getter))), "%s redirect flag derives from %s" % (s, sorted(modes)))
    # the redirect functions use their endpoint's address constants
    for ep in ENDPOINTS:
        name = {"wireserver": "update_wire_server_redirect_policy", "imds": "update_imds_redirect_policy", "hostga": "update_hostga_redirect_policy"}[ep]
        fn = R.anchor(AP + "redirector::linux::" + name, "C09.R2")
        if not fn:
            continue
        BR = mir.Body(fn, F)
        cs = BR.calls_named("BpfObject::update_redirect_policy")
        ok = len(cs) == 1
        if ok:
            t = cs[0][3]
            ipc, portc = q.const_args(BR, t, 1), q.const_args(BR, t, 2)
            red = BR.origins(t["args"][4])
            ok = ipc == {K + CONSTS[ep][0]} and portc == {K + CONSTS[ep][1]} and red == {("param", "redirect", ())}
        R.check(ok, "C09.R2", "C09.R2:%s:constants" % fn["id"], "%s:%s" % (fn["file"], fn["line"]),
                "%s -> update_redirect_policy(%s, %s, local_port, redirect)" % (name, CONSTS[ep][0], CONSTS[ep][1]))
    # KeyStatus getters
    for ep in ENDPOINTS:
        rid = F.fns.get(KS + "get_%s_rule_id" % ep)
        rules = F.fns.get(KS + "get_%s_rules" % ep)
        if not rid or not rules:
            R.fail("C09.R2", "C09.R2:anchor-missing:KeyStatus::get_%s_rule(s/_id)" % ep, "-", "anchor-missing=KeyStatus getters of %s" % ep)
            continue
        R.touched(rid["id"], rules["id"])
        Bi = mir.Body(rid, F)
        called = {short(c[2] or c[1]) for c in Bi.calls if "KeyStatus" in (c[2] or c[1] or "")}
        R.check(called == {"get_%s_rules" % ep}, "C09.R2", "C09.R2:%s:reads-own-rules" % rid["id"], "%s:%s" % (rid["file"], rid["line"]),
                "get_%s_rule_id derives from get_%s_rules" % (ep, ep), "get_%s_rule_id calls %s" % (ep, sorted(called)))
        Br = mir.Body(rules, F)
        fields = set()
        for b in Br.blocks:
            for s in b["stmts"]:
                if s["k"] == "assign":
                    for pl in mir.places_in_rvalue(s["rv"]):
                        fn_ = mir.field_names(pl)
                        for f in fn_:
                            if endpoint_of(f):
                                fields.add(f)
        R.check(fields == {ep}, "C09.R2", "C09.R2:%s:reads-own-field" % rules["id"], "%s:%s" % (rules["file"], rules["line"]),
                "get_%s_rules reads authorizationRules.%s" % (ep, ep), "get_%s_rules reads fields %s" % (ep, sorted(fields)))
    hm = F.fns.get(KS + "get_hostga_mode")
    if hm:
        Bh = mir.Body(hm, F)
        called = {short(c[2] or c[1]) for c in Bh.calls if "KeyStatus" in (c[2] or c[1] or "")}
        R.check(called == {"get_wire_server_mode"}, "C09.R2", "C09.R2:%s:declared-exception" % hm["id"], "%s:%s" % (hm["file"], hm["line"]),
                "declared exception: get_hostga_mode = get_wire_server_mode ('short-term' per the source comment)", "get_hostga_mode calls %s" % sorted(called))
    for ep, nm in (("wireserver", "get_wire_server_mode"), ("imds", "get_imds_mode")):
        fn = F.fns.get(KS + nm)
        if fn:
            Bm = mir.Body(fn, F)
            fields = set()
            for b in Bm.blocks:
                for s in b["stmts"]:
                    if s["k"] == "assign":
                        for pl in mir.places_in_rvalue(s["rv"]):
                            for f in mir.field_names(pl):
                                if endpoint_of(f):
                                    fields.add(f)
            R.check(fields == {ep}, "C09.R2", "C09.R2:%s:reads-own-field" % fn["id"], "%s:%s" % (fn["file"], fn["line"]),
                    "%s reads authorizationRules.%s" % (nm, ep), "%s reads fields %s" % (nm, sorted(fields)))
    # actor arms
    act = F.fns.get(KW + "KeyKeeperSharedState::start_new::{closure#0}")
    if not act:
        R.fail("C09.R2", "C09.R2:anchor-missing:key-keeper-actor", "-", "anchor-missing=KeyKeeperSharedState::start_new::{closure#0}")
    else:
        R.touched(act["id"])
        BA = mir.Body(act, F)
        arms = q.actor_arms(BA, F, KW + "KeyKeeperAction")
        n_arm = 0
        for vname, (sb, entry, region) in sorted(arms.items()):
            ep = endpoint_of(vname)
            if not ep:
                continue
            n_arm += 1
            mine = {b for b in region if all(b not in a[2] for n2, a in arms.items() if n2 != vname)}
            touched = set()
            for b in mine:
                for s in BA.blocks[b]["stmts"]:
                    if s["k"] != "assign":
                        continue
                    nm = BA.locals[s["lhs"]["l"]].get("name")
                    if nm and endpoint_of(nm) and not s["lhs"]["p"] and vname.startswith("Set"):
                        touched.add(nm)
                    for pl in mir.places_in_rvalue(s["rv"]):
                        nm2 = BA.locals[pl["l"]].get("name")
                        if nm2 and endpoint_of(nm2) and nm2.endswith(("_rules", "_rule_id")):
                            touched.add(nm2)
            kind = "rule_id" if "RuleId" in vname else "rules"
            want = "%s_%s" % (ep, kind)
            R.check(touched == {want}, "C09.R2", "C09.R2:%s:arm:%s" % (act["id"], vname), q.where(BA, entry),
                    "actor arm %s touches only `%s`" % (vname, want), "actor arm %s touches %s (expected %s)" % (vname, sorted(touched), want))
        R.floor("C09.R2", n_arm, 12, "endpoint-specific actor arms (Set/Get x RuleId/Rules x 3)")
        # the two cells the loop's decisions read back: the key and the channel state
        from lib import contracts
        contracts.actor_cell(F, R, "C09.R2", BA, arms, "key", "SetKey", "key", "GetKey", "key keeper actor")
        contracts.actor_cell(F, R, "C09.R2", BA, arms, "current_secure_channel_state", "SetSecureChannelState", "state", "GetSecureChannelState",
                             "key keeper actor")
    # wrapper functions send the variant of their own endpoint
    for fid, fn in F.fns.items():
        if not fid.startswith(KW + "KeyKeeperSharedState::") or not fid.endswith("::{closure#0}"):
            continue
        nm = short(fid)
        if fid != KW + "KeyKeeperSharedState::" + nm + "::{closure#0}":
            continue  # nested map_err closures
        ep = endpoint_of(nm)
        if not ep or not (nm.startswith(("set_", "get_", "update_"))):
            continue
        Bw = mir.Body(fn, F)
        variants = set()
        for b in Bw.blocks:
            for s in b["stmts"]:
                if s["k"] == "assign" and s["rv"]["k"] == "agg" and s["rv"].get("adt") == KW + "KeyKeeperAction":
                    variants.add(s["rv"]["variant"])
        called = {short(c[2] or c[1]) for c in Bw.calls if "KeyKeeperSharedState::" in (c[2] or c[1] or "") and c[1] != mir.POLL}
        okv = all(endpoint_of(v) == ep for v in variants) and all(endpoint_of(c) in (ep, None) for c in called)
        if nm.startswith("update_"):
            okv = okv and called >= {"get_%s_rule_id" % ep, "set_%s_rule_id" % ep}
        elif variants:
            verb = "Set" if nm.startswith("set_") else "Get"
            okv = okv and all(v.startswith(verb) and (("RuleId" in v) == nm.endswith("_rule_id")) for v in variants)
        R.check(okv and (variants or called), "C09.R2", "C09.R2:%s:variant" % fid, "%s:%s" % (fn["file"], fn["line"]),
                "%s sends %s / calls %s" % (nm, sorted(variants), sorted(called)), "%s is cross-wired: sends %s calls %s" % (nm, sorted(variants), sorted(called)))

    # ------------------------------------------------------------------ R3
    upd = B.calls_named("KeyKeeperSharedState::update_current_secure_channel_state")
    changed_edges = []
    for sb in B.switch_blocks():
        e, tr, fa = B.truth_edges(sb)
        if e[0] == "op" and e[1]["k"] in ("copy", "move"):
            if any(o[0] == "call" and q.ends(o[1], "update_current_secure_channel_state") for o in B.origins(e[1])):
                changed_edges.append(tr)
    red = [bi for bi, s in setters if s.endswith("_redirect_policy")]
    clr = [bi for bi, s in setters if s == "clear_key"]
    R.floor("C09.R3", len(red), 3, "redirect policy updates in loop_poll")
    p = B.path([0], red + clr, cut_edges=changed_edges)
    R.check(bool(changed_edges) and p is None, "C09.R3", "C09.R3:%s:on-state-change" % LP, q.where(B, changed_edges[0][0]) if changed_edges else "-",
            "the three redirect-policy updates and clear_key are reachable only through the 'state updated' edge",
            witness={"path_lines": B.path_lines(p)} if p else None)
    # clear_key under state == DISABLE_STATE; fetch/acquire under state != DISABLE_STATE
    dis_true, dis_false = [], []
    for sb in B.switch_blocks():
        e, tr, fa = B.truth_edges(sb)
        if e[0] == "call" and q.ends(e[1], "eq", "ne") and len(e[2]) == 2:
            names = set()
            for a in e[2]:
                for o in B.origins(a):
                    if o[0] == "call":
                        names.add(short(o[1]))
                    elif o[0] == "const" and o[1]:
                        names.add(o[1].rsplit("::", 1)[-1])
                    elif o[0] == "promoted":
                        for c in q.promoted_consts(B.fn, o[1]):
                            names.add((c[0] or str(c[1])).rsplit("::", 1)[-1])
            if "DISABLE_STATE" in names and "get_secure_channel_state" in names:
                is_eq = q.ends(e[1], "eq")
                (dis_true if True else None)
                eq_edge, ne_edge = (tr, fa) if is_eq else (fa, tr)
                dis_true.append(eq_edge)
                dis_false.append(ne_edge)
    p = B.path([0], clr, cut_edges=dis_true)
    R.check(bool(dis_true) and bool(clr) and p is None, "C09.R3", "C09.R3:%s:clear-key-when-disabled" % LP, "-",
            "clear_key is reachable only through a 'state == DISABLE_STATE' edge")
    keyblock = [c[0] for c in B.calls_named("KeyKeeper::fetch_key", "key::acquire_key")]
    p = B.path([0], keyblock, cut_edges=dis_false)
    R.check(bool(dis_false) and bool(keyblock) and p is None, "C09.R3", "C09.R3:%s:key-block-when-enabled" % LP, "-",
            "fetch_key / acquire_key are reachable only through a 'state != DISABLE_STATE' edge")

    # helper contract: update_current_secure_channel_state reports "updated" exactly when the stored state differs, and stores the new one
    uc = F.body_of(KW + "KeyKeeperSharedState::update_current_secure_channel_state")
    if not uc:
        R.fail("C09.R3", "C09.R3:anchor-missing:update_current_secure_channel_state", "-", "anchor-missing=update_current_secure_channel_state")
    else:
        R.touched(uc["id"])
        BU = mir.Body(uc, F)
        eqs = []
        for sb, tr, fa, cb, args in q.bool_call_edges(BU, ["eq", "ne"]):
            oa = [BU.origins(a) for a in args]
            cur = [all(o[0] == "call" and q.ends(o[1], "get_current_secure_channel_state") for o in x) and bool(x) for x in oa]
            new = [all(o[0] == "param" and o[1] == "state" for o in x) and bool(x) for x in oa]
            if (cur[0] and new[1]) or (cur[1] and new[0]):
                is_eq = q.ends(mir.callee_of(BU.blocks[cb]["term"])[0], "eq")
                eqs.append((tr, fa) if is_eq else (fa, tr))
        sets = [c[0] for c in BU.calls_named("KeyKeeperSharedState::set_secure_channel_state")]
        oks = {}
        for bi, blk in enumerate(BU.blocks):
            for s in blk["stmts"]:
                if s["k"] == "assign" and s["lhs"]["l"] == 0 and s["rv"]["k"] == "agg" and s["rv"].get("variant") == "Ok":
                    o = s["rv"]["ops"][0]
                    oks.setdefault(o.get("val") if o["k"] == "const" else "?", []).append(bi)
        okc = len(eqs) == 1 and len(sets) == 1 and set(oks) == {0, 1}
        if okc:
            same, diff = eqs[0]
            okc = BU.path([0], oks[0], cut_edges=[same]) is None and BU.path([0], sets + oks[1], cut_edges=[diff]) is None \
                and BU.path([diff[1]], oks[1], cut_blocks=sets) is None
            so = BU.origins(BU.blocks[sets[0]]["term"]["args"][1])
            okc = okc and bool(so) and all(o[0] == "param" and o[1] == "state" for o in so)
        R.check(okc, "C09.R3", "C09.R3:%s:contract" % uc["id"], "%s:%s" % (uc["file"], uc["line"]),
                "update_current_secure_channel_state: Ok(false) only when the stored state equals the new one; otherwise the new state is "
                "stored and Ok(true) returned",
                "update_current_secure_channel_state no longer has that shape (comparisons %d, stores %d, Ok values %s)" % (len(eqs), len(sets), sorted(map(str, oks))))
    for nm, want in (("update_key", "Some"), ("clear_key", "None")):
        wf = F.body_of(KW + "KeyKeeperSharedState::" + nm)
        if not wf:
            R.fail("C09.R3", "C09.R3:anchor-missing:%s" % nm, "-", "anchor-missing=KeyKeeperSharedState::%s" % nm)
            continue
        BW = mir.Body(wf, F)
        R.touched(wf["id"])
        cs = BW.calls_named("KeyKeeperSharedState::set_key")
        v = q.operand_variant(BW, cs[0][3]["args"][1]) if len(cs) == 1 else None
        okw = bool(v) and v[1] == want
        if okw and want == "Some":
            for o in BW.origins(cs[0][3]["args"][1]):
                if o[0] == "agg":
                    blk = BW.blocks[o[2]]
                    for s in blk["stmts"]:
                        if s["k"] == "assign" and s["rv"]["k"] == "agg" and s["rv"].get("variant") == "Some":
                            po = BW.origins(s["rv"]["ops"][0])
                            okw = okw and bool(po) and all(x[0] == "param" and x[1] == "key" for x in po)
        R.check(okw, "C09.R3", "C09.R3:%s:contract" % wf["id"], "%s:%s" % (wf["file"], wf["line"]),
                "%s() = set_key(%s)" % (nm, "Some(key)" if want == "Some" else "None"), "%s passes %s to set_key" % (nm, v))

    # helper contract: the in-memory guid the loop compares with is read from the ONE key cell (get_key() round trip), never from a second
    # copy that clear_key() could leave behind
    def named(path):
        # the fields a projection path goes through, whichever way the Ok / Some payload was taken (match, `?`, map)
        return tuple(x for x in path if not x.startswith("@") and not x.isdigit())

    for nm, fld in (("get_current_key_guid", "guid"), ("get_current_key_value", "key"), ("get_current_key_incarnation", "incarnationId")):
        gf = F.body_of(KW + "KeyKeeperSharedState::" + nm)
        if not gf:
            if nm == "get_current_key_guid":
                R.fail("C09.R3", "C09.R3:anchor-missing:%s" % nm, "-", "anchor-missing=KeyKeeperSharedState::%s" % nm)
            continue
        Bk = mir.Body(gf, F)
        R.touched(gf["id"])
        org = Bk.origins({"k": "copy", "p": {"l": 0, "p": []}}, deep=True)
        okg = bool(org) and all((o[0] == "agg" and str(o[1]).endswith(("Option::None", "Result::Ok", "Result::Err", "Option::Some"))) or
                                (o[0] == "call" and q.ends(o[1], "KeyKeeperSharedState::get_key") and
                                 named(o[3]) in ((), (fld,)))
                                for o in org) and any(o[0] == "call" and named(o[3]) == (fld,) for o in org)
        R.check(okg, "C09.R3", "C09.R3:%s:reads-the-key-cell" % gf["id"], "%s:%s" % (gf["file"], gf["line"]),
                "%s() = get_key().map(|k| k.%s): derived from the single key cell of the actor" % (nm, fld),
                "%s() is not (only) derived from get_key(): %s - a second copy of the %s can go stale when the key is cleared or replaced"
                % (nm, sorted(map(str, org)), fld))

    # every state change the loop requests reaches the actor: the wrappers enqueue with an awaited send and await the reply (a full queue
    # delays the key keeper, it never makes it skip "install the new rules" after the new rule id was already recorded)
    from lib import contracts
    for nm in ("set_wireserver_rules", "set_imds_rules", "set_hostga_rules", "set_wireserver_rule_id", "set_imds_rule_id", "set_hostga_rule_id",
               "get_wireserver_rule_id", "get_imds_rule_id", "get_hostga_rule_id", "set_secure_channel_state", "get_current_secure_channel_state",
               "set_key", "get_key"):
        contracts.reliable_round_trip(F, R, "C09.R2", KW + "KeyKeeperSharedState::" + nm, "KeyKeeperSharedState::" + nm)

    # the change detector must read every status field a redirect decision reads (otherwise a flip of that field alone is never acted on)
    from lib import deps
    det = set()
    for bi, w, r, t_ in B.calls_named("KeyKeeperSharedState::update_current_secure_channel_state"):
        for o in B.origins(t_["args"][1]):
            if o[0] == "call" and o[1].startswith(KS):
                det.add(o[1])
    dec = set()
    def status_calls(o_, depth=3):
        for o in B.origins(o_):
            if o[0] == "call" and o[1].startswith(KS):
                dec.add(o[1])
            elif o[0] == "call" and depth > 0:       # a comparison / conversion of the getter's result
                for a in B.blocks[o[2]]["term"]["args"]:
                    status_calls(a, depth - 1)
    for bi in red:
        status_calls(B.blocks[bi]["term"]["args"][0])
    det_reads = set()
    for d in det:
        det_reads |= deps.reads(F, d)
    fmt_p = lambda s: sorted(".".join(x) for x in s)
    R.check(len(det) == 1 and len(dec) >= 2, "C09.R3", "C09.R3:%s:detector-and-decisions-identified" % LP, "-",
            "change detector %s; redirect decisions computed by %s" % (sorted(short(d) for d in det), sorted(short(d) for d in dec)),
            "cannot identify the change detector (%s) / the decision getters (%s)" % (sorted(det), sorted(dec)))
    for d in sorted(dec):
        need = deps.reads(F, d)
        miss = need - det_reads
        R.check(bool(need) and not miss, "C09.R3", "C09.R3:%s:detector-covers:%s" % (LP, short(d)), "-",
                "every status field %s() reads (%s) is also read by the change detector" % (short(d), fmt_p(need)),
                "the change detector %s does not read %s, which %s() depends on: a change of that field alone never updates the redirect policy"
                % (sorted(short(x) for x in det), fmt_p(miss), short(d)))

    # ------------------------------------------------------------------ R4
    guards = []
    for sb in B.switch_blocks():
        e, tr, fa = B.truth_edges(sb)
        if e[0] == "call" and q.ends(e[1], "is_none") and any(o[0] == "call" and "keyGuid" in o[3] for o in B.origins(e[2][0])):
            guards.append(("keyGuid.is_none", tr, fa))
        if e[0] == "discr" and any(o[0] == "call" and o[3][-1:] == ("keyGuid",) and short(o[1]) == "get_status" for o in B.origins(e[1])):
            # `match &status.keyGuid { None => .., Some(_) => .. }` spelling of the same test
            none_e = [(sb, tg) for tg, lab in B.succ(sb) if lab == mir.STD_VARIANTS["None"]]
            some_e = [(sb, tg) for tg, lab in B.succ(sb) if lab == mir.STD_VARIANTS["Some"] or lab == "otherwise"]
            if none_e and some_e and not any(g[0] == "keyGuid.is_none" for g in guards):
                guards.append(("keyGuid.is_none", none_e[0], some_e[0]))
        if e[0] == "call" and q.ends(e[1], "ne", "eq") and len(e[2]) == 2:
            srcs = set()
            for a in e[2]:
                for o in B.origins(a):
                    if o[0] == "call":
                        srcs.add((short(o[1]), o[3][-1:] if o[3] else ()))
            if any(s[0] == "get_status" and s[1] == ("keyGuid",) for s in srcs) and any(s[0].startswith("get_current_key_guid") for s in srcs):
                is_eq = q.ends(e[1], "eq")
                guards.append(("keyGuid != current", fa if is_eq else tr, tr if is_eq else fa))
    enter = [g[1] for g in guards]
    p = B.path([0], keyblock, cut_edges=enter)
    R.check(len(guards) == 2 and p is None, "C09.R4", "C09.R4:%s:key-block-guard" % LP, "-",
            "the fetch/acquire block is entered only if status.keyGuid is None or differs from get_current_key_guid() (%s)" % [g[0] for g in guards],
            "key block guards found: %s" % [g[0] for g in guards])
