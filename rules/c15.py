"""C15 Request bodies above the size limit are refused and never relayed (DESIGN §5 C15)."""
from lib import mir, q

PS = "azure_proxy_agent::proxy::proxy_server::"
SVC = PS + "ProxyServer::handle_new_tcp_connection::{closure#0}::{closure#0}::{closure#0}"
HNR = PS + "ProxyServer::handle_new_http_request"
HRS = PS + "ProxyServer::handle_request_with_signature"
CONV = PS + "ProxyServer::convert_request"
LOW = PS + "REQUEST_BODY_LOW_LIMIT_SIZE"
LARGE = PS + "REQUEST_BODY_LARGE_LIMIT_SIZE"


def layer_limit_of(B, operand, depth=0):
    """named limit constant behind a ServiceBuilder / layer value"""
    out = set()
    for o in B.origins(operand):
        if o[0] == "call" and q.ends(o[1], "ServiceBuilder::layer"):
            t = B.blocks[o[2]]["term"]
            out |= layer_limit_of(B, t["args"][1], depth + 1)
        elif o[0] == "call" and q.ends(o[1], "RequestBodyLimitLayer::new"):
            t = B.blocks[o[2]]["term"]
            out |= q.const_args(B, t, 0)
        else:
            out.add("<%s>" % (o[1] if len(o) > 1 else o[0]))
    return out


def body_sources(B, F):
    """calls that consume the request body (into_parts().1): BodyExt::collect or a workspace reader -> [(block, callee)]"""
    out = []
    for c in B.calls:
        if c[1] == mir.POLL or not c[3]["args"]:
            continue
        ro = B.origins(c[3]["args"][0])
        if ro and all(o[0] == "call" and q.ends(o[1], "into_parts") and tuple(o[3][:1]) == ("1",) for o in ro):
            out.append((c[0], c[2] or c[1]))
    return out


def is_whole_body(B, F, origins):
    """every origin is the complete body that was read: Collected::to_bytes() of collect(), or the Ok payload of a workspace body reader"""
    srcs = {b for b, c in body_sources(B, F)}
    if not origins:
        return False
    for o in origins:
        if o[0] == "call" and q.ends(o[1], "to_bytes"):
            continue
        if o[0] == "call" and o[2] in srcs and tuple(o[3]) == ("@Ok", "0") and not q.ends(o[1], "BodyExt::collect"):
            continue
        return False
    return True


def reader_is_sound(F, R, helper):
    """a workspace helper that reads the request body frame by frame: an Err outcome of any frame()/collect() inside it must not reach
    the helper's Ok result (the length-limit error of the Limited body arrives exactly there)"""
    fn = F.body_of(helper) or F.fns.get(helper)
    if fn is None:
        R.fail("C15.R3", "C15.R3:%s:reader-no-body" % helper, "-", "no MIR for the body reader %s" % helper)
        return
    B = mir.Body(fn, F)
    R.touched(fn["id"])
    reads = B.calls_named("BodyExt::frame", "BodyExt::collect")
    okret = [bi for bi, b in enumerate(B.blocks) for s in b["stmts"]
             if s["k"] == "assign" and s["lhs"]["l"] == 0 and s["rv"]["k"] == "agg" and s["rv"].get("variant") == "Ok"]
    errs = set()
    tests = []
    from lib import paths as P
    for sb in B.switch_blocks():
        e = B.cond(sb)
        if e[0] != "discr":
            continue
        tv = P.type_variants(F, B, e[1])
        if tv not in (["Ok", "Err"], ["Continue", "Break"]):
            continue
        org = B.origins(e[1])
        if not org or not all(o[0] == "call" and q.ends(o[1], "BodyExt::frame", "BodyExt::collect") for o in org):
            continue
        tests.append(sb)
        tt = B.blocks[sb]["term"]
        listed = {v for v, _ in tt["targets"]}
        for tg, lab in B.succ(sb):
            if lab == 1 or (lab == "otherwise" and 1 not in listed):
                errs.add((sb, tg))
    bad = [e for e in sorted(errs) if B.path([e[1]], okret) is not None]
    R.check(bool(reads) and bool(tests) and bool(okret) and not bad, "C15.R3", "C15.R3:%s:reader-propagates-errors" % fn["id"], "%s:%s" % (fn["file"], fn["line"]),
            "%s: no Err outcome of frame()/collect() reaches its Ok result (%d read site(s), %d test(s))" % (q.base_name(helper), len(reads), len(tests)),
            "%s: a body error (e.g. the length limit) is swallowed - from the Err edge at line(s) %s the helper still returns Ok with the "
            "bytes read so far" % (q.base_name(helper), [B.line(e[0]) for e in bad] or "<no test of the read result found>"))


def run(F, R, tier):
    # body readers / `&mut Request` helpers are recognised by their own contracts (reader_is_sound, inline.with_request_helpers)
    from lib import facts as _facts
    F = R.F = _facts.raw_view(F)
    R.explanation = (
        "Evaluated constants (100 KiB / 100 MiB), path-restricted provenance of the limit layer chosen in the per-request "
        "service closure (LARGE on the true edge of should_skip_sig, LOW on the false edge, the chosen layer wraps the "
        "handler, which takes Request<Limited<Incoming>>), and collect-before-relay dominance on both routes: every send is "
        "dominated by the Ok outcome of body.collect(); the Err outcome reaches only a 400 answer and no send.")
    R.rule("C15.R1", "limit constants: LOW = 100*1024, LARGE = 1024*LOW")
    R.rule("C15.R2", "layer selection: should_skip_sig true -> LARGE, false -> LOW; the chosen service wraps the handler")
    R.rule("C15.R3", "collect before relay: every send is dominated by Ok(body.collect()); Err -> 400 and no send")
    R.assumptions.append("tower_http::limit::RequestBodyLimitLayer answers 413 for a declared Content-Length above the limit and "
                         "http_body_util::Limited errors once more than `limit` bytes were read (exactly-the-limit passes)")
    R.not_decided += ["the limiting library's boundary behaviour (exactly-the-limit, 413 vs error while reading)"]

    lo, la = F.consts.get(LOW), F.consts.get(LARGE)
    R.check(lo and lo["val"] == 100 * 1024, "C15.R1", "C15.R1:const:LOW", "proxy_agent/src/proxy/proxy_server.rs",
            "REQUEST_BODY_LOW_LIMIT_SIZE == 102400", "REQUEST_BODY_LOW_LIMIT_SIZE = %r" % (lo and lo["val"]))
    R.check(la and lo and la["val"] == 1024 * lo["val"], "C15.R1", "C15.R1:const:LARGE", "proxy_agent/src/proxy/proxy_server.rs",
            "REQUEST_BODY_LARGE_LIMIT_SIZE == 1024 * LOW (100 MiB)", "REQUEST_BODY_LARGE_LIMIT_SIZE = %r" % (la and la["val"]))

    svc = F.fns.get(SVC)
    if not svc:
        R.fail("C15.R2", "C15.R2:anchor-missing:service-closure", "-", "anchor-missing=%s" % SVC)
    else:
        R.touched(SVC)
        B = mir.Body(svc, F)
        tests = q.bool_call_edges(B, ["hyper_client::should_skip_sig"])
        R.check(len(tests) == 1, "C15.R2", "C15.R2:%s:per-request-choice" % SVC, "%s:%s" % (svc["file"], svc["line"]),
                "the per-request service closure itself branches on should_skip_sig(..) of the request it serves",
                "the per-request service closure does not branch on a should_skip_sig(..) call of its own (%d such tests): the limit is not "
                "chosen per request (e.g. decided once per connection and remembered)" % len(tests))
        sf = B.calls_named("ServiceBuilder::service_fn")
        R.floor("C15.R2", len(sf), 1, "service_fn wrapping the handler")
        for sb, tr, fa, cb, args in tests:
            # the predicate looks at this request's method and uri
            ok = all(any(o[0] == "call" and q.ends(o[1], nm) for o in B.origins(a)) for a, nm in zip(args, ("Request::method", "Request::uri")))
            R.check(ok, "C15.R2", "C15.R2:%s:predicate-args" % SVC, q.where(B, sb), "should_skip_sig(req.method(), req.uri()) of this request")
            t_only = B.reach([tr[1]]) - B.reach([fa[1]])
            f_only = B.reach([fa[1]]) - B.reach([tr[1]])
            for bi, w, r, t in sf:
                # the limit that reaches the layer handed to service_fn, per outcome of the test - whether the branch picks one of two
                # ready-made layers, or picks the number and builds one layer, or a helper does either
                got = {}

                def side_of(blk):
                    return "true" if blk in t_only else ("false" if blk in f_only else "both")

                def limits(o, side, depth=0):
                    """{(side, const name)} for a limit / layer / builder operand; side = the branch the value was chosen on (the first
                    definition met, walking back from service_fn, that lies on one side of the test)"""
                    res = set()
                    if o["k"] == "const":
                        return {(side, o.get("def") or "<literal %s>" % o.get("val"))}
                    if o["p"]["p"] or depth > 12:
                        return {(side, "<?>")}
                    for (dbi, si, kind, payload) in B.defs.get(o["p"]["l"], []):
                        sd_ = side if side != "both" else side_of(dbi)
                        if kind == "call":
                            w_, r_ = mir.callee_of(payload)
                            nm = q.base_name(w_ or "")
                            if q.ends(nm, "RequestBodyLimitLayer::new"):
                                res |= limits(payload["args"][0], sd_, depth + 1)
                            elif q.ends(nm, "ServiceBuilder::layer"):
                                res |= limits(payload["args"][1], sd_, depth + 1)
                            elif mir.is_pass_through(w_, r_) and payload["args"]:
                                res |= limits(payload["args"][0], sd_, depth + 1)
                            else:
                                res.add((sd_, "<%s>" % nm))
                        elif kind == "assign" and not payload["lhs"]["p"] and payload["rv"]["k"] in ("use", "cast"):
                            res |= limits(payload["rv"]["o"], sd_, depth + 1)
                        elif kind == "assign" and not payload["lhs"]["p"] and payload["rv"]["k"] == "ref":
                            res |= limits({"k": "copy", "p": payload["rv"]["p"]}, sd_, depth + 1)
                        else:
                            res.add((sd_, "<?>"))
                    return res
                for sd, cn in limits(t["args"][0], side_of(bi)):
                    got.setdefault(sd, set()).add(cn)
                # a definition outside both branches must not fix the limit (both sides would get it)
                ok = got.get("true") == {LARGE} and got.get("false") == {LOW} and "both" not in got
                R.check(ok, "C15.R2", "C15.R2:%s:selection" % SVC, q.where(B, sb),
                        "layer chosen: true edge -> %s, false edge -> %s" % (sorted(x.rsplit('::', 1)[-1] for x in got.get("true", [])),
                                                                            sorted(x.rsplit('::', 1)[-1] for x in got.get("false", []))),
                        "limit layer selection is %s (expected true->LARGE, false->LOW)" % {k: sorted(v) for k, v in got.items()})
                # the closure given to service_fn calls the handler
                cl = [o2 for o2 in B.origins(t["args"][1]) if o2[0] == "agg"]
                inner = F.fns.get(SVC + "::{closure#0}")
                okh = False
                if inner:
                    BI = mir.Body(inner, F)
                    okh = bool(BI.calls_named("ProxyServer::handle_new_http_request"))
                R.check(okh, "C15.R2", "C15.R2:%s:wraps-handler" % SVC, q.where(B, bi),
                        "the limited service wraps the closure that calls handle_new_http_request")
        # the value returned is the limited service's call on this request
        calls = B.calls_named("Service::call")
        okc = len(calls) == 1 and calls[0][3]["dest"]["l"] == 0 and \
            any(o[0] == "call" and q.ends(o[1], "ServiceBuilder::service_fn") for o in B.origins(calls[0][3]["args"][0]))
        R.check(okc, "C15.R2", "C15.R2:%s:request-goes-through-limited-service" % SVC, "-",
                "the request is dispatched through the limited tower service (RequestBodyLimit<..>::call)")
    hn = R.anchor(HNR, "C15.R2")
    if hn:
        ty = [l["ty"] for l in hn["locals"] if l.get("name") == "request"]
        R.check(any("::Limited<hyper::body::Incoming>" in t for t in ty), "C15.R2", "C15.R2:%s:handler-takes-limited-body" % HNR,
                "%s:%s" % (hn["file"], hn["line"]), "the handler's request type is Request<Limited<Incoming>> (body reads are capped)",
                "handler request type: %s" % ty)

    # which requests get the large limit: the exemption predicate accepts exactly the two documented uploads (shared with C04.R5)
    from rules.c04 import exemption_predicate
    from lib import cg as _cg
    exemption_predicate(F, R, _cg.get(F), "C15.R2")

    # ------------------------------------------------------------------ R3
    SC = "http::StatusCode::"
    for fid, label in ((HRS, "signing route"), (CONV, "exempt route (convert_request)")):
        fn = R.anchor(fid, "C15.R3")
        if not fn:
            continue
        B = mir.Body(fn, F)
        # the body source: the call that consumes into_parts().1 - BodyExt::collect, or a workspace helper that reads the frames itself
        col = []
        for c in B.calls:
            if c[1] == mir.POLL or not c[3]["args"]:
                continue
            ro = B.origins(c[3]["args"][0])
            if ro and all(o[0] == "call" and q.ends(o[1], "into_parts") and tuple(o[3][:1]) == ("1",) for o in ro):
                col.append(c)
        R.floor("C15.R3", len(col), 1, "body.collect() in the %s" % label)
        src_names = []
        for c in col:
            callee = c[2] or c[1]
            if q.ends(callee, "BodyExt::collect"):
                src_names.append("BodyExt::collect")
                R.check(True, "C15.R3", R.key("C15.R3", fid, "collects-request-body"), q.where(B, c[0]), "collect() reads the incoming (Limited) request body")
            elif callee in F.fns or F.body_of(callee):
                src_names.append(q.base_name(callee))
                reader_is_sound(F, R, callee)
            else:
                R.fail("C15.R3", R.key("C15.R3", fid, "collects-request-body"), q.where(B, c[0]),
                       "the request body is consumed by %s, which is neither BodyExt::collect nor an analysable workspace helper" % q.base_name(callee))
        imp, ref, ts = q.outcome_edges(B, q.from_call(*(src_names or ["BodyExt::collect"])), "Ok")
        if fid == HRS:
            sends = [c[0] for c in B.calls_named("HttpConnectionContext::send_request")]
            p = B.path([0], sends, cut_edges=imp)
            R.check(ts and sends and p is None, "C15.R3", "C15.R3:%s:collect-ok-dominates-send" % fid, "-",
                    "%s: the Ok edge of collect() dominates the send" % label, witness={"path_lines": B.path_lines(p)} if p else None)
            for e in sorted(ref):
                r = B.reach([e[1]])
                stat = set()
                for bi, w, rr, t in B.calls_named("ProxyServer::empty_response"):
                    if bi in r:
                        stat |= q.const_args(B, t, 0)
                R.check(not (r & set(sends)) and stat == {SC + "BAD_REQUEST"}, "C15.R3", R.key("C15.R3", fid, "err-refused"), q.where(B, e[0]),
                        "%s: collect() Err reaches no send and answers 400" % label, "Err edge: send reachable=%s statuses=%s" % (bool(r & set(sends)), sorted(stat)))
        else:
            okret = []
            for bi, b in enumerate(B.blocks):
                for s in b["stmts"]:
                    if s["k"] == "assign" and s["lhs"]["l"] == 0 and s["rv"]["k"] == "agg" and s["rv"].get("variant") == "Ok":
                        okret.append(bi)
            p = B.path([0], okret, cut_edges=imp)
            R.check(ts and okret and p is None, "C15.R3", "C15.R3:%s:ok-only-after-collect" % fid, "-",
                    "%s: Ok(request) is built only under the Ok edge of collect()" % label)
    if hn:
        B = mir.Body(hn, F)
        sends = [c[0] for c in B.calls_named("HttpConnectionContext::send_request")]
        imp, ref, ts = q.outcome_edges(B, q.from_call("ProxyServer::convert_request"), "Ok")
        p = B.path([0], sends, cut_edges=imp)
        R.check(ts and sends and p is None, "C15.R3", "C15.R3:%s:convert-ok-dominates-send" % HNR, "-",
                "exempt route: the Ok edge of convert_request() dominates the send")
        for e in sorted(ref):
            r = B.reach([e[1]])
            stat = set()
            for bi, w, rr, t in B.calls_named("ProxyServer::empty_response"):
                if bi in r:
                    stat |= q.const_args(B, t, 0)
            R.check(not (r & set(sends)) and stat == {SC + "BAD_REQUEST"}, "C15.R3", R.key("C15.R3", HNR, "convert-err-refused"), q.where(B, e[0]),
                    "exempt route: convert_request() Err reaches no send and answers 400",
                    "Err edge: send reachable=%s statuses=%s" % (bool(r & set(sends)), sorted(stat)))
