"""C17 Agent upgrade is reversible – path tables, ordering, effect inventory (DESIGN §5 C17; Linux paths only)."""
from lib import cg, mir, q, sympath

ST = "proxy_agent_setup::"
EXT = "ProxyAgentExt::"
SH = "proxy_agent_shared::"

EXE = "/usr/sbin/azure-proxy-agent"
CONFIG = "/etc/azure/proxy-agent.json"
EBPF = "/usr/lib/azure-proxy-agent/ebpf_cgroup.o"
UNIT = "/usr/lib/systemd/system/azure-proxy-agent.service"
BK = "<EXE_DIR>/ProxyAgent/Backup"
PKG = "<EXE_DIR>/ProxyAgent"
INSTALLED = {EXE, CONFIG, EBPF}


def is_log(e):
    """effect performed by / on behalf of the tool's own logger"""
    chain = e[4] if len(e) > 4 else (e[3],)
    return any(c.startswith(SH + "logger::") or c.startswith(ST + "logger::") for c in chain)


def one(s):
    return next(iter(s)) if len(s) == 1 else "|".join(sorted(s))


def copies(effs):
    return {(one(e[1][0]), one(e[1][1])) for e in effs if e[0] == "copy" and not is_log(e)}


def run(F, R, tier):
    R.explanation = (
        "Symbolic path evaluation (constants, PathBuf::from/join, helper functions expanded interprocedurally, format!) of every fs-mutating "
        "and process-spawning call reachable from the setup tool's commands, compared with tables: backup copies exactly the three installed "
        "files to Backup/Package/<name> and the unit file to Backup/; copy_files is the inverse map with its source folder as root; delete "
        "removes the same three paths; restore/install call them with the backup / packaged folder; ordering by dominance in main (stop before "
        "copy, setup_service after; restore behind the backup-exists test; purge deletes only the backup; uninstall deletes files only in "
        "package mode; unit file copied before enable/start); and the extension drives backup before install, restore only on Error, purge "
        "only on Success. Linux cfg only; byte identity of fs::copy, systemctl behaviour and arbitrary command sequences are not decided.")
    for rid, txt in (("C17.R1", "path tables of backup / copy / delete agree"), ("C17.R2", "ordering in main and setup_service"),
                     ("C17.R3", "effect inventory: targets only under the system locations, the backup folder and the tool's log"),
                     ("C17.R4", "the extension drives backup -> install, restore on Error, purge on Success"),
                     ("C17.R5", "each copy/delete of the tables is attempted on every path of the table functions and the primitives")):
        R.rule(rid, txt)
    R.not_decided += ["byte identity of fs::copy", "what systemctl does", "behaviour for arbitrary command sequences beyond the per-command tables",
                      "the Windows copy routines (cfg(windows), not compiled here)"]
    G = cg.get(F)
    S = sympath.Sym(F, ["proxy_agent_setup", "proxy_agent_shared"])

    # ------------------------------------------------------------------ R1
    need = [ST + "linux::backup_files", ST + "linux::copy_files", ST + "linux::delete_files", ST + "linux::setup_service"]
    ok_anchor = all(R.anchor(n, "C17.R1") for n in need)
    if ok_anchor:
        bk = copies(S.effects(ST + "linux::backup_files"))
        exp_bk = {(CONFIG, BK + "/Package/proxy-agent.json"), (EBPF, BK + "/Package/ebpf_cgroup.o"), (EXE, BK + "/Package/azure-proxy-agent"),
                  (UNIT, BK + "/azure-proxy-agent.service")}
        R.check(bk == exp_bk, "C17.R1", "C17.R1:%slinux::backup_files:table" % ST, "proxy_agent_setup/src/linux.rs",
                "backup copies exactly: %s" % sorted(bk), "backup copies %s; expected %s" % (sorted(bk), sorted(exp_bk)))
        # copy_files with a symbolic source root
        cp = copies(S.effects(ST + "linux::copy_files", {"src_folder": {"<SRC>"}}))
        exp_cp = {("<SRC>/azure-proxy-agent", EXE), ("<SRC>/proxy-agent.json", CONFIG), ("<SRC>/ebpf_cgroup.o", EBPF)}
        R.check(cp == exp_cp, "C17.R1", "C17.R1:%slinux::copy_files:table" % ST, "proxy_agent_setup/src/linux.rs",
                "copy_files(src) copies exactly: %s" % sorted(cp), "copy_files copies %s; expected %s" % (sorted(cp), sorted(exp_cp)))
        # inverse: what backup put under Backup/Package comes back to where it was taken from
        inv_ok = all((dst.replace(BK + "/Package", "<SRC>"), src) in cp for (src, dst) in bk if dst.startswith(BK + "/Package/"))
        R.check(inv_ok and len([1 for s, d in bk if d.startswith(BK + "/Package/")]) == 3, "C17.R1", "C17.R1:backup-copy-inverse", "-",
                "copy_files(Backup/Package) is the inverse of backup_files for the three installed files (same basenames both ways)")
        us = copies(S.effects(ST + "linux::setup_service", {"service_name": {"azure-proxy-agent"}, "service_file_dir": {"<DIR>"}}))
        R.check(us == {("<DIR>/azure-proxy-agent.service", UNIT)}, "C17.R1", "C17.R1:%slinux::setup_service:table" % ST, "-",
                "setup_service(name, dir) copies dir/<name>.service to the systemd unit directory: %s" % sorted(us), "setup_service copies %s" % sorted(us))
        dl = {one(e[1][0]) for e in S.effects(ST + "linux::delete_files") if e[0] == "remove_file" and not is_log(e)}
        R.check(dl == INSTALLED, "C17.R1", "C17.R1:%slinux::delete_files:table" % ST, "-", "delete_files removes exactly %s" % sorted(dl),
                "delete_files removes %s; expected %s" % (sorted(dl), sorted(INSTALLED)))
    # restore / install feed them with the right folders
    main = F.fns.get(ST + "main::{closure#0}")
    if not main:
        R.fail("C17.R1", "C17.R1:anchor-missing:main", "-", "anchor-missing=proxy_agent_setup::main::{closure#0}")
        return
    R.touched(main["id"])
    for fname, root in (("restore_proxy_agent", BK + "/Package"), ("copy_proxy_agent", PKG)):
        fn = R.anchor(ST + fname, "C17.R1")
        if fn:
            cp = copies(S.effects(fn["id"]))
            exp = {(root + "/azure-proxy-agent", EXE), (root + "/proxy-agent.json", CONFIG), (root + "/ebpf_cgroup.o", EBPF)}
            R.check(cp == exp, "C17.R1", "C17.R1:%s:table" % fn["id"], "%s:%s" % (fn["file"], fn["line"]),
                    "%s copies from %s onto the three system paths" % (fname, root), "%s copies %s; expected %s" % (fname, sorted(cp), sorted(exp)))

    # ------------------------------------------------------------------ R5 the table is a must-set, not a may-set
    # every call site that leads to a copy / remove_file of the tables above lies on every entry->return path of its function
    # (the copy/delete primitives never skip the attempt; accepted skip idiom: the *source* does not exist)
    from lib import paths as P
    MUT = {"std::fs::copy", "std::fs::remove_file"}
    memo = {}

    def effectful(fid, seen=()):
        if fid in memo:
            return memo[fid]
        if fid in seen or fid not in F.fns or not fid.startswith(ST) or fid.startswith(ST + "logger::"):
            return False
        Bf = mir.Body(F.fns[fid], F)
        res = any(q.base_name(r or w or "") in MUT or effectful(r or w, seen + (fid,)) for bi, w, r, t in Bf.calls if w != mir.POLL)
        memo[fid] = res
        return res
    n_sites = 0
    work = [ST + "linux::backup_files", ST + "linux::copy_files", ST + "linux::delete_files"]
    done = set()
    while work:
        fid = work.pop()
        if fid in done or fid not in F.fns:
            continue
        done.add(fid)
        Bf = mir.Body(F.fns[fid], F)
        R.touched(fid)
        sites = []
        for bi, w, r, t in Bf.calls:
            if w == mir.POLL:
                continue
            nm = q.base_name(r or w or "")
            if nm in MUT or effectful(r or w):
                sites.append((bi, nm))
                if nm not in MUT:
                    work.append(r or w)
        try:
            allp = P.enumerate_paths(Bf, allow_loops=True)
        except P.TooManyPaths:
            R.fail("C17.R5", "C17.R5:%s:too-many-paths" % fid, "-", "cannot enumerate the paths of %s" % fid)
            continue
        for k, (bi, nm) in enumerate(sites):
            n_sites += 1
            bad = []
            for pth in allp:
                if any(b == bi for b, _ in pth):
                    continue
                atoms = P.path_atoms(Bf, F, pth)
                src_missing = any(v is False and d.startswith("call ") and d.split("(")[0].endswith(("::exists", "::is_file", "::try_exists"))
                                  and "param:src" in d and "param:dst" not in d for d, v in atoms)
                if not src_missing:
                    bad.append(atoms)
            R.check(not bad, "C17.R5", "C17.R5:%s:must:%s#%d" % (fid, nm.rsplit("::", 1)[-1], k), q.where(Bf, bi),
                    "%s: every path attempts %s" % (fid.replace(ST, ""), nm),
                    "%s can return without attempting %s, e.g. under %s" % (fid.replace(ST, ""), nm, bad[0] if bad else ""))
    R.floor("C17.R5", n_sites, 12, "call sites leading to a copy/delete of the tables, each a must-pass of its function")

    # ------------------------------------------------------------------ R7 a copy's destination folder exists when the copy runs
    # the copy primitives only log a failed fs::copy; a copy into a folder that no earlier step of the same command created fails on a
    # fresh machine and the command still exits 0 (backup without the unit file => restore cannot reinstate it)
    R.rule("C17.R7", "each copy's destination folder is an OS folder or was created earlier in the same command")
    OS_DIRS = {"/usr/sbin", "/usr/lib/systemd/system"}
    n7 = 0
    for fid, env in ((ST + "linux::backup_files", None), (ST + "linux::copy_files", {"src_folder": {"<SRC>"}}),
                     (ST + "linux::setup_service", {"service_name": {"azure-proxy-agent"}, "service_file_dir": {"<DIR>"}})):
        if fid not in F.fns:
            continue
        made = set()
        for e in S.effects(fid, env) if env else S.effects(fid):
            if is_log(e):
                continue
            if e[0] in ("create_dir_all", "create_dir"):
                made |= set(e[1][0])
            elif e[0] == "copy":
                for dst in e[1][1]:
                    parent = dst.rsplit("/", 1)[0]
                    n7 += 1
                    ok = parent in OS_DIRS or any(m == parent or m.startswith(parent + "/") for m in made)
                    R.check(ok, "C17.R7", "C17.R7:%s:dest-folder:%s" % (fid, dst), e[2],
                            "%s: the folder of %s exists when the copy runs (created earlier: %s)" % (fid.replace(ST, ""), dst, parent in OS_DIRS and "OS folder" or "yes"),
                            "%s copies to %s before anything created %s: on a fresh machine the copy fails (only logged) and the file is missing "
                            "from then on" % (fid.replace(ST, ""), dst, parent))
    R.floor("C17.R7", n7, 8, "copies with a destination folder obligation")

    # ------------------------------------------------------------------ R6 what can abort uninstall before the files are deleted
    # main's uninstall_service() exits the process when service::stop_and_delete_service fails, i.e. *before* delete_package. The only
    # accepted failure source on that path is "systemctl could not be spawned" (Command::output); a non-zero systemctl exit status,
    # a missing unit file etc. must not abort (they are the normal state of a partially installed agent).
    R.rule("C17.R6", "failure sources that abort uninstall before delete_package: only a process-spawn failure")
    us = R.anchor(ST + "uninstall_service", "C17.R6")
    if us:
        Bu = mir.Body(F.body_of(ST + "uninstall_service"), F)
        roots = [r or w for bi, w, r, t in Bu.calls if w != mir.POLL and (r or w or "").startswith(SH + "service::")]
        R.check(len(roots) == 1 and q.ends(roots[0], "stop_and_delete_service"), "C17.R6", "C17.R6:uninstall_service:root", "-",
                "uninstall_service depends on service::stop_and_delete_service only", "service calls of uninstall_service: %s" % roots)
        work, seen6, leaves = list(roots), set(), set()
        while work:
            fid = work.pop()
            if fid in seen6:
                continue
            seen6.add(fid)
            fn = F.body_of(fid)
            if fn is None:
                R.fail("C17.R6", "C17.R6:%s:no-body" % fid, "-", "no MIR for %s" % fid)
                continue
            Bf = mir.Body(fn, F)
            R.touched(fn["id"])
            for o in sorted(Bf.origins({"k": "copy", "p": {"l": 0, "p": []}}), key=str):
                if o[0] == "agg" and str(o[1]).endswith("Result::Ok"):
                    continue
                if o[0] == "call" and (o[1].startswith(SH + "service::") or o[1] == SH + "misc_helpers::execute_command"):
                    work.append(o[1])
                    continue
                if o[0] == "call" and q.ends(o[1], "std::process::Command::output", "std::process::Command::spawn", "std::process::Command::status"):
                    leaves.add(q.base_name(o[1]))
                    continue
                R.fail("C17.R6", "C17.R6:%s:failure-source:%s" % (fn["id"], o[1] if o[0] == "call" else o[0] + ":" + str(o[1])),
                       "%s:%s" % (fn["file"], fn["line"]),
                       "%s can fail for a reason other than a spawn failure (result origin %s): uninstall then exits before delete_package and "
                       "the installed files stay" % (fn["id"].replace(SH, ""), str(o)))
        R.check(bool(leaves), "C17.R6", "C17.R6:leaf", "-", "all failures on the uninstall path come from %s (%d functions followed)" % (sorted(leaves), len(seen6)))
        R.floor("C17.R6", len(seen6), 6, "service functions on the uninstall path")

    # ------------------------------------------------------------------ R2 ordering in main
    B = mir.Body(main, F)
    arms = q.actor_arms(B, F, ST + "args::Command")
    R.check(set(arms) >= {"Backup", "Restore", "Uninstall", "Purge", "Install"}, "C17.R2", "C17.R2:main:arms", "-",
            "main dispatches on all five commands: %s" % sorted(arms))

    def calls_in(region, name):
        return [c[0] for c in B.calls_named(name) if c[0] in region]

    def own(arm):
        sb, entry, region = arms[arm]
        return {b for b in region if all(b not in a[2] for n2, a in arms.items() if n2 != arm)}, entry
    for arm, copier, unit_dir in (("Install", "copy_proxy_agent", "<EXE_DIR>"), ("Restore", "restore_proxy_agent", BK)):
        if arm not in arms:
            continue
        region, entry = own(arm)
        stop = calls_in(region, "stop_service")
        cp = calls_in(region, copier)
        su = calls_in(region, "setup_service")
        ok = len(stop) == 1 and len(cp) == 1 and len(su) == 1
        if ok:
            ok = B.path([entry], cp, cut_blocks=stop) is None and B.path([entry], su, cut_blocks=cp) is None
        R.check(ok, "C17.R2", "C17.R2:main:%s:stop-copy-setup" % arm, q.where(B, entry),
                "%s: stop_service precedes %s, which precedes setup_service (unit file -> enable -> start)" % (arm, copier),
                "%s: ordering stop -> copy -> setup_service is broken (stop=%s copy=%s setup=%s)" % (arm, stop, cp, su))
        for sb_ in su:
            t = B.blocks[sb_]["term"]
            v = S.sym(B, t["args"][1], {})
            R.check(v == {unit_dir}, "C17.R2", "C17.R2:main:%s:unit-file-source" % arm, q.where(B, sb_),
                    "%s takes the unit file from %s" % (arm, unit_dir), "%s takes the unit file from %s; expected %s" % (arm, sorted(v), unit_dir))
    if "Restore" in arms:
        region, entry = own("Restore")
        tests = q.bool_call_edges(B, ["check_backup_exists"])
        effects_ = calls_in(region, "stop_service") + calls_in(region, "restore_proxy_agent") + calls_in(region, "setup_service") + calls_in(region, "delete_backup_folder")
        ok = len(tests) == 1 and effects_ and B.path([entry], effects_, cut_edges=[tests[0][1]]) is None
        R.check(ok, "C17.R2", "C17.R2:main:Restore:needs-backup", q.where(B, tests[0][0]) if tests else "-",
                "Restore: every effect is reachable only through check_backup_exists() == true")
        # helper contract: "a backup exists" means the backed-up agent executable exists
        cbe = R.anchor(ST + "check_backup_exists", "C17.R2")
        if cbe:
            Bc = mir.Body(cbe, F)
            ex = q.bool_call_edges(Bc, ["Path::exists", "exists"])
            okc, det = len(ex) == 1, "exists() tests: %d" % len(ex)
            if okc:
                sb_, tr_, fa_, cb_, args_ = ex[0]
                tgt = S.sym(Bc, args_[0], {})
                trues = [bi for bi, blk in enumerate(Bc.blocks) for s in blk["stmts"]
                         if s["k"] == "assign" and s["lhs"]["l"] == 0 and s["rv"]["k"] == "use" and s["rv"]["o"]["k"] == "const" and s["rv"]["o"].get("val") in (1, True)]
                okc = tgt == {BK + "/Package/azure-proxy-agent"} and bool(trues) and Bc.path([0], trues, cut_edges=[tr_]) is None
                det = "tests %s; true only if it exists: %s" % (sorted(tgt), bool(trues) and Bc.path([0], trues, cut_edges=[tr_]) is None)
            R.check(okc, "C17.R2", "C17.R2:check_backup_exists:contract", "%s:%s" % (cbe["file"], cbe["line"]),
                    "check_backup_exists() is true only if %s/Package/azure-proxy-agent exists" % BK, "check_backup_exists changed: %s" % det)
    if "Purge" in arms:
        region, entry = own("Purge")
        callees = {q.base_name(c[2] or c[1] or "").rsplit("::", 1)[-1] for c in B.calls if c[0] in region and c[1] != mir.POLL
                   and (c[2] or c[1] or "").startswith(ST)}
        R.check(callees == {"delete_backup_folder"}, "C17.R2", "C17.R2:main:Purge:only-backup", q.where(B, entry),
                "Purge calls only delete_backup_folder", "Purge calls %s" % sorted(callees))
        fn = F.fns.get(ST + "delete_backup_folder")
        if fn:
            rm = {one(e[1][0]) for e in S.effects(fn["id"]) if e[0] in ("remove_dir_all", "remove_file") and not is_log(e)}
            R.check(rm == {BK}, "C17.R2", "C17.R2:delete_backup_folder:target", "-", "delete_backup_folder removes exactly %s" % sorted(rm))
    if "Uninstall" in arms:
        region, entry = own("Uninstall")
        dp = calls_in(region, "delete_package")
        guards = []
        for sb in B.switch_blocks():
            e, tr, fa = B.truth_edges(sb)
            if sb in region and e[0] == "call" and q.ends(e[1], "eq", "ne") and len(e[2]) == 2:
                vs = [q.operand_variant(B, a) for a in e[2]]
                if any(v and v[1] == "Package" for v in vs):
                    guards.append(tr if q.ends(e[1], "eq") else fa)
        R.check(dp and guards and B.path([entry], dp, cut_edges=guards) is None, "C17.R2", "C17.R2:main:Uninstall:package-mode-only", q.where(B, entry),
                "Uninstall deletes the installed files only when uninstall_mode == Package")
    if "Backup" in arms:
        region, entry = own("Backup")
        callees = {q.base_name(c[2] or c[1] or "").rsplit("::", 1)[-1] for c in B.calls if c[0] in region and c[1] != mir.POLL
                   and (c[2] or c[1] or "").startswith(ST)}
        R.check(callees == {"backup_proxy_agent"}, "C17.R2", "C17.R2:main:Backup:only-backup", q.where(B, entry), "Backup calls only backup_proxy_agent")
    ss = F.fns.get(ST + "setup_service::{closure#0}")
    if ss:
        R.touched(ss["id"])
        Bs = mir.Body(ss, F)
        unit = [c[0] for c in Bs.calls_named("linux::setup_service")]
        inst = [c[0] for c in Bs.calls_named("service::install_service")]
        start = [c[0] for c in Bs.calls_named("service::start_service")]
        ok = len(unit) == 1 and len(inst) == 1 and len(start) == 1 and Bs.path([0], inst, cut_blocks=unit) is None and Bs.path([0], start, cut_blocks=inst) is None
        R.check(ok, "C17.R2", "C17.R2:setup_service:unit-enable-start", "-", "setup_service: unit file copied, then install (unmask/reload/enable), then start")

    # ------------------------------------------------------------------ R3 effect inventory
    effs = S.effects(main["id"])
    allowed_prefix = (BK, "/usr/sbin", "/etc/azure", "/usr/lib/azure-proxy-agent", "/usr/lib/systemd/system/")
    seen = set()
    n_fs = n_spawn = 0
    for e_ in effs:
        kind, args, where, owner = e_[:4]
        if is_log(e_):
            continue
        if kind == "spawn":
            cmd = one(args[0])
            argv = list(args[1])
            key = ("spawn", cmd, tuple(argv))
            if key in seen:
                continue
            seen.add(key)
            n_spawn += 1
            ok = (cmd == "systemctl" and argv and argv[0] in ("stop", "start", "unmask", "disable", "daemon-reload", "enable")
                  and all(a in ("azure-proxy-agent", "<param:service_name>") or a.startswith("<param:") for a in argv[1:])) or \
                (owner.endswith("get_proxy_agent_version") and argv == ["--version"] and cmd.endswith("/azure-proxy-agent"))
            R.check(ok, "C17.R3", "C17.R3:spawn:%s:%s" % (cmd, "+".join(argv)), where, "spawns `%s %s`" % (cmd, " ".join(argv)),
                    "the setup tool spawns an unreviewed process: %s %s (in %s)" % (cmd, argv, owner))
            continue
        targets = [one(a) for a in args]
        tgt = targets[-1]
        key = (kind, tuple(targets))
        if key in seen:
            continue
        seen.add(key)
        n_fs += 1
        ok = tgt.startswith(allowed_prefix) or (kind == "create_dir_all" and (tgt.startswith(allowed_prefix) or tgt in ("/usr", "/etc", "/usr/lib")))
        R.check(ok, "C17.R3", "C17.R3:fs:%s:%s" % (kind, tgt), where, "%s %s" % (kind, " -> ".join(targets)),
                "the setup tool performs %s on %s (in %s), outside the installed locations, the backup folder and its log" % (kind, targets, owner))
    R.floor("C17.R3", n_fs, 10, "distinct fs effects of the setup tool")
    R.floor("C17.R3", n_spawn, 6, "distinct process spawns of the setup tool")

    # ------------------------------------------------------------------ R4 extension
    mt = F.fns.get(EXT + "service_main::monitor_thread::{closure#0}")
    if not mt:
        R.fail("C17.R4", "C17.R4:anchor-missing:monitor_thread", "-", "anchor-missing=ProxyAgentExt::service_main::monitor_thread::{closure#0}")
    else:
        R.touched(mt["id"])
        Bm = mir.Body(mt, F)
        bkc = [c[0] for c in Bm.calls_named("service_main::backup_proxyagent")]
        inst = []
        for bi, w, r, t in Bm.calls_named("Command::arg"):
            a = t["args"][1]
            vals = {o[2] for o in Bm.origins(a) if o[0] == "const"}
            if "install" in vals:
                inst.append(bi)
        outp = [c[0] for c in Bm.calls_named("Command::output")]
        ok = len(bkc) == 1 and len(inst) == 1 and Bm.path([0], inst, cut_blocks=bkc) is None
        R.check(ok, "C17.R4", "C17.R4:monitor_thread:backup-before-install", q.where(Bm, bkc[0]) if bkc else "-",
                "the extension runs the setup tool's backup command on every path to its install command")
    bp = F.fns.get(EXT + "service_main::backup_proxyagent")
    if bp:
        Bb = mir.Body(bp, F)
        vals = set()
        for bi, w, r, t in Bb.calls_named("Command::arg"):
            vals |= {o[2] for o in Bb.origins(t["args"][1]) if o[0] == "const"}
        R.check(vals == {"backup"}, "C17.R4", "C17.R4:backup_proxyagent:arg", "-", "backup_proxyagent runs `<setup tool> backup`", "args: %s" % sorted(vals))
    rp = R.anchor(EXT + "service_main::restore_purge_proxyagent", "C17.R4")
    if rp:
        Br = mir.Body(rp, F)
        guards = {}
        for sb in Br.switch_blocks():
            e, tr, fa = Br.truth_edges(sb)
            if e[0] == "call" and q.ends(e[1], "eq", "ne") and len(e[2]) == 2:
                names = set()
                for a in e[2]:
                    for o in Br.origins(a):
                        if o[0] == "const" and o[1]:
                            names.add(o[1].rsplit("::", 1)[-1])
                        elif o[0] == "promoted":
                            for c in q.promoted_consts(Br.fn, o[1]):
                                names.add((c[0] or "").rsplit("::", 1)[-1])
                for nm in ("ERROR_STATUS", "SUCCESS_STATUS"):
                    if nm in names:
                        guards[nm] = tr if q.ends(e[1], "eq") else fa
        cmds = {}
        for bi, w, r, t in Br.calls_named("Command::arg"):
            for o in Br.origins(t["args"][1]):
                if o[0] == "const" and isinstance(o[2], str):
                    cmds[o[2]] = bi
        ok = set(cmds) == {"restore", "purge"} and "ERROR_STATUS" in guards and "SUCCESS_STATUS" in guards
        if ok:
            ok = Br.path([0], [cmds["restore"]], cut_edges=[guards["ERROR_STATUS"]]) is None and \
                Br.path([0], [cmds["purge"]], cut_edges=[guards["SUCCESS_STATUS"]]) is None and \
                cmds["purge"] not in Br.reach([guards["ERROR_STATUS"][1]])
        R.check(ok, "C17.R4", "C17.R4:restore_purge_proxyagent:pairing", "%s:%s" % (rp["file"], rp["line"]),
                "`restore` is run only on status == ERROR_STATUS, `purge` only on status == SUCCESS_STATUS",
                "restore/purge pairing broken: commands %s guards %s" % (sorted(cmds), sorted(guards)))
