"""C14 The proxy is transparent – decided clauses only (DESIGN §5 C14)."""
from lib import cg, mir, q
from rules.c05 import base_local, header_mutations
from rules.c07 import owner_types

PS = "azure_proxy_agent::proxy::proxy_server::ProxyServer::"
PC = "azure_proxy_agent::proxy::proxy_connection::"
HNR, HRS, CONV, FWD = PS + "handle_new_http_request", PS + "handle_request_with_signature", PS + "convert_request", PS + "forward_response"
K = "azure_proxy_agent::common::constants::"

IDENTITY_U8 = ("core::num::<impl u8>::to_be", "core::num::<impl u8>::to_le", "core::num::<impl u8>::from_be",
               "core::num::<impl u8>::from_le", "std::clone::Clone::clone", "<u8 as std::clone::Clone>::clone")
MAPPER_ALLOWED = ("Frame::into_data", "Deref::deref", "<hyper::body::Bytes as std::ops::Deref>::deref", "core::slice::iter", "Iterator::map", "Iterator::collect", "Iterator::copied",
                  "Iterator::cloned", "Frame::data", "Bytes::new", "ConnectionLogger::write", "fmt::format", "must_use", "Arguments::new",
                  "Argument::new_debug", "Argument::new_display", "Bytes::clone", "Clone::clone", "Into::into", "From::from")


def request_mutators(B):
    """calls of http::Request::*_mut / http::request::Parts field writes; returns [(block, what, base local)]"""
    out = []
    for bi, w, r, t in B.calls:
        b = q.base_name(w or "")
        if b.startswith("http::Request::") and b.endswith("_mut") and t["args"]:
            out.append((bi, b.rsplit("::", 1)[-1], base_local(B, t["args"][0])))
        if b.startswith("http::request::Builder::"):
            out.append((bi, "Builder::" + b.rsplit("::", 1)[-1], None))
    for bi, blk in enumerate(B.blocks):
        if blk["cleanup"]:
            continue
        for s in blk["stmts"]:
            if s["k"] == "assign" and s["lhs"]["p"]:
                for owner, fld in owner_types(B, s["lhs"]):
                    if owner.startswith("http::request::Parts") or owner.startswith("http::response::Parts"):
                        out.append((bi, "Parts.%s=" % fld, s["lhs"]["l"]))
    return out


def run(F, R, tier):
    # body readers / `&mut Request` helpers are recognised by their own contracts (reader_is_sound, inline.with_request_helpers)
    from lib import facts as _facts
    F = R.F = _facts.raw_view(F)
    R.explanation = (
        "Necessary structural conditions of transparency (byte-for-byte relay through hyper itself is a runtime property and is "
        "NOT decided): (R1) mutation inventory of the forwarded request – only HeaderMap::insert of the three proxy-owned names, no "
        "uri/method/version/extensions mutation, request rebuilt from the original head plus the collected body on both routes; "
        "(R2) the response is rebuilt from the upstream head, only the marker header is inserted, status_mut is never called, and the "
        "frame mapper applies only identity functions on u8; (R3) one upstream connection per client connection, every upstream send "
        "under the per-connection tokio Mutex.")
    R.rule("C14.R1", "request mutation inventory + rebuild from the original head and the collected body")
    R.rule("C14.R2", "response rebuilt from the upstream head; only the marker header inserted; data mapper is an identity on bytes")
    R.rule("C14.R3", "one upstream connection per client connection, sends serialised by the connection's mutex")
    R.not_decided += ["byte transparency, framing, chunk boundaries, body sizes, pipelining, trailers",
                      "response/request pairing inside hyper"]
    G = cg.get(F)

    # ------------------------------------------------------------------ R1
    for fid in (HNR, HRS, CONV):
        fn = R.anchor(fid, "C14.R1")
        if not fn:
            continue
        from lib import inline
        B = mir.Body(inline.with_request_helpers(F, fn), F)
        bad = [(bi, what) for bi, what, loc in request_mutators(B) if what != "headers_mut"]
        R.check(not bad, "C14.R1", "C14.R1:%s:no-uri-method-version-mutation" % fid, "%s:%s" % (fn["file"], fn["line"]),
                "no uri_mut/method_mut/version_mut/extensions_mut/body_mut call and no write to a request head field",
                "request mutated via %s" % [(w, q.where(B, b)) for b, w in bad])
        muts = header_mutations(B)
        nonins = [(bi, m) for bi, m, mo, t in muts if m != "insert"]
        R.check(not nonins, "C14.R1", "C14.R1:%s:header-mutations-are-inserts" % fid, "-",
                "every header mutation is an insert (%d site(s)); names are checked by C05.R4" % len(muts),
                "header mutators other than insert: %s" % nonins)
    from rules.c04 import send_chain_untouched
    send_chain_untouched(F, R, G, "C14.R1")
    cv = F.body_of(CONV)
    if cv:
        B = mir.Body(cv, F)
        fp = B.calls_named("Request::from_parts")
        ok = False
        detail = "convert_request does not rebuild with Request::from_parts"
        if len(fp) == 1:
            t = fp[0][3]
            ho = B.origins(t["args"][0])
            okh = ho and all(o[0] == "call" and q.ends(o[1], "into_parts") and tuple(o[3][:1]) == ("0",) for o in ho)
            bo = set()
            for o in B.origins(t["args"][1]):
                if o[0] == "call" and q.ends(o[1], "Full::new"):
                    bo |= B.origins(B.blocks[o[2]]["term"]["args"][0])
                else:
                    bo.add(o)
            from rules.c15 import is_whole_body
            okb = is_whole_body(B, F, bo)
            ok = okh and okb and t["dest"]["l"] is not None
            detail = "convert_request = from_parts(original head, Full::new(collected body))"
            if not ok:
                detail = "convert_request rebuilds from head %s body %s" % (sorted(map(str, ho)), sorted(map(str, bo)))
        R.check(ok, "C14.R1", "C14.R1:%s:rebuild" % CONV, "%s:%s" % (cv["file"], cv["line"]), detail)
    hs = F.body_of(HRS)
    if hs:
        from lib import inline
        B = mir.Body(inline.with_request_helpers(F, hs), F)
        fp = B.calls_named("Request::from_parts")
        ok = False
        if len(fp) == 1:
            t = fp[0][3]
            ho = B.origins(t["args"][0])
            okh = ho and all(o[0] == "call" and q.ends(o[1], "into_parts") and tuple(o[3][:1]) == ("0",) for o in ho)
            bo = set()
            for o in B.origins(t["args"][1]):
                if o[0] == "call" and q.ends(o[1], "Full::new"):
                    bo |= B.origins(B.blocks[o[2]]["term"]["args"][0])
                else:
                    bo.add(o)
            from rules.c15 import is_whole_body
            ok = okh and is_whole_body(B, F, bo)
        R.check(ok, "C14.R1", "C14.R1:%s:rebuild" % HRS, "-", "signing route = from_parts(original head, Full::new(collected body))")

    # ------------------------------------------------------------------ R2
    fw = R.anchor(FWD, "C14.R2")
    if fw:
        B = mir.Body(fw, F)
        fp = B.calls_named("Response::from_parts")
        ip = B.calls_named("Response::into_parts")
        ok = False
        if len(fp) == 1 and len(ip) == 1:
            t = fp[0][3]
            ho = B.origins(t["args"][0])
            okh = ho and all(o[0] == "call" and q.ends(o[1], "Response::into_parts") and tuple(o[3][:1]) == ("0",) for o in ho)
            # body: boxed(map_frame(body .1, mapper))
            okb = False
            for o in B.origins(t["args"][1]):
                if o[0] == "call" and q.ends(o[1], "BodyExt::boxed"):
                    for o2 in B.origins(B.blocks[o[2]]["term"]["args"][0]):
                        if o2[0] == "call" and q.ends(o2[1], "BodyExt::map_frame"):
                            src = B.origins(B.blocks[o2[2]]["term"]["args"][0])
                            okb = src and all(x[0] == "call" and q.ends(x[1], "Response::into_parts") and tuple(x[3][:1]) == ("1",) for x in src)
            # into_parts of the upstream response (Ok payload of the proxy_response parameter)
            ro = B.origins(ip[0][3]["args"][0])
            okr = ro and all(o[0] == "param" and o[1] == "proxy_response" for o in ro)
            ok = okh and okb and okr
        R.check(ok, "C14.R2", "C14.R2:%s:rebuild" % FWD, "%s:%s" % (fw["file"], fw["line"]),
                "client response = Response::from_parts(upstream head, map_frame(upstream body).boxed())")
        resp_local = fp[0][3]["dest"]["l"] if fp else None
        sm = [c for c in B.calls_named("Response::status_mut", "Response::version_mut", "Response::extensions_mut", "Response::body_mut")]
        R.check(not sm, "C14.R2", "C14.R2:%s:no-status-mutation" % FWD, "-", "status_mut/version_mut/extensions_mut/body_mut are never called on the relayed response",
                "response mutated: %s" % [q.base_name(c[1]) for c in sm])
        muts = header_mutations(B)
        for bi, m, mo, t in muts:
            names = set()
            for o in B.origins(t["args"][1]):
                if o[0] == "call" and q.ends(o[1], "HeaderName::from_static"):
                    names |= q.const_args(B, B.blocks[o[2]]["term"], 0)
            R.check(m == "insert" and names == {K + "AUTHORIZATION_HEADER"}, "C14.R2", R.key("C14.R2", FWD, "header-mutation"), q.where(B, bi),
                    "only response header mutation: insert(marker = AUTHORIZATION_HEADER)", "response header mutation %s(%s)" % (m, sorted(names)))
        R.floor("C14.R2", len(muts), 1, "marker header insert on the response")
        for bi, blk in enumerate(B.blocks):
            for s in blk["stmts"]:
                if s["k"] == "assign" and s["lhs"]["p"]:
                    for owner, fld in owner_types(B, s["lhs"]):
                        if owner.startswith("http::response::Parts"):
                            R.fail("C14.R2", R.key("C14.R2", FWD, "head-field-write"), "%s:%s" % (fw["file"], s["line"]),
                                   "upstream response head field `%s` is overwritten" % fld)
    # the frame mapper is whatever closure is handed to map_frame() in forward_response, the per-byte closure whatever closure that
    # mapper (or a helper analysed in place inside it) hands to Iterator::map - found by role, not by their position among the closures
    def closure_arg(fn_, *callees):
        if fn_ is None:
            return None
        Bx = mir.Body(fn_, F)
        for bi_, w_, r_, t_ in Bx.calls_named(*callees):
            for a_ in t_["args"][1:]:
                for o_ in Bx.origins(a_):
                    if o_[0] == "agg" and o_[1] in F.fns and F.fns[o_[1]]["kind"] == "Closure":
                        return F.fns[o_[1]]
        return None
    from rules.c02 import descendants
    mapper = None
    for f_ in [F.body_of(FWD)] + descendants(F, (F.body_of(FWD) or {"id": FWD})["id"]):
        mapper = mapper or closure_arg(f_, "BodyExt::map_frame")
    data_cl = closure_arg(mapper, "Iterator::map")
    if mapper and not data_cl:
        # no per-byte step at all: the data frame's bytes are handed on as they are
        BM = mir.Body(mapper, F)
        R.touched(mapper["id"])
        fd = BM.calls_named("Frame::data")
        okf = False
        if len(fd) == 1:
            org = BM.origins(fd[0][3]["args"][0])
            okf = any(o[0] == "call" and q.ends(o[1], "Frame::into_data") for o in org) and \
                all(o[0] == "call" and q.ends(o[1], "Frame::into_data", "Bytes::new") for o in org)
        mc = [q.base_name(r or w) for bi, w, r, t in BM.calls]
        badm = [c for c in mc if not any(q.ends(c, a) for a in MAPPER_ALLOWED)]
        R.check(okf and not badm, "C14.R2", "C14.R2:%s:data-flow" % mapper["id"], "-",
                "Frame::data(..) receives the bytes of frame.into_data() unchanged (or an empty Bytes for a non-data frame - observation)",
                "frame mapper: Frame::data receives %s; other operations %s" % (sorted(map(str, BM.origins(fd[0][3]["args"][0]))) if fd else "nothing", badm))
        R.observe("a non-data frame (trailers) is replaced by an empty data frame by the mapper")
    elif not mapper or not data_cl:
        R.fail("C14.R2", "C14.R2:anchor-missing:frame-mapper", "-", "anchor-missing=%s::{closure#0}::{closure#0}[::{closure#0}]" % FWD)
    else:
        R.touched(mapper["id"], data_cl["id"])
        BD = mir.Body(data_cl, F)
        calls = [q.base_name(r or w) for bi, w, r, t in BD.calls]
        arith = []
        for blk in BD.blocks:
            for s in blk["stmts"]:
                if s["k"] == "assign" and s["rv"]["k"] in ("bin", "un"):
                    arith.append(s["rv"]["op"])
                if s["k"] == "assign" and s["rv"]["k"] == "cast":
                    arith.append("cast")
            if blk["term"]["k"] == "assert":
                arith.append("assert")
        allowed = {q.base_name(x) for x in IDENTITY_U8}
        bad = [c for c in calls if c not in allowed]
        ret_ok = True
        for o in BD.origins({"l": 0, "p": []}):
            if o[0] == "param" and o[1] == "byte":
                continue
            if o[0] == "call" and q.base_name(o[1]) in allowed:
                ao = BD.origins(BD.blocks[o[2]]["term"]["args"][0])
                if all(x[0] == "param" and x[1] == "byte" for x in ao):
                    continue
            ret_ok = False
        R.check(not bad and not arith and ret_ok, "C14.R2", "C14.R2:%s:identity" % data_cl["id"], "%s:%s" % (data_cl["file"], data_cl["line"]),
                "per-byte closure calls only %s on its argument and performs no arithmetic (identity on u8)" % calls,
                "per-byte closure is not an identity: calls %s, arithmetic %s" % (bad, arith))
        BM = mir.Body(mapper, F)
        mc = [q.base_name(r or w) for bi, w, r, t in BM.calls]
        badm = [c for c in mc if not any(q.ends(c, a) for a in MAPPER_ALLOWED)]
        R.check(not badm, "C14.R2", "C14.R2:%s:mapper-calls" % mapper["id"], "%s:%s" % (mapper["file"], mapper["line"]),
                "frame mapper only unwraps the data frame, maps bytes through the identity closure, collects and re-wraps (%d calls)" % len(mc),
                "frame mapper performs other operations: %s" % badm)
        # data flows: into_data(frame) Ok payload -> iter -> map -> collect -> Frame::data
        fd = BM.calls_named("Frame::data")
        okf = False
        if len(fd) == 1:
            org = BM.origins(fd[0][3]["args"][0])
            okf = any(o[0] == "call" and q.ends(o[1], "Iterator::collect") for o in org) and \
                all(o[0] == "call" and q.ends(o[1], "Iterator::collect", "Bytes::new") for o in org)
        R.check(okf, "C14.R2", "C14.R2:%s:data-flow" % mapper["id"], "-",
                "Frame::data(..) receives the collected mapped bytes (or an empty Bytes for a non-data frame – observation)")
        R.observe("a non-data frame (trailers) is replaced by an empty data frame by the mapper")

    # ------------------------------------------------------------------ R3
    ts = F.body_of(PC + "TcpConnectionContext::send_request")
    if ts:
        R.touched(ts["id"])
        B = mir.Body(ts, F)
        cs = B.calls_named("Client::send_request")
        R.floor("C14.R3", len(cs), 1, "Client::send_request call under the mutex")
        for bi, w, r, t in cs:
            org = B.origins(t["args"][0])
            ok = org and all(o[0] == "call" and q.ends(o[1], "Mutex::lock") for o in org)
            R.check(ok, "C14.R3", R.key("C14.R3", ts["id"], "under-lock"), q.where(B, bi),
                    "Client::send_request is invoked on the guard returned by tokio::sync::Mutex::lock().await",
                    "Client::send_request receiver origins: %s" % sorted(map(str, org)))
            # the guard lives across the awaited send: the poll of send_request happens before the guard is dropped
            lock_calls = B.calls_named("Mutex::lock")
            if lock_calls:
                guard_local = None
                aw = B.await_of(lock_calls[0][0])
                R.check(aw is not None, "C14.R3", R.key("C14.R3", ts["id"], "lock-awaited"), q.where(B, lock_calls[0][0]),
                        "the lock future is awaited in place")
    # the guard is held until the response has arrived: the send future is awaited in place and no drop of the guard lies before its poll
    if ts:
        B = mir.Body(ts, F)
        def guard_of(o, depth=8):
            """the MutexGuard local a `&mut Client` operand was derived from (through &mut / DerefMut::deref_mut)"""
            while depth > 0 and o.get("k") in ("copy", "move"):
                depth -= 1
                l = o["p"]["l"]
                ty = str(B.locals[l].get("ty", ""))
                if "MutexGuard<" in ty and not ty.startswith("&"):
                    return l
                d = B.single_def(l)
                if d is None:
                    return None
                bi_, si_, kind, payload = d
                if kind == "assign" and payload["rv"]["k"] in ("use", "cast"):
                    o = payload["rv"]["o"]
                elif kind == "assign" and payload["rv"]["k"] == "ref":
                    o = {"k": "copy", "p": {"l": payload["rv"]["p"]["l"], "p": []}}
                elif kind == "call" and payload["args"]:
                    o = payload["args"][0]
                else:
                    return None
            return None
        guards = [g for g in {guard_of(c[3]["args"][0]) for c in B.calls_named("Client::send_request")} if g is not None]
        drops = [bi for bi, blk in enumerate(B.blocks) if not blk["cleanup"] and blk["term"]["k"] == "drop" and blk["term"]["p"]["l"] in guards
                 and not blk["term"]["p"]["p"]]
        polls = []
        for bi, w, r, t_ in B.calls_named("Client::send_request"):
            aw = B.await_of(bi)
            if aw is not None:
                polls.append(aw[0])
        okg = bool(guards) and bool(drops) and bool(polls) and B.path(drops, polls) is None
        R.check(okg, "C14.R3", R.key("C14.R3", ts["id"], "guard-held-across-response"), "%s:%s" % (ts["file"], ts["line"]),
                "the mutex guard is dropped only after the awaited Client::send_request completed (requests on one upstream connection never overlap)",
                "the response of Client::send_request is awaited after the connection's mutex guard was dropped (guards %d, drops %d, awaited sends %d): "
                "a second request can be queued on the upstream connection while one is outstanding" % (len(guards), len(drops), len(polls)))
    bhs = "azure_proxy_agent::common::hyper_client::build_http_sender"
    got = G.callers(bhs)
    proxy_side = {c for c in got if "proxy::" in c}
    R.check(proxy_side == {PC + "TcpConnectionContext::new::{closure#0}"}, "C14.R3", "C14.R3:callers:build_http_sender", "-",
            "on the proxy path build_http_sender is called only in TcpConnectionContext::new (one upstream connection per client connection)",
            "proxy-side callers of build_http_sender: %s" % sorted(proxy_side))
