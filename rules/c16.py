"""C16 Provisioning status is truthful under any arrival order – decided clauses (DESIGN §5 C16)."""
from lib import cg, mir, q

AP = "azure_proxy_agent::"
PV = AP + "provision::"
PW = AP + "shared_state::provision_wrapper::"
FLAGS = PV + "ProvisionFlags::"

REPORTERS = {"redirector_ready": ("REDIRECTOR_READY", "/redirector"), "key_latched": ("KEY_LATCH_READY", "/key_keeper"),
             "listener_started": ("LISTENER_READY", "/proxy/proxy_server")}
MODULE_OF = {"REDIRECTOR_READY": "Redirector", "KEY_LATCH_READY": "KeyKeeper", "LISTENER_READY": "ProxyServer"}


def flag_of_operand(B, o):
    out = set()
    for x in B.origins(o):
        if x[0] == "const" and x[1] and x[1].startswith(FLAGS):
            out.add(x[1][len(FLAGS):])
        elif x[0] == "promoted":
            for c in q.promoted_consts(B.fn, x[1]):
                if c[0] and c[0].startswith(FLAGS):
                    out.add(c[0][len(FLAGS):])
        else:
            out.add("<%s>" % (x[1] if len(x) > 1 else x[0]))
    return out


def copy_of_local(B, o, target, depth=8):
    """operand o is (a move/copy/clone of) local `target`: every definition of each temporary on the way is a use, a reference or a
    Clone::clone of the previous one"""
    if o["k"] not in ("copy", "move") or depth <= 0:
        return False
    p = o["p"]
    if any(isinstance(e, dict) and "f" in e for e in p["p"]):
        return False
    l = p["l"]
    if l == target:
        return True
    defs = B.defs.get(l, [])
    if not defs:
        return False
    for (bi, si, kind, payload) in defs:
        if kind == "assign":
            rv = payload["rv"]
            if rv["k"] == "use":
                if not copy_of_local(B, rv["o"], target, depth - 1):
                    return False
            elif rv["k"] == "ref":
                if not copy_of_local(B, {"k": "copy", "p": rv["p"]}, target, depth - 1):
                    return False
            else:
                return False
        elif kind == "call":
            w, r = mir.callee_of(payload)
            if not q.ends(r or w or "", "Clone::clone", "clone") or not copy_of_local(B, payload["args"][0], target, depth - 1):
                return False
        else:
            return False
    return True


def run(F, R, tier):
    R.explanation = (
        "Decided clauses (the 'at or after the instant the query names' tick comparison under arbitrary tick sequences is NOT decided): "
        "(R1) the readiness flags live in one actor task local and are only OR-ed (UpdateState) / AND-NOT-ed (ResetState), each arm replying "
        "with the post-value - so no report is lost for any arrival order; (R2) each reporter passes its own flag and is called only from "
        "its own module, ALL_READY is the OR of the three, and the error text names the paired module only on the flag's missing edge; "
        "(R3) finished is set only behind contains(ALL_READY) of the value returned by the same update round-trip, in the deadline handler, "
        "or from the value a reset returned; (R4) status.tag reaches the file system only as the target of a rename whose source is the "
        "freshly written status.tag.tmp.")
    for rid, txt in (("C16.R1", "flags live in one actor, OR / AND-NOT only, reply with post-value"),
                     ("C16.R2", "reporter <-> flag <-> module pairing"), ("C16.R3", "finished is guarded"),
                     ("C16.R4", "atomic replace of status.tag"), ("C16.R5", "the query handler computes finished from tick and latch state")):
        R.rule(rid, txt)
    R.not_decided += ["tick comparisons under arbitrary tick sequences",
                      "the check-then-act window between update_one_state and set_provision_finished under concurrent resets (observation)"]
    G = cg.get(F)

    # ------------------------------------------------------------------ R1
    act = F.fns.get(PW + "ProvisionSharedState::start_new::{closure#0}")
    if not act:
        R.fail("C16.R1", "C16.R1:anchor-missing:provision-actor", "-", "anchor-missing=ProvisionSharedState::start_new::{closure#0}")
    else:
        R.touched(act["id"])
        B = mir.Body(act, F)
        st = [i for i, l in enumerate(B.locals) if l.get("name") == "provision_state" and l["ty"] == PV + "ProvisionFlags"]
        if len(st) != 1:
            R.fail("C16.R1", "C16.R1:%s:state-variable" % act["id"], "-", "expected one local `provision_state: ProvisionFlags`, found %d" % len(st))
        else:
            sl = st[0]
            defs = B.defs[sl]
            init_only = len(defs) == 1 and defs[0][2] == "assign" and flag_of_operand(B, defs[0][3]["rv"].get("o", {"k": "const"})) <= {"NONE"}
            R.check(init_only, "C16.R1", "C16.R1:%s:single-init" % act["id"], "%s:%s" % (act["file"], act["line"]),
                    "provision_state is assigned once (NONE) and otherwise only updated in place", "provision_state has %d plain assignments" % len(defs))
            arms = q.actor_arms(B, F, PW + "ProvisionAction")
            mut_uses = []
            for bi, blk in enumerate(B.blocks):
                if blk["cleanup"]:
                    continue
                for s in blk["stmts"]:
                    if s["k"] == "assign" and s["rv"]["k"] == "ref" and s["rv"].get("mut") and s["rv"]["p"]["l"] == sl:
                        # who consumes this &mut
                        tl = s["lhs"]["l"]
                        users = [u for u in B.uses_of(tl) if u[0] == "callarg"]
                        for u in users:
                            mut_uses.append((bi, q.base_name(u[3] or u[2] or ""), u[4]))
            table = {}
            for bi, callee, t in mut_uses:
                arm = [n for n, a in arms.items() if bi in a[2] and all(bi not in o[2] for n2, o in arms.items() if n2 != n)]
                table.setdefault(arm[0] if arm else "?", []).append((callee, t))
            okU = False
            if "UpdateState" in table and len(table["UpdateState"]) == 1:
                callee, t = table["UpdateState"][0]
                src = B.origins(t["args"][1])
                okU = q.ends(callee, "bitor_assign", "BitOrAssign::bitor_assign", "insert", "union") and \
                    all(o[0] in ("unknown", "call", "param", "resume") or True for o in src)
            R.check(okU, "C16.R1", "C16.R1:%s:update-is-or" % act["id"], "-",
                    "UpdateState arm mutates provision_state only through |= (BitOrAssign) with the message's flags",
                    "UpdateState arm mutators: %s" % [c for c, _ in table.get("UpdateState", [])])
            okR = False
            if "ResetState" in table and len(table["ResetState"]) == 1:
                callee, t = table["ResetState"][0]
                nots = [o for o in B.origins(t["args"][1]) if o[0] == "call" and q.ends(o[1], "not")]
                okR = q.ends(callee, "bitand_assign", "remove", "difference") and (q.ends(callee, "remove", "difference") or bool(nots))
            R.check(okR, "C16.R1", "C16.R1:%s:reset-is-and-not" % act["id"], "-",
                    "ResetState arm mutates provision_state only through &= !flags", "ResetState arm mutators: %s" % [c for c, _ in table.get("ResetState", [])])
            other = {k: [c for c, _ in v] for k, v in table.items() if k not in ("UpdateState", "ResetState")}
            R.check(not other, "C16.R1", "C16.R1:%s:no-other-mutation" % act["id"], "-", "no other arm takes &mut provision_state", "other mutations: %s" % other)
            # replies carry the post value
            for arm in ("UpdateState", "ResetState"):
                if arm not in arms:
                    R.fail("C16.R1", "C16.R1:%s:arm-missing:%s" % (act["id"], arm), "-", "actor arm %s missing" % arm)
                    continue
                sb, entry, region = arms[arm]
                sends = [b for b in region if B.blocks[b]["term"]["k"] == "call" and q.ends(mir.callee_of(B.blocks[b]["term"])[0], "oneshot::Sender::send")
                         and all(b not in o[2] for n2, o in arms.items() if n2 != arm)]
                okS = False
                for b in sends:
                    mutb = [m[0] for m in mut_uses if m[0] in region]
                    hdr = q.outer_loop_header(B, b)
                    cut = [hdr] if hdr is not None else []
                    # within one iteration of the actor loop: the send follows each mutation and no mutation follows the send
                    after = all(b in B.reach([m], cut_blocks=cut) and m not in B.reach([b], cut_blocks=cut) for m in mutb)
                    # the value sent is a copy / clone of the state variable itself, read after every mutation of the arm
                    if copy_of_local(B, B.blocks[b]["term"]["args"][1], sl) and after:
                        okS = True
                R.check(okS and sends, "C16.R1", "C16.R1:%s:reply-post-value:%s" % (act["id"], arm), q.where(B, entry),
                        "%s replies with provision_state after the update" % arm)

    # ------------------------------------------------------------------ R2
    allv = F.consts.get(FLAGS + "ALL_READY", {}).get("val")
    parts = [F.consts.get(FLAGS + n, {}).get("val") for n in ("REDIRECTOR_READY", "KEY_LATCH_READY", "LISTENER_READY")]
    okbits = all(isinstance(x, int) for x in parts + [allv]) and (parts[0] | parts[1] | parts[2]) == allv and len(set(parts)) == 3 \
        and all(p & (p - 1) == 0 and p for p in parts)
    R.check(okbits, "C16.R2", "C16.R2:const:ALL_READY", "proxy_agent/src/provision.rs",
            "ALL_READY (%s) == REDIRECTOR_READY|KEY_LATCH_READY|LISTENER_READY (%s), three distinct single bits" % (allv, parts),
            "flag constants: ALL_READY=%r parts=%r" % (allv, parts))
    for rep, (flag, filetoken) in REPORTERS.items():
        fn = R.anchor(PV + rep, "C16.R2")
        if not fn:
            continue
        B = mir.Body(fn, F)
        cs = B.calls_named("provision::update_provision_state")
        fl = flag_of_operand(B, cs[0][3]["args"][0]) if len(cs) == 1 else set()
        R.check(fl == {flag}, "C16.R2", "C16.R2:%s:flag" % fn["id"], "%s:%s" % (fn["file"], fn["line"]),
                "%s reports %s" % (rep, flag), "%s reports %s" % (rep, sorted(fl)))
        callers = {c for c in G.callers(PV + rep)}
        files = {F.fns[c]["file"] for c in callers if c in F.fns}
        okc = callers and all(filetoken in f.replace(".rs", "") for f in files)
        R.check(okc, "C16.R2", "C16.R2:%s:callers" % fn["id"], "-", "%s is called only from %s (%d call site function(s))" % (rep, sorted(files), len(callers)),
                "%s is called from %s" % (rep, sorted(files)))
    ups = G.callers(PV + "update_provision_state")
    R.check(ups == {PV + r + "::{closure#0}" for r in REPORTERS}, "C16.R2", "C16.R2:callers:update_provision_state", "-",
            "update_provision_state is reached only through the three reporters", "callers: %s" % sorted(ups))
    msg = R.anchor(PV + "get_provision_failed_state_message", "C16.R2")
    if msg:
        B = mir.Body(msg, F)
        seen = {}
        for sb, tr, fa, cb, args in q.bool_call_edges(B, ["ProvisionFlags::contains", "contains"]):
            fl = flag_of_operand(B, args[1]) if len(args) > 1 else set()
            if len(fl) != 1:
                continue
            flag = next(iter(fl))
            only_missing = B.reach([fa[1]]) - B.reach([tr[1]])
            mods = set()
            for bi, w, r, t in B.calls_named("AgentStatusSharedState::get_module_status"):
                if bi in only_missing:
                    v = q.operand_variant(B, t["args"][1])
                    mods.add(v[1] if v else "?")
            present_side = [bi for bi, w, r, t in B.calls_named("AgentStatusSharedState::get_module_status") if bi in (B.reach([tr[1]]) - B.reach([fa[1]]))]
            seen[flag] = mods
            R.check(mods == {MODULE_OF.get(flag)} and not present_side, "C16.R2", "C16.R2:%s:text:%s" % (msg["id"], flag), q.where(B, sb),
                    "flag %s missing -> message names module %s (and only then)" % (flag, sorted(mods)),
                    "flag %s missing -> modules %s; expected %s" % (flag, sorted(mods), MODULE_OF.get(flag)))
        R.check(set(seen) == set(MODULE_OF), "C16.R2", "C16.R2:%s:all-flags-tested" % msg["id"], "-", "the error text tests all three flags",
                "flags tested: %s" % sorted(seen))

    # ------------------------------------------------------------------ R3
    spf = PW + "ProvisionSharedState::set_provision_finished"
    sites = G.callers(spf)
    allowed = {PV + "update_provision_state::{closure#0}", PV + "provision_timeup::{closure#0}", PV + "reset_provision_state::{closure#0}"}
    R.check(sites == allowed, "C16.R3", "C16.R3:callers:set_provision_finished", "-",
            "set_provision_finished is called only from update_provision_state, the deadline handler and reset_provision_state",
            "callers: %s" % sorted(sites))
    up = F.fns.get(PV + "update_provision_state::{closure#0}")
    if up:
        R.touched(up["id"])
        B = mir.Body(up, F)
        cs = B.calls_named("ProvisionSharedState::set_provision_finished")
        guards = []
        for sb, tr, fa, cb, args in q.bool_call_edges(B, ["ProvisionFlags::contains", "contains"]):
            fl = flag_of_operand(B, args[1]) if len(args) > 1 else set()
            src = B.origins(args[0])
            from_update = src and all(o[0] == "call" and q.ends(o[1], "update_one_state") for o in src)
            if fl == {"ALL_READY"} and from_update:
                guards.append(tr)
        p = B.path([0], [c[0] for c in cs], cut_edges=guards)
        okarg = all(c[3]["args"][1]["k"] == "const" and c[3]["args"][1].get("val") == 1 for c in cs)
        R.check(bool(guards) and cs and p is None and okarg, "C16.R3", "C16.R3:%s:guarded" % up["id"], q.where(B, cs[0][0]) if cs else "-",
                "set_provision_finished(true) is reachable only through contains(ALL_READY) == true on the value returned by the same update_one_state round-trip",
                "finished can be set without the all-ready test on the updated value")
    rs = F.fns.get(PV + "reset_provision_state::{closure#0}")
    if rs:
        R.touched(rs["id"])
        B = mir.Body(rs, F)
        cs = B.calls_named("ProvisionSharedState::set_provision_finished")
        ok = len(cs) == 1
        if ok:
            org = B.origins(cs[0][3]["args"][1])
            ok = org and all(o[0] == "call" and q.ends(o[1], "contains") for o in org)
            for o in org:
                ct = B.blocks[o[2]]["term"]
                src = B.origins(ct["args"][0])
                ok = ok and flag_of_operand(B, ct["args"][1]) == {"ALL_READY"} and all(x[0] == "call" and q.ends(x[1], "reset_one_state") for x in src)
        R.check(ok, "C16.R3", "C16.R3:%s:from-reset-value" % rs["id"], "-",
                "reset sets finished := contains(ALL_READY) of the value its own reset_one_state returned")

    # ------------------------------------------------------------------ R4
    wp = R.anchor(PV + "write_provision_state", "C16.R4")
    if wp:
        B = mir.Body(wp, F)
        TAG, TMP = PV + "STATUS_TAG_FILE_NAME", PV + "STATUS_TAG_TMP_FILE_NAME"

        def path_consts(o):
            out = set()
            for x in B.origins(o):
                if x[0] == "call" and q.ends(x[1], "Path::join", "PathBuf::join"):
                    out |= q.const_args(B, B.blocks[x[2]]["term"], 1)
                elif x[0] == "const" and x[1]:
                    out.add(x[1])
            return out
        uses_tag = []
        for bi, w, r, t in B.calls:
            if w == mir.POLL:
                continue
            name = q.base_name(r or w or "")
            if name.startswith("std::fs::") or name.startswith("std::fs::File"):
                for i, a in enumerate(t["args"]):
                    if TAG in path_consts(a):
                        uses_tag.append((bi, name, i))
        ok = len(uses_tag) == 1 and uses_tag[0][1] == "std::fs::rename" and uses_tag[0][2] == 1
        rn = B.calls_named("std::fs::rename")
        wr = [c for c in B.calls_named("std::fs::write") if TMP in path_consts(c[3]["args"][0])]
        oksrc = len(rn) == 1 and path_consts(rn[0][3]["args"][0]) == {TMP} and len(wr) == 1
        okdom = False
        if oksrc:
            imp, ref, ts = q.outcome_edges(B, lambda org, x=None: any(o[0] == "call" and o[2] == wr[0][0] for o in org), "Ok")
            okdom = bool(ts) and B.path([0], [rn[0][0]], cut_edges=imp) is None
        R.check(ok and oksrc and okdom, "C16.R4", "C16.R4:%s:tmp-then-rename" % wp["id"], q.where(B, rn[0][0]) if rn else "-",
                "status.tag is only ever the target of fs::rename(status.tag.tmp -> status.tag), behind the Ok edge of fs::write(status.tag.tmp)",
                "status.tag file-system uses: %s" % uses_tag)

    # ------------------------------------------------------------------ R5 helper contracts behind the query
    from lib import contracts
    contracts.conjunction_of_ne(F, R, "C16.R5", PV + "ProvisionStateInternal::is_secure_channel_latched", "key_keeper_secure_channel_state",
                                ["DISABLE_STATE", "UNKNOWN_STATE"], "'the secure channel is already latched'")
    if act:
        Ba = mir.Body(act, F)
        tl = [i for i, l in enumerate(Ba.locals) if l.get("name") == "provision_finished_time_tick"]
        okt, det = len(tl) == 1, []
        if okt:
            arms_ = q.actor_arms(Ba, F, PW + "ProvisionAction")
            setarm = arms_.get("SetProvisionFinished")
            for (bi, si, kind, payload) in Ba.defs[tl[0]]:
                org = Ba.origins(payload["rv"]["o"]) if kind == "assign" and payload["rv"]["k"] == "use" else set()
                # each value a definition can store: 0, or the clock read in the SetProvisionFinished arm (one assignment per value, or
                # one assignment of `if finished { now() } else { 0 }`)
                if not org:
                    det.append("other@line %s" % Ba.line(bi))
                    okt = False
                for o in sorted(org, key=str):
                    if o[0] == "const" and o[2] == 0:
                        det.append("0")
                    elif o[0] == "call" and q.ends(o[1], "misc_helpers::get_date_time_unix_nano") and setarm and bi in setarm[2] and o[2] in setarm[2]:
                        det.append("now@SetProvisionFinished")
                    else:
                        det.append("other@line %s" % Ba.line(bi))
                        okt = False
            okt = okt and "now@SetProvisionFinished" in det
            # replies of Set/GetProvisionFinished carry the variable itself
            for arm in ("SetProvisionFinished", "GetProvisionFinished"):
                a_ = arms_.get(arm)
                sends_ = [b for b in (a_[2] if a_ else []) if Ba.blocks[b]["term"]["k"] == "call" and
                          q.ends(mir.callee_of(Ba.blocks[b]["term"])[0], "oneshot::Sender::send") and
                          all(b not in o[2] for n2, o in arms_.items() if n2 != arm)]
                if not sends_ or not all(copy_of_local(Ba, Ba.blocks[b]["term"]["args"][1], tl[0]) for b in sends_):
                    okt = False
                    det.append("%s does not reply the tick variable" % arm)
        R.check(okt, "C16.R5", "C16.R5:%s:finished-tick" % act["id"], "-",
                "the finished tick is 0 or the clock at the SetProvisionFinished(true) message, and both replies return that variable (%s)" % det,
                "finished tick definitions / replies: %s" % det)

    from lib import contracts as _c16
    for nm in ("update_one_state", "reset_one_state", "set_provision_finished", "get_provision_finished", "get_state"):
        _c16.reliable_round_trip(F, R, "C16.R1", PW + "ProvisionSharedState::" + nm, "ProvisionSharedState::" + nm)
    R.rule("C16.R6", "the provisioning deadline and the start of the status tasks do not wait for the host")
    bookkeeping_independent_of_poll(F, R, "C16.R6")

    gi = F.body_of(PV + "get_provision_state_internal")
    if not gi:
        R.fail("C16.R5", "C16.R5:anchor-missing:get_provision_state_internal", "-", "anchor-missing=provision::get_provision_state_internal")
    else:
        R.touched(gi["id"])
        Bg = mir.Body(gi, F)
        aggs = [(bi, s) for bi, blk in enumerate(Bg.blocks) if not blk["cleanup"] for s in blk["stmts"]
                if s["k"] == "assign" and s["rv"]["k"] == "agg" and str(s["rv"].get("adt", "")).endswith("ProvisionStateInternal")]
        okm, det = bool(aggs), []
        for bi, s in aggs:
            names = s["rv"].get("fields") or []
            for i, o in enumerate(s["rv"]["ops"]):
                if i < len(names) and names[i] == "error_message":
                    org = Bg.origins(o)
                    det.append(sorted(map(str, org)))
                    if not org or not all(x[0] == "call" and q.ends(x[1], "get_provision_failed_state_message") for x in org):
                        okm = False
        # the channel state used by is_secure_channel_latched(): the key keeper's answer, "Unknown" when it cannot be asked - never a
        # value that the negative test (!= disabled && != Unknown) would read as latched
        oks, dets = bool(aggs), []
        for bi, s in aggs:
            names = s["rv"].get("fields") or []
            for i, o in enumerate(s["rv"]["ops"]):
                if i < len(names) and names[i] == "key_keeper_secure_channel_state":
                    org = Bg.origins(o)
                    lossy = q.lossy_via(Bg, o)
                    dflt = set()
                    for bi2, w2, r2, t2 in Bg.calls_named("Result::unwrap_or"):
                        ro = Bg.origins(t2["args"][0])
                        if ro and all(x[0] == "call" and q.ends(x[1], "get_current_secure_channel_state") for x in ro):
                            from lib import contracts as _c
                            dflt |= _c.const_names(Bg, t2["args"][1])
                    dets.append((sorted(map(str, org)), lossy, sorted(dflt)))
                    if not org or not all(x[0] == "call" and q.ends(x[1], "get_current_secure_channel_state") for x in org) \
                            or lossy != ["unwrap_or"] or dflt != {"UNKNOWN_STATE"}:
                        oks = False
        R.check(oks and dets, "C16.R5", "C16.R5:%s:channel-state-default" % gi["id"], "%s:%s" % (gi["file"], gi["line"]),
                "the channel state is the key keeper's answer, or UNKNOWN_STATE when the key keeper cannot be asked",
                "the channel state of the provision reply falls back to something other than UNKNOWN_STATE (%s): an unreachable key keeper "
                "would read as 'latched' and the query would answer finished" % dets)
        R.check(okm and det, "C16.R5", "C16.R5:%s:error-text-source" % gi["id"], "%s:%s" % (gi["file"], gi["line"]),
                "ProvisionStateInternal.error_message is get_provision_failed_state_message() on every path (the text names the subsystems "
                "not ready at the time of the query, whatever the finished tick)",
                "error_message of the provision reply can be something other than get_provision_failed_state_message(): %s" % det)
    if True:
        h = F.body_of(AP + "proxy::proxy_server::ProxyServer::handle_provision_state_check_request")
        if h:
            R.touched(h["id"])
            B = mir.Body(h, F)
            cs = B.calls_named("ProvisionState::new")
            ok = len(cs) == 1
            detail = ""
            if ok:
                o = cs[0][3]["args"][0]
                # the flag variable (through moves)
                while o["k"] in ("copy", "move") and B.single_def(o["p"]["l"]) and B.single_def(o["p"]["l"])[2] == "assign" \
                        and B.single_def(o["p"]["l"])[3]["rv"]["k"] == "use" and B.single_def(o["p"]["l"])[3]["rv"]["o"]["k"] != "const":
                    o = B.single_def(o["p"]["l"])[3]["rv"]["o"]
                fl = o["p"]["l"] if o["k"] in ("copy", "move") else None
                true_defs, latch_defs, other = [], [], []
                for (bi, si, kind, payload) in B.defs.get(fl, []):
                    if kind == "assign" and payload["rv"]["k"] == "use" and payload["rv"]["o"]["k"] == "const" and payload["rv"]["o"].get("val") == 1:
                        true_defs.append(bi)
                    elif kind == "call" and q.ends(mir.callee_of(payload)[1], "is_secure_channel_latched"):
                        latch_defs.append(bi)
                    else:
                        other.append(bi)
                ge_true = []
                for sb in B.switch_blocks():
                    e, tr, fa = B.truth_edges(sb)
                    if e[0] == "bin" and e[1] in ("Ge", "Lt", "Le", "Gt"):
                        a = {("%s.%s" % (q.base_name(x[1]).rsplit("::", 1)[-1], ".".join(x[3]))) for x in B.origins(e[2]) if x[0] == "call"}
                        b = {("%s" % q.base_name(x[1]).rsplit("::", 1)[-1]) for x in B.origins(e[3]) if x[0] == "call"}
                        if any("finished_time_tick" in s for s in a) and e[1] == "Ge":
                            ge_true.append(tr)
                        elif any("finished_time_tick" in s for s in {("%s.%s" % (q.base_name(x[1]).rsplit("::", 1)[-1], ".".join(x[3]))) for x in B.origins(e[3]) if x[0] == "call"}) and e[1] == "Le":
                            ge_true.append(tr)
                dom = bool(ge_true) and bool(true_defs) and B.path([0], true_defs, cut_edges=ge_true) is None
                ok = dom and len(latch_defs) >= 1 and not other
                detail = "true under (finished_time_tick >= query tick): %s; otherwise is_secure_channel_latched(): %s; other definitions: %s" % (dom, bool(latch_defs), other)
            R.check(ok, "C16.R5", "C16.R5:%s:finished-expression" % h["id"], "-",
                    "finished = (finished_time_tick >= query tick) || is_secure_channel_latched(): %s" % detail,
                    "the finished flag of the provision reply derives from %s" % detail)
            # the error text comes from get_provision_state_internal().error_message
            if cs:
                org = B.origins(cs[0][3]["args"][1])
                R.check(org and all(o[0] == "call" and q.ends(o[1], "get_provision_state_internal") and o[3][-1:] == ("error_message",) for o in org),
                        "C16.R5", "C16.R5:%s:error-text" % h["id"], "-", "errorMessage = get_provision_state_internal().error_message",
                        "errorMessage origins: %s" % sorted(map(str, org)))


def bookkeeping_independent_of_poll(F, R, rule):
    """in the key keeper's poll loop the provisioning deadline (provision_timeup) and the start of the event / status tasks
    (start_event_threads) are reached in every iteration whatever the host answers: they are not behind the status poll"""
    lp = F.body_of(AP + "key_keeper::KeyKeeper::loop_poll")
    if not lp:
        R.fail(rule, "%s:anchor-missing:loop_poll" % rule, "-", "anchor-missing=KeyKeeper::loop_poll")
        return
    B = mir.Body(lp, F)
    R.touched(lp["id"])
    polls = [c[0] for c in B.calls_named("key::get_status")]
    for name in ("provision::provision_timeup", "provision::start_event_threads"):
        cs = [c[0] for c in B.calls_named(name)]
        hdr = q.outer_loop_header(B, cs[0]) if cs else None
        ok = bool(cs) and bool(polls) and hdr is not None and B.path([hdr], cs, cut_blocks=polls) is not None
        R.check(ok, rule, "%s:%s:%s-not-behind-poll" % (rule, lp["id"], name.rsplit("::", 1)[-1]), q.where(B, cs[0]) if cs else "-",
                "%s is reachable from the top of a poll iteration without passing the status poll (a failing or garbage-answering host "
                "cannot postpone it)" % name.rsplit("::", 1)[-1],
                "%s is only reached after key::get_status(): while the host fails or answers garbage the `continue` of the failed poll skips it "
                "(deadline never fires / status tasks never start)" % name.rsplit("::", 1)[-1])
