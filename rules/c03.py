"""C03 WireServer/HostGAPlugin root-only; no self-proxying (DESIGN §5 C03)."""
import struct

from lib import mir, paths, q

AZ = "azure_proxy_agent::proxy::proxy_authorizer::"
K = "azure_proxy_agent::common::constants::"


def impl(name):
    return "<%s%s as %sAuthorizer>::authorize" % (AZ, name, AZ)


DISPATCH = {  # authorizer ADT -> (ip const, port const)
    "WireServer": ("WIRE_SERVER_IP", "WIRE_SERVER_PORT"),
    "GAPlugin": ("GA_PLUGIN_IP", "GA_PLUGIN_PORT"),
    "Imds": ("IMDS_IP", "IMDS_PORT"),
    "ProxyAgent": ("PROXY_AGENT_IP", "PROXY_AGENT_PORT"),
}
RULES_GETTER = {"WireServer": "get_wireserver_rules", "GAPlugin": "get_hostga_rules", "Imds": "get_imds_rules"}


def elevation_first(F, R, name):
    """decision table of the authorizer (helpers inlined, constant arguments evaluated): not elevated => Forbidden on every path"""
    fn = R.anchor(impl(name), "C03.R1")
    if not fn:
        return
    fid = fn["id"]
    wh = "%s:%s" % (fn["file"], fn["line"])
    try:
        rows = paths.decision_rows(F, fid)
    except (paths.HasLoop, paths.TooManyPaths) as e:
        R.fail("C03.R1", "C03.R1:%s:not-analysable" % fid, wh, "authorize left the loop-free fragment: %s" % e)
        return
    if not rows:
        R.fail("C03.R1", "C03.R1:%s:not-analysable" % fid, wh, "no decision rows could be derived for %s::authorize" % name)
        return
    n_bad = 0
    seen_nonelev = False
    for atoms, res in rows:
        elev = [v for d, v in atoms if "runAsElevated" in d]
        known = isinstance(res, str)
        if not known:
            n_bad += 1
            R.fail("C03.R1", R.key("C03.R1", fid, "row-unresolved"), wh,
                   "%s: a path returns %s, which the analysis cannot resolve to an AuthorizeResult variant" % (name, res))
            continue
        if res != "Forbidden" and not (elev and all(v is True for v in elev)):
            n_bad += 1
            R.fail("C03.R1", R.key("C03.R1", fid, "non-forbidden-without-elevation"), wh,
                   "%s: a path returns %s without having established runAsElevated == true: %s" % (name, res, atoms))
        if any(v is False for v in elev):
            seen_nonelev = True
            if res != "Forbidden":
                pass  # already reported above
    R.check(seen_nonelev, "C03.R1", "C03.R1:%s:non-elevated-row" % fid, wh,
            "%s has a decision row for the non-elevated caller" % name, "%s never tests claims.runAsElevated" % name)
    if not n_bad:
        R.ok("C03.R1", "C03.R1:%s:non-elevated-only-forbidden" % fid, wh,
             "%s: in all %d decision rows (helpers inlined) every result other than Forbidden requires runAsElevated == true; "
             "the non-elevated rows return Forbidden whatever the rules, mode or URL" % (name, len(rows)),
             witness={"rows": [[list(map(list, a)), str(r)] for a, r in rows][:8]})


def path_ip_port(atoms, cval):
    """(ip value, port value) a path has established by equality tests, for both spellings of the dispatch:
    `ip == constants::X_IP && port == constants::X_PORT` (named constants) and `match (ip.as_str(), port) { (X_IP, X_PORT) => ..}` (literals)"""
    ipv, portv = None, None
    for d, v in atoms:
        if d.startswith("eq(param:ip") and v is True:
            ipv = d.split("const:")[-1].rstrip(")").strip("'")
            for n in cval:
                if ("const:" + K + n) in d:
                    ipv = cval[n]
        if d == "val(param:port)" and isinstance(v, int) and not isinstance(v, bool):
            portv = v
        if d.startswith("Eq(param:port") and v is True:
            lit = d.split("const:")[-1].rstrip(")")
            if lit.isdigit():
                portv = int(lit)
            for n in cval:
                if ("const:" + K + n) in d:
                    portv = cval[n]
    return ipv, portv


def run(F, R, tier):
    R.explanation = (
        "Guard-first dominance in WireServer/GAPlugin::authorize (no non-Forbidden result and no rule consultation "
        "is reachable without crossing the runAsElevated=true edge), constant-Forbidden for the self-destination "
        "authorizer, path-predicate check of the dispatch tables of get_authorizer/get_access_control_rules against "
        "named constants, and agreement of the listener/redirector port and byte-order constants. Independent of the "
        "rule set, mode and URL because the rules are not read before the elevation test.")
    R.rule("C03.R1", "elevation test first: non-elevated => Forbidden, rules never consulted")
    R.rule("C03.R2", "dispatch tables pair each endpoint's (ip,port) constants with its authorizer / rule getter")
    R.rule("C03.R3", "self-destination authorizer returns Forbidden on every path")
    R.rule("C03.R4", "listener / redirector / dispatch constants agree; *_NETWORK_BYTE_ORDER equals the dotted string")
    R.not_decided += ["that runAsElevated reflects the caller (C06)", "Forbidden => 403 and nothing relayed is C01.R2(e)/R3"]

    for name in ("WireServer", "GAPlugin"):
        elevation_first(F, R, name)

    # ---- R3
    fn = R.anchor(impl("ProxyAgent"), "C03.R3")
    if fn:
        B = mir.Body(fn, F)
        vals = set()
        for b in B.blocks:
            if b["cleanup"]:
                continue
            for s in b["stmts"]:
                if s["k"] == "assign" and s["lhs"]["l"] == 0:
                    vals.add(s["rv"].get("variant") if s["rv"]["k"] == "agg" else "<non-constant>")
            if b["term"]["k"] == "call" and b["term"]["dest"]["l"] == 0:
                vals.add("<call>")
        R.check(vals == {"Forbidden"}, "C03.R3", "C03.R3:%s:always-forbidden" % fn["id"], "%s:%s" % (fn["file"], fn["line"]),
                "ProxyAgent::authorize assigns only AuthorizeResult::Forbidden to its result", "result values: %s" % sorted(vals))

    # ---- R2 get_authorizer
    fn = R.anchor(AZ + "get_authorizer", "C03.R2")
    if fn:
        B = mir.Body(fn, F)
        try:
            ps = paths.enumerate_paths(B)
        except (paths.HasLoop, paths.TooManyPaths) as e:
            ps = []
            R.fail("C03.R2", "C03.R2:%s:not-analysable" % fn["id"], "-", str(e))
        built_seen = set()
        cval = {n: F.consts.get(K + n, {}).get("val") for n in sum(([a, b] for a, b in DISPATCH.values()), [])}
        for p in ps:
            atoms = paths.path_atoms(B, F, p)
            ipv, portv = path_ip_port(atoms, cval)
            pos = (ipv, portv)
            built = None
            for b, _ in p:
                for s in B.blocks[b]["stmts"]:
                    if s["k"] == "assign" and s["rv"]["k"] == "agg" and s["rv"]["ak"] == "adt" and s["rv"]["adt"].startswith(AZ):
                        built = s["rv"]["adt"][len(AZ):]
            expected = [n for n, (i, pt) in DISPATCH.items() if cval[i] == ipv and cval[pt] == portv]
            exp = expected[0] if len(expected) == 1 else ("Default" if not expected else "|".join(expected))
            built_seen.add(built)
            R.check(built == exp, "C03.R2", R.key("C03.R2", fn["id"], "path"), "%s:%s" % (fn["file"], fn["line"]),
                    "(ip,port)=%s => builds %s" % (pos, built),
                    "path on which (ip,port)=%s builds %s, table says %s" % (pos, built, exp))
        R.check(built_seen >= set(DISPATCH) | {"Default"}, "C03.R2", "C03.R2:%s:all-authorizers-built" % fn["id"], "-",
                "all five authorizers are constructed on some path: %s" % sorted(map(str, built_seen)))
    # authorize() goes through get_authorizer with its own ip/port/claims
    fn = R.anchor(AZ + "authorize", "C03.R2")
    if fn:
        B = mir.Body(fn, F)
        cs = B.calls_named("proxy_authorizer::get_authorizer")
        R.check(len(cs) == 1, "C03.R2", "C03.R2:%s:uses-get_authorizer" % fn["id"], "-", "authorize() selects via get_authorizer")
        for bi, w, r, t in cs:
            for i, nm in enumerate(("ip", "port", "claims")):
                org = B.origins(t["args"][i])
                R.check(org == {("param", nm, ())}, "C03.R2", "C03.R2:%s:get_authorizer-arg-%s" % (fn["id"], nm), q.where(B, bi),
                        "get_authorizer receives authorize()'s own `%s`" % nm, "origins: %s" % sorted(map(str, org)))
        dyn = B.calls_named("Authorizer::authorize")
        rets = B.return_blocks()
        p = B.path([0], rets, cut_blocks=[c[0] for c in dyn])
        R.check(dyn and p is None and all(c[3]["dest"]["l"] == 0 for c in dyn), "C03.R2", "C03.R2:%s:returns-authorizer-result" % fn["id"], "-",
                "authorize() returns exactly the selected authorizer's result")

    # ---- R2 get_access_control_rules
    fn = R.anchor(AZ + "get_access_control_rules", "C03.R2")
    if fn:
        B = mir.Body(fn, F)
        cval = {n: F.consts.get(K + n, {}).get("val") for n in sum(([a, b] for a, b in DISPATCH.values()), [])}
        try:
            ps = paths.enumerate_paths(B, allow_loops=True)
        except paths.TooManyPaths as e:
            ps = []
            R.fail("C03.R2", "C03.R2:%s:not-analysable" % fn["id"], "-", str(e))
        seen = {}
        for p in ps:
            atoms = paths.path_atoms(B, F, p)
            ipv, portv = path_ip_port(atoms, cval)
            getters = []
            for b, _ in p:
                t = B.blocks[b]["term"]
                if t["k"] == "call":
                    c = q.base_name(mir.callee_of(t)[1])
                    if c.rsplit("::", 1)[-1] in RULES_GETTER.values():
                        getters.append(c.rsplit("::", 1)[-1])
            exp = [g for n, g in RULES_GETTER.items() if cval[DISPATCH[n][0]] == ipv and cval[DISPATCH[n][1]] == portv]
            seen.setdefault(tuple(getters), set()).add((ipv, portv))
            R.check(getters == exp, "C03.R2", R.key("C03.R2", fn["id"], "path"), "%s:%s" % (fn["file"], fn["line"]),
                    "(ip,port)=(%s,%s) => %s" % (ipv, portv, getters or "Ok(None)"),
                    "(ip,port)=(%s,%s) selects %s, table says %s" % (ipv, portv, getters, exp))
        R.check(set(sum((list(k) for k in seen), [])) == set(RULES_GETTER.values()), "C03.R2",
                "C03.R2:%s:all-getters" % fn["id"], "-", "all three rule getters are selected on some path")

    # ---- R4 constants
    def cv(n):
        c = F.consts.get(K + n)
        return c["val"] if c else None
    for n in ("WIRE_SERVER", "GA_PLUGIN", "IMDS", "PROXY_AGENT"):
        ip, nbo = cv(n + "_IP"), cv(n + "_IP_NETWORK_BYTE_ORDER")
        ok = False
        if isinstance(ip, str) and isinstance(nbo, int):
            try:
                ok = struct.unpack("<I", bytes(int(x) for x in ip.split(".")))[0] == nbo
            except Exception:
                ok = False
        R.check(ok, "C03.R4", "C03.R4:const:%s_IP_NETWORK_BYTE_ORDER" % n, "proxy_agent/src/common/constants.rs",
                "%s_IP_NETWORK_BYTE_ORDER (0x%X) is the in-memory network-order word of %s" % (n, nbo or 0, ip),
                "%s_IP_NETWORK_BYTE_ORDER=%r does not encode %r" % (n, nbo, ip))
    # listener and redirector use PROXY_AGENT_PORT
    for fid, fn in F.fns.items():
        if fn["crate"] != "azure_proxy_agent" or "/service.rs" not in fn["file"]:
            continue
        B = mir.Body(fn, F)
        for callee in ("ProxyServer::new", "Redirector::new"):
            for bi, w, r, t in B.calls_named(callee):
                cs = q.const_args(B, t, 0)
                R.check(cs == {K + "PROXY_AGENT_PORT"}, "C03.R4", R.key("C03.R4", fid, callee + "-port"), q.where(B, bi),
                        "%s is given constants::PROXY_AGENT_PORT (the self-destination dispatch entry)" % callee,
                        "%s port argument origins: %s" % (callee, sorted(map(str, B.origins(t["args"][0])))))
    n = len([i for i in R.instances if i["rule"] == "C03.R4" and "-port" in i["key"]])
    R.floor("C03.R4", n, 2, "listener/redirector constructions with the port constant")

    # ------------------------------------------------------------------ R5 helper contract: what "elevated" and the identity are
    from lib import contracts
    R.rule("C03.R5", "Claims::from_audit_entry: runAsElevated = (record.is_admin == 1); user, process and ids come from the same record")
    fe = R.anchor("azure_proxy_agent::proxy::Claims::from_audit_entry::{closure#0}", "C03.R5")
    if fe:
        B = mir.Body(fe, F)
        aggs = contracts.agg_fields(B, "proxy::Claims")
        R.check(len(aggs) == 1, "C03.R5", "C03.R5:%s:one-construction" % fe["id"], "-", "Claims is constructed at one place")
        # ... and that construction is the only thing the function can return as Ok (no cached / remembered claims)
        pay = set()
        for blk in B.blocks:
            if blk["cleanup"]:
                continue
            for s in blk["stmts"]:
                if s["k"] == "assign" and s["lhs"]["l"] == 0 and s["rv"]["k"] == "agg" and s["rv"].get("variant") == "Ok":
                    pay |= B.origins(s["rv"]["ops"][0])
        for o in B.origins(contracts.RET):
            if not (o[0] == "agg" and str(o[1]).endswith("Result::Ok")) and not (o[0] == "call" and q.ends(o[1], "proxy::get_user")):
                pay.add(o)
        okp = bool(pay) and all(o[0] == "agg" and "proxy::Claims" in str(o[1]) for o in pay)
        R.check(okp, "C03.R5", "C03.R5:%s:fresh-claims" % fe["id"], "-",
                "every Ok result is the Claims value built from this call's record (nothing cached or remembered across connections)",
                "from_audit_entry can return claims that were not built from this call's record: %s" % sorted(map(str, pay)))
        for bi, fl in aggs:
            def param_is(o, path):
                org = B.origins(o)
                return bool(org) and all(x[0] == "param" and x[1] == "entry" and tuple(x[2]) == path for x in org)
            # runAsElevated
            ok, det = False, ""
            org = B.origins(fl.get("runAsElevated", {"k": "const"}))
            if len(org) == 1 and next(iter(org))[0] == "bin" and next(iter(org))[1] == "Eq":
                blk = B.blocks[next(iter(org))[2]]
                for s in blk["stmts"]:
                    if s["k"] == "assign" and s["rv"]["k"] == "bin" and s["rv"]["op"] == "Eq":
                        a, b_ = s["rv"]["a"], s["rv"]["b"]
                        ca = a if a["k"] == "const" else b_
                        va = b_ if a["k"] == "const" else a
                        ok = ca["k"] == "const" and ca.get("val") == 1 and param_is(va, ("is_admin",))
                        det = "%s == %s" % (sorted(map(str, B.origins(va))), ca.get("val"))
            R.check(ok, "C03.R5", "C03.R5:%s:runAsElevated" % fe["id"], q.where(B, bi),
                    "runAsElevated = (entry.is_admin == 1): only the kernel's is_root flag makes a caller elevated",
                    "runAsElevated is computed as %s (origins %s)" % (det, sorted(map(str, org))))
            R.check(param_is(fl.get("userId", {"k": "const"}), ("logon_id",)), "C03.R5", "C03.R5:%s:userId" % fe["id"], q.where(B, bi),
                    "userId = entry.logon_id")
            for fld, callee, sub, argpath in (("processId", "Process::from_pid", "pid", ("process_id",)),
                                              ("processName", "Process::from_pid", "name", ("process_id",)),
                                              ("processFullPath", "Process::from_pid", "exe_full_name", ("process_id",)),
                                              ("processCmdLine", "Process::from_pid", "command_line", ("process_id",)),
                                              ("userName", "proxy::get_user", "user_name", ("logon_id",)),
                                              ("userGroups", "proxy::get_user", "user_groups", ("logon_id",))):
                org = B.origins(fl.get(fld, {"k": "const"}))
                ok = bool(org) and all(x[0] == "call" and q.ends(x[1], callee) and x[3][-1:] == (sub,) and
                                       param_is(B.blocks[x[2]]["term"]["args"][0], argpath) for x in org)
                R.check(ok, "C03.R5", "C03.R5:%s:%s" % (fe["id"], fld), q.where(B, bi),
                        "%s = %s(entry.%s).%s" % (fld, callee, argpath[0], sub), "%s origins: %s" % (fld, sorted(map(str, org))))
