"""C10 The key id in a signature always names the key that produced the MAC (DESIGN §5 C10)."""
from lib import cg, mir, q

AP = "azure_proxy_agent::"
KW = AP + "shared_state::key_keeper_wrapper::"
KEY = AP + "key_keeper::key::Key"


def snapshot_ids(B, o):
    """the set of 'read events' an operand derives from: ('call', callee, block) / ('param', name) / other"""
    out = set()
    for x in B.origins(o):
        if x[0] == "call":
            out.add(("call", q.base_name(x[1]), x[2]))
        elif x[0] == "param":
            out.add(("param", x[1]))
        elif x[0] in ("const", "promoted"):
            out.add(("const",))
        elif x[0] == "agg" and str(x[1]).endswith("::None"):
            out.add(("none",))
        else:
            out.add((x[0], str(x[1]) if len(x) > 1 else ""))
    return out


def is_none(B, o):
    v = q.operand_variant(B, o)
    return bool(v and v[1] == "None") and len(B.origins(o)) == 1


def run(F, R, tier):
    R.explanation = (
        "Single-snapshot provenance rule: at every signing site the key secret and the key id must derive from ONE read of "
        "the shared key state (one actor round-trip returning a Key, or one &Key parameter). Two separate awaited getters is a "
        "split read across which the key keeper can update_key/clear_key, pairing the id of one key with the MAC of another. "
        "With the rule holding, the pairing is schedule-independent by construction (a Key value is immutable once read); "
        "the actor holds the key as one Option<Key> replaced as a whole.")
    R.rule("C10.R1", "secret and id at each signing site derive from one snapshot of the key state")
    R.rule("C10.R2", "the actor keeps the key as one Option<Key> variable replaced as a whole by SetKey")
    R.assumptions.append("tokio mpsc/oneshot deliver the value that was sent; a Key value is immutable once read")
    G = cg.get(F)
    sites = []

    # compute_signature callers other than build_request (the proxy's signing route)
    for fid, fn in F.fns.items():
        if fn["crate"] != "azure_proxy_agent":
            continue
        text_has = False
        for b in fn["blocks"]:
            t = b["term"]
            if t["k"] == "call" and "fn" in t["f"]:
                n = t["f"]["fn"]
                if n.endswith("helpers::compute_signature") or n.endswith("hyper_client::build_request") or n.endswith("hyper_client::get"):
                    text_has = True
                    break
        if not text_has:
            continue
        B = mir.Body(fn, F)
        owner = fid.split("::{closure")[0]
        if owner == AP + "common::hyper_client::build_request" or owner == AP + "common::hyper_client::get":
            # inside the client the pair are two parameters: pairing is the caller's obligation; check it is passed through intact
            for bi, w, r, t in B.calls_named("hyper_client::build_request"):
                g, k = B.origins(t["args"][4]), B.origins(t["args"][5])
                ok = g == {("param", "key_guid", ())} and k == {("param", "key", ())}
                R.check(ok, "C10.R1", R.key("C10.R1", fid, "pass-through"), q.where(B, bi),
                        "hyper_client::get forwards its (key_guid, key) parameters unchanged to build_request")
            continue
        for bi, w, r, t in B.calls_named("helpers::compute_signature"):
            # secret = arg0; id = the guid formatted into the authorization value on this path
            secret = snapshot_ids(B, t["args"][0])
            ids = set()
            for hb, hw, hr, ht in B.calls_named("HeaderValue::from_str"):
                fmt = q.format_of(B, ht["args"][0])
                if fmt and len(fmt["args"]) == 3 and any(o[0] == "call" and q.ends(o[1], "compute_signature") for o in fmt["args"][2]["origins"]):
                    ids |= snapshot_ids(B, fmt["args"][1]["operand"])
            sites.append((fid, owner, bi, B, secret, ids, "compute_signature"))
        for callee, gi, ki in (("hyper_client::build_request", 4, 5), ("hyper_client::get", 2, 3)):
            for bi, w, r, t in B.calls_named(callee):
                if is_none(B, t["args"][gi]) and is_none(B, t["args"][ki]):
                    continue
                sites.append((fid, owner, bi, B, snapshot_ids(B, t["args"][ki]), snapshot_ids(B, t["args"][gi]), callee))

    for fid, owner, bi, B, secret, ids, what in sites:
        short = owner.replace(AP, "")
        key = "C10.R1:%s:split-read" % owner
        secret_r = {s for s in secret if s[0] not in ("const", "none")}
        ids_r = {s for s in ids if s[0] not in ("const", "none")}
        one = len(secret_r) == 1 and secret_r == ids_r
        R.check(one, "C10.R1", key, q.where(B, bi),
                "%s: secret and id derive from one snapshot %s" % (short, sorted(secret_r)),
                "%s: the key secret comes from %s but the key id from %s – two reads of the shared key state; "
                "update_key/clear_key between them yields the id of one key with the MAC of another"
                % (short, sorted(secret_r), sorted(ids_r)),
                witness={"site": what, "secret": sorted(map(str, secret)), "id": sorted(map(str, ids))})
    R.floor("C10.R1", len(sites), 5, "signing sites (HRS, get_goalstate, get_shared_config, get_imds_instance_info, attest_key)")
    # every snapshot source used at a signing site must itself be ONE read of the actor state
    sources = set()
    for fid, owner, bi, B, secret, ids, what in sites:
        for s in secret | ids:
            if s[0] == "call" and "KeyKeeperSharedState::" in s[1]:
                sources.add(s[1])
    PRIM = KW + "KeyKeeperSharedState::get_key"
    for src in sorted(sources):
        body = F.body_of(src)
        if body is None:
            R.fail("C10.R1", "C10.R1:%s:snapshot-source-missing" % src, "-", "anchor-missing=%s" % src)
            continue
        R.touched(body["id"])
        Bs = mir.Body(body, F)
        events = set()

        def leaves(x, depth=4):
            # a std computation over the snapshot (zip / unzip / map ..) is derived from what it is applied to
            for o in Bs.origins(x, deep=True):
                if o[0] != "call":
                    continue
                if o[1].startswith(("azure_proxy_agent::", "proxy_agent_shared::")) or depth <= 0:
                    events.add((q.base_name(o[1]), o[2]))
                else:
                    args = Bs.blocks[o[2]]["term"]["args"]
                    if not args:
                        events.add((q.base_name(o[1]), o[2]))
                    for a in args:
                        leaves(a, depth - 1)
        leaves({"l": 0, "p": []})
        reads = [(c[0], q.base_name(c[2] or c[1])) for c in Bs.calls if c[1] != mir.POLL and "KeyKeeperSharedState::get" in q.base_name(c[2] or c[1] or "")]
        ok = len(events) == 1 and next(iter(events))[0] == PRIM and len(reads) == 1
        R.check(ok, "C10.R1", "C10.R1:%s:one-round-trip" % src, "%s:%s" % (body["file"], body["line"]),
                "%s derives everything it returns from one get_key() round-trip" % src.rsplit("::", 1)[-1],
                "%s assembles its result from %d reads of the key state (%s): the key keeper can replace the key between them, "
                "so callers pair the id of one key with the secret of another" % (src.rsplit("::", 1)[-1], len(reads), sorted(r[1].rsplit("::", 1)[-1] for r in reads)))
    prim = F.body_of(PRIM)
    if prim:
        Bp = mir.Body(prim, F)
        sends = [c for c in Bp.calls if q.ends(c[2] or c[1] or "", "mpsc::Sender::send")]
        variants = set()
        for b in Bp.blocks:
            for s in b["stmts"]:
                if s["k"] == "assign" and s["rv"]["k"] == "agg" and s["rv"].get("adt") == KW + "KeyKeeperAction":
                    variants.add(s["rv"]["variant"])
        R.check(len(sends) == 1 and variants == {"GetKey"}, "C10.R1", "C10.R1:%s:primitive" % PRIM, "%s:%s" % (prim["file"], prim["line"]),
                "get_key() is one GetKey message round-trip", "get_key sends %s (%d sends)" % (sorted(variants), len(sends)))

    # ------------------------------------------------------------------ R2
    act = F.fns.get(KW + "KeyKeeperSharedState::start_new::{closure#0}")
    if not act:
        R.fail("C10.R2", "C10.R2:anchor-missing:start_new", "-", "anchor-missing=KeyKeeperSharedState::start_new::{closure#0}")
    else:
        B = mir.Body(act, F)
        R.touched(act["id"])
        key_locals = [i for i, l in enumerate(B.locals) if l.get("name") and ("std::option::Option<%s>" % KEY) == l["ty"] and l.get("user")]
        def has_none_init(i):
            for (bi, si, kind, payload) in B.defs[i]:
                if kind == "assign" and payload["rv"]["k"] == "agg" and payload["rv"].get("variant") == "None":
                    return True
            return False
        # state = variables initialised (to None) before the message loop; pattern bindings of messages are not state
        state = [i for i in key_locals if has_none_init(i)]
        key_locals = state
        R.check(len(state) == 1, "C10.R2", "C10.R2:%s:one-key-variable" % act["id"], "%s:%s" % (act["file"], act["line"]),
                "the actor task holds the key in one local `key: Option<Key>`",
                "key-typed state variables: %s" % [B.locals[i]["name"] for i in key_locals])
        # no separate guid / secret state: no other user local whose name mentions key/guid with String type
        split = [l["name"] for l in B.locals if l.get("user") and l.get("name") and ("guid" in l["name"].lower()) and "String" in l["ty"]]
        R.check(not split, "C10.R2", "C10.R2:%s:no-separate-guid-state" % act["id"], "-",
                "no separate guid/secret state variable in the actor", "separate state: %s" % split)
        if state:
            whole = True
            n_assign = 0
            for (bi, si, kind, payload) in B.defs[state[0]]:
                if kind == "assign" and payload["lhs"]["p"]:
                    whole = False  # a field of the stored key is written separately
                n_assign += 1
            R.check(whole and n_assign >= 2, "C10.R2", "C10.R2:%s:replaced-as-a-whole" % act["id"], "-",
                    "`key` is only ever assigned as a whole (%d assignments: init + SetKey)" % n_assign,
                    "a field of the stored key is written separately")
    # the public getters each do exactly one actor round-trip
    for g in ("get_current_key_value", "get_current_key_guid"):
        fn = F.body_of(KW + "KeyKeeperSharedState::" + g)
        if fn:
            B = mir.Body(fn, F)
            n = len(B.calls_named("KeyKeeperSharedState::get_key"))
            R.ok("C10.R2", "C10.R2:%s:round-trips" % fn["id"], "%s:%s" % (fn["file"], fn["line"]),
                 "%s performs %d actor round-trip (each call of it is its own snapshot)" % (g, n), nontrivial=False)

    # hand-written Clone of Key: id and secret must stay paired through every clone (snapshots are clones)
    from lib import contracts as _ct
    for im in _ct.handwritten_impls(F, "clone::Clone", ("azure_proxy_agent",)):
        if im["self_ty"].endswith("key_keeper::key::Key"):
            _ct.faithful_clone(F, R, "C10.R2", im)

    # the key cell is read / written through reliable round trips (a full queue delays a signer, it never hands it "no key")
    for nm in ("get_key", "set_key"):
        _ct.reliable_round_trip(F, R, "C10.R2", "azure_proxy_agent::shared_state::key_keeper_wrapper::KeyKeeperSharedState::" + nm,
                                "KeyKeeperSharedState::" + nm)

    # the only authorization header on a relayed request is the agent's own: it is written with HeaderMap::insert (replaces every value
    # the client sent under that name), so no stale "id of one key, MAC of another" header rides along
    from rules.c05 import header_mutations, header_name_const
    from lib import inline as _inl
    hrs_ = F.body_of("azure_proxy_agent::proxy::proxy_server::ProxyServer::handle_request_with_signature")
    if hrs_:
        Bh = mir.Body(_inl.with_request_helpers(F, hrs_), F)
        auth = [(bi, m) for bi, m, mo, t_ in header_mutations(Bh)
                if len(t_["args"]) > 1 and header_name_const(Bh, t_["args"][1]) == {"azure_proxy_agent::common::constants::AUTHORIZATION_HEADER"}]
        R.check(bool(auth) and all(m == "insert" for _, m in auth), "C10.R1", "C10.R1:%s:authorization-replaces-client-values" % hrs_["id"],
                "%s:%s" % (hrs_["file"], hrs_["line"]),
                "the authorization header is written with HeaderMap::insert (%d site(s)): client-supplied values under that name are replaced" % len(auth),
                "the authorization header is written with %s: a client-supplied authorization header stays on the relayed request next to the "
                "agent's" % sorted({m for _, m in auth}))
