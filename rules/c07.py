"""C07 Attribution is single-use (DESIGN §5 C07)."""
import re
from lib import cg, mir, q

AP = "azure_proxy_agent::"
PC = AP + "proxy::proxy_connection::"
PS = AP + "proxy::proxy_server::ProxyServer::"
GAE = PC + "TcpConnectionContext::get_audit_entry"
TCP_NEW = PC + "TcpConnectionContext::new"
BPF = AP + "redirector::linux::"
TCTX = PC + "TcpConnectionContext"

IDENTITY_FIELDS = ("claims", "destination_ip", "destination_port")


def owner_types(B, place):
    """[(owner type string, field name)] for each field projection of a place"""
    out = []
    cur = B.locals[place["l"]]["ty"]
    for e in place["p"]:
        if e == "*":
            cur = cur.lstrip("&")
            if cur.startswith("mut "):
                cur = cur[4:]
            if cur.startswith("'"):
                cur = cur.split(" ", 1)[-1]
        elif isinstance(e, dict) and "f" in e:
            out.append((cur, e.get("n") or str(e["f"])))
            cur = e.get("ty") or "?"
    return out


def run(F, R, tier):
    R.explanation = (
        "Post-dominance of the audit-record removal on the Ok edge of the lookup (consume on accept, same port value), "
        "sibling agreement of lookup/remove on map name and key constructor, and a field-write / type inventory showing "
        "that the identity fields of the per-connection context are written only by its constructor, that the constructor "
        "is called only from the per-connection task, that requests receive a clone of that one object, and that no "
        "static or long-lived state has a type containing Claims/AuditEntry.")
    R.rule("C07.R1", "every path from the Ok edge of lookup_audit to return passes remove_audit with the same port")
    R.rule("C07.R2", "lookup and remove address the same map and build the key the same way")
    R.rule("C07.R3", "identity is bound to the connection object: single constructor site, no other writers, no shared cache")
    R.not_decided += ["behaviour when remove_audit itself fails (logged; record stays) – a fault outside this quantifier",
                      "kernel-side reuse races", "hyper invoking the service once per request of that connection"]
    G = cg.get(F)

    # ------------------------------------------------------------------ R1
    ga = R.anchor(GAE, "C07.R1")
    if ga:
        B = mir.Body(ga, F)
        lk = B.calls_named("redirector::lookup_audit")
        rm = B.calls_named("redirector::remove_audit")
        R.floor("C07.R1", len(lk), 1, "lookup_audit call in get_audit_entry")
        imp, ref, ts = q.outcome_edges(B, q.from_call("redirector::lookup_audit"), "Ok")
        rmb = [c[0] for c in rm]
        for c in lk + rm:
            if q.immediate_await(B, c[0]) is None:
                R.fail("C07.R1", R.key("C07.R1", GAE, "not-awaited-in-place"), q.where(B, c[0]),
                       "the audit map call is not awaited in place: call site no longer equals execution point")
        if not ts:
            R.fail("C07.R1", "C07.R1:%s:test-missing" % GAE, "-", "no test of lookup_audit's result")
        for e in sorted(imp):
            p = B.path([e[1]], B.return_blocks(), cut_blocks=rmb)
            R.check(p is None and rmb, "C07.R1", R.key("C07.R1", GAE, "remove-postdominates-ok"), q.where(B, e[0]),
                    "from the Ok edge of lookup_audit every path to return passes remove_audit (%d site(s))" % len(rmb),
                    "the audit record can survive a successful lookup: a path from the Ok edge returns without remove_audit",
                    witness={"path_lines": B.path_lines(p)} if p else None)
        # same port value
        if lk and rm:
            lo = B.origins(lk[0][3]["args"][0])
            for c in rm:
                ro = B.origins(c[3]["args"][0])
                ok = lo == ro and lo and all(o[0] == "call" and q.ends(o[1], "SocketAddr::port") for o in lo)
                R.check(ok, "C07.R1", R.key("C07.R1", GAE, "same-port"), q.where(B, c[0]),
                        "remove_audit and lookup_audit receive the same client_addr.port() value",
                        "lookup port origins %s, remove port origins %s" % (sorted(map(str, lo)), sorted(map(str, ro))))
            for o in lo:
                if o[0] == "call":
                    po = B.origins(B.blocks[o[2]]["term"]["args"][0])
                    R.check(po == {("param", "client_addr", ())}, "C07.R1", "C07.R1:%s:port-of-client-addr" % GAE, q.where(B, o[2]),
                            "the key is the accepted connection's client_addr.port()")

    # ------------------------------------------------------------------ R2
    sib = {}
    for name, opener, op in (("BpfObject::lookup_audit", "map", "get"), ("BpfObject::remove_audit_map_entry", "map_mut", "remove")):
        fn = R.anchor(BPF + name, "C07.R2")
        if not fn:
            continue
        B = mir.Body(fn, F)
        names = set()
        for bi, w, r, t in B.calls_named("Ebpf::" + opener):
            for o in B.origins(t["args"][1]):
                if o[0] == "const":
                    names.add(o[2])
        ctor = set()
        key_ok = False
        for bi, w, r, t in B.calls_named("HashMap::" + op):
            ko = B.origins(t["args"][1])
            for o in ko:
                if o[0] == "call":
                    ctor.add(q.base_name(o[1]))
                    ct = B.blocks[o[2]]["term"]
                    # to_array(&key) <- from_source_port(source_port)
                    ko2 = B.origins(ct["args"][0])
                    for o2 in ko2:
                        if o2[0] == "call":
                            ctor.add(q.base_name(o2[1]))
                            if B.origins(B.blocks[o2[2]]["term"]["args"][0]) == {("param", "source_port", ())}:
                                key_ok = True
        # the typed view of the map (key / value word counts) - a wrong value size makes every aya operation on it fail
        mty = set()
        for bi, w, r, t in B.calls_named("TryFrom::try_from", "try_from"):
            ty = str(B.locals[t["dest"]["l"]].get("ty", ""))
            mm = re.search(r"HashMap<[^,]*, (\[u32; \d+\]), (\[u32; \d+\])>", ty)
            if mm:
                mty.add((mm.group(1), mm.group(2)))
        sib[name] = (names, ctor, key_ok, mty)
        R.check(key_ok, "C07.R2", "C07.R2:%s:key-from-port" % fn["id"], "%s:%s" % (fn["file"], fn["line"]),
                "%s: map '%s', key = %s(source_port)" % (name, sorted(map(str, names)), sorted(ctor)),
                "%s: key is not built from the source_port parameter: %s" % (name, sorted(ctor)))
    if len(sib) == 2:
        a, b = sib["BpfObject::lookup_audit"], sib["BpfObject::remove_audit_map_entry"]
        R.check(a[3] == b[3] and len(a[3]) == 1, "C07.R2", "C07.R2:sibling-map-type", "-",
                "lookup and remove view audit_map with the same key / value types %s" % sorted(a[3]),
                "lookup views the map as %s, remove as %s: with a wrong size aya refuses the map and the record is never consumed"
                % (sorted(a[3]), sorted(b[3])))
        R.check(a[0] == b[0] and len(a[0]) == 1 and a[1] == b[1], "C07.R2", "C07.R2:sibling-agreement", "-",
                "lookup and remove open the same map %s and build the key with the same constructors %s" % (sorted(a[0]), sorted(a[1])),
                "lookup uses %s/%s, remove uses %s/%s" % (sorted(map(str, a[0])), sorted(a[1]), sorted(map(str, b[0])), sorted(b[1])))
    for wrapper, inner in (("redirector::lookup_audit", "BpfObject::lookup_audit"), ("redirector::remove_audit", "BpfObject::remove_audit_map_entry")):
        fn = R.anchor(AP + wrapper, "C07.R2")
        if fn:
            # the call may sit in a closure handed to a shared "with the eBPF object" helper
            from rules.c02 import descendants
            cs = []
            for f_ in [fn] + descendants(F, fn["id"]):
                B = mir.Body(f_, F)
                cs += [(B, c) for c in B.calls_named(inner)]
            ok = len(cs) == 1 and cs[0][0].origins(cs[0][1][3]["args"][1]) == {("param", "source_port", ())}
            R.check(ok, "C07.R2", "C07.R2:%s:passes-port" % fn["id"], "%s:%s" % (fn["file"], fn["line"]),
                    "%s hands its source_port to %s" % (wrapper, inner))

    # ------------------------------------------------------------------ R3
    new_body = TCP_NEW + "::{closure#0}"
    callers = G.callers(TCP_NEW)
    exp = {PS + "handle_new_tcp_connection::{closure#0}::{closure#0}"}
    R.check(callers == exp, "C07.R3", "C07.R3:callers:TcpConnectionContext::new", "-",
            "TcpConnectionContext::new is called only from the per-connection task spawned at accept",
            "callers of TcpConnectionContext::new: %s" % sorted(callers))
    # who constructs a TcpConnectionContext aggregate
    builders = set()
    writers = []
    n_scanned = 0
    for fid, fn in F.fns.items():
        if fn["crate"] != "azure_proxy_agent":
            continue
        n_scanned += 1
        B = None
        for bi, b in enumerate(fn["blocks"]):
            if b["cleanup"]:
                continue
            for s in b["stmts"]:
                if s["k"] != "assign":
                    continue
                if s["rv"]["k"] == "agg" and s["rv"].get("adt") == TCTX:
                    builders.add(fid)
                if s["lhs"]["p"]:
                    B = B or mir.Body(fn, F)
                    for owner, fld in owner_types(B, s["lhs"]):
                        if owner.split("<")[0].strip() == TCTX and fld in IDENTITY_FIELDS:
                            writers.append((fid, fld, s["line"]))
            t = b["term"]
            if t["k"] == "call" and t["dest"]["p"]:
                B = B or mir.Body(fn, F)
                for owner, fld in owner_types(B, t["dest"]):
                    if owner.split("<")[0].strip() == TCTX and fld in IDENTITY_FIELDS:
                        writers.append((fid, fld, t["line"]))
    okb = builders <= {new_body, "<%s as std::clone::Clone>::clone" % TCTX} and new_body in builders
    R.check(okb, "C07.R3", "C07.R3:constructors:TcpConnectionContext", "-",
            "TcpConnectionContext values are built only by ::new and the derived Clone (%d functions scanned)" % n_scanned,
            "TcpConnectionContext constructed in %s" % sorted(builders))
    R.check(not writers, "C07.R3", "C07.R3:field-writers:TcpConnectionContext", "-",
            "no statement outside the constructor writes claims / destination_ip / destination_port of a TcpConnectionContext",
            "identity fields written at %s" % writers)
    # types that can hold an identity
    holders = set()
    for aid, a in F.adts.items():
        for v in a["variants"]:
            for f in v["fields"]:
                if f["ty"].startswith(("std::marker::PhantomData<", "core::marker::PhantomData<")):
                    continue  # serde-derive visitors: a type marker, no value
                if "proxy::Claims" in f["ty"] or "redirector::AuditEntry" in f["ty"] or TCTX in f["ty"]:
                    holders.add(aid)
    allowed = {
        TCTX: "the per-connection context itself",
        PC + "HttpConnectionContext": "per-request view holding a clone of the connection's context",
        AP + "proxy::proxy_authorizer::WireServer": "per-request authorizer built from the connection's claims",
        AP + "proxy::proxy_authorizer::GAPlugin": "per-request authorizer",
        AP + "proxy::proxy_authorizer::Imds": "per-request authorizer",
    }
    extra = holders - set(allowed)
    R.check(not extra, "C07.R3", "C07.R3:identity-holding-types", "-",
            "types with a field holding Claims/AuditEntry/TcpConnectionContext are exactly the reviewed per-connection / per-request ones: %s"
            % sorted(h.rsplit("::", 1)[-1] for h in holders),
            "new type(s) can hold an identity beyond the connection object: %s" % sorted(extra))
    R.tables["C07.identity_holders"] = {k: v for k, v in allowed.items()}
    # proxy::Process is the per-connection half of Claims (pid, name, path, command line of the caller, resolved from the audit
    # entry's pid); a static holding it outlives the connection it was resolved for. (proxy::User is a function of the logon id alone
    # and is cached by design.)
    statics = [c for c in F.consts.values() if ("proxy::Claims" in c["ty"] or "AuditEntry" in c["ty"] or "TcpConnectionContext" in c["ty"]
                                                or "proxy::Process" in c["ty"])]
    R.check(not statics, "C07.R3", "C07.R3:no-static-identity", "-",
            "no static / const has a type containing Claims, proxy::Process, AuditEntry or TcpConnectionContext (%d statics/consts scanned)" % len(F.consts),
            "static identity state: %s" % [c["id"] for c in statics])
    # requests take the context by clone of the accepted connection's object
    hnr_callers = G.callers(PS + "handle_new_http_request")
    for c in sorted(hnr_callers):
        fn = F.fns.get(c)
        if not fn:
            continue
        B = mir.Body(fn, F)
        for bi, w, r, t in B.calls_named("ProxyServer::handle_new_http_request"):
            # whatever the captured copies are called, followed up the closure chain they are the object the accept task built
            from lib import contracts as _ct
            org = _ct.parent_terms(F, B, B.origins(t["args"][2]), depth=6)
            ok = org and all(o[0] == "call" and q.ends(o[1], "TcpConnectionContext::new") for o in org)
            R.check(ok, "C07.R3", R.key("C07.R3", c, "context-arg"), q.where(B, bi),
                    "the request handler receives (a clone of) the captured per-connection context: %s" % sorted(map(str, org)),
                    "context handed to the request handler has origins %s" % sorted(map(str, org)))
    R.floor("C07.R3", len(hnr_callers), 1, "call sites of handle_new_http_request")
    # the captured context of the service closure chain comes from the one TcpConnectionContext::new call
    task = F.fns.get(PS + "handle_new_tcp_connection::{closure#0}::{closure#0}")
    if task:
        B = mir.Body(task, F)
        news = B.calls_named("TcpConnectionContext::new")
        R.check(len(news) == 1, "C07.R3", "C07.R3:one-context-per-connection", q.where(B, news[0][0]) if news else "-",
                "the per-connection task builds exactly one context")
        for bi, b in enumerate(B.blocks):
            for s in b["stmts"]:
                if s["k"] == "assign" and s["rv"]["k"] == "agg" and s["rv"]["ak"] == "closure":
                    for o in s["rv"]["ops"]:
                        if o["k"] in ("copy", "move") and TCTX in B.locals[o["p"]["l"]]["ty"]:
                            org = B.origins(o)
                            ok = org and all(x[0] == "call" and q.ends(x[1], "TcpConnectionContext::new") for x in org)
                            R.check(ok, "C07.R3", R.key("C07.R3", task["id"], "captured-context"), "%s:%s" % (task["file"], s["line"]),
                                    "the context captured by the service closure is (a clone of) the TcpConnectionContext::new result",
                                    "captured context origins %s" % sorted(map(str, org)))

    # ------------------------------------------------------------------ R4 what can make the consume step fail
    # get_audit_entry keeps the looked-up identity when remove_audit fails (it only logs), so every failure source of the removal is a
    # way to leave a record behind for the next connection on that port. The accepted ones: the eBPF object / map is gone (the lookup would
    # have failed as well) or the kernel refuses the delete. Lock contention, time-outs, retries-exhausted etc. are not.
    from lib import contracts
    R.rule("C07.R4", "failure sources of remove_audit: eBPF object/map missing or the kernel's delete error - nothing else")
    srcs, seen4 = contracts.failure_sources(F, AP + "redirector::remove_audit", lambda c: c.startswith(AP + "redirector::"))
    # the wrapper layer in redirector.rs counts as one place, however it is split into helpers
    def layer(f):
        f = f.replace(AP, "").split("::{closure")[0]
        return f if "BpfObject::" in f else "redirector::remove_audit"
    got = {(layer(f), s) for f, s in srcs}
    want = {("redirector::remove_audit", "local Err(Bpf(NullBpfObject))"),
            ("redirector::linux::BpfObject::remove_audit_map_entry", "local Err(Bpf(GetBpfMap))"),
            ("redirector::linux::BpfObject::remove_audit_map_entry", "local Err(Bpf(LoadBpfMapHashMap))"),
            ("redirector::linux::BpfObject::remove_audit_map_entry", "aya::maps::HashMap::remove")}
    for f_ in seen4:
        R.touched(f_)
    R.check(got == want, "C07.R4", "C07.R4:remove_audit:failure-sources", "proxy_agent/src/redirector.rs",
            "remove_audit fails only through %s" % sorted(s for _, s in want),
            "remove_audit has new / other failure sources %s (missing %s): each is a way to accept a connection without consuming its record"
            % (sorted(got - want), sorted(want - got)))
    # ... and it can only succeed by deleting: the Ok result of remove_audit_map_entry is the kernel delete's own result, never a
    # locally built Ok (an early `return Ok(())` for some keys would report "removed" while the record stays)
    rme = F.body_of(BPF + "BpfObject::remove_audit_map_entry")
    if rme:
        Bm = mir.Body(rme, F)
        loc_ok = [o for o in Bm.origins(contracts.RET) if o[0] == "agg" and str(o[1]).endswith("Result::Ok")]
        rmc = [c[0] for c in Bm.calls_named("aya::maps::HashMap::remove", "HashMap::remove")]
        okb = [o[2] for o in loc_ok]
        pth = Bm.path([0], okb, cut_blocks=rmc) if okb else None
        imp_ok, _, ts_ = q.outcome_edges(Bm, q.from_call("HashMap::remove", whole=False), "Ok")
        R.check(len(rmc) == 1 and pth is None, "C07.R4", "C07.R4:remove_audit_map_entry:success-is-the-delete", "%s:%s" % (rme["file"], rme["line"]),
                "remove_audit_map_entry reaches its Ok result only through the map's remove() call",
                "remove_audit_map_entry can report success without deleting (remove() calls: %d)" % len(rmc),
                witness={"path_lines": Bm.path_lines(pth)} if pth else None)
    # the handle on the eBPF object is obtained by a reliable actor round trip (lookup and remove both start with it)
    contracts.reliable_round_trip(F, R, "C07.R4", AP + "shared_state::redirector_wrapper::RedirectorSharedState::get_bpf_object",
                                  "RedirectorSharedState::get_bpf_object")
    # the mutex around the eBPF object is taken with a blocking lock() on the consume path
    ra = F.body_of(AP + "redirector::remove_audit")
    if ra:
        locks = []
        for f_ in sorted(seen4):
            if "BpfObject::" in f_ or f_ not in F.fns:
                continue
            Br = mir.Body(F.fns[f_], F)
            locks += [q.base_name(c[1]) for c in Br.calls if c[1] != mir.POLL and "Mutex" in q.base_name(c[1] or "")]
        R.check(locks == ["std::sync::Mutex::lock"], "C07.R4", "C07.R4:remove_audit:blocking-lock", "%s:%s" % (ra["file"], ra["line"]),
                "remove_audit takes the eBPF object's mutex with lock() (waits, never gives up)", "mutex operations in remove_audit: %s" % locks)
