"""C12 The latched key value never leaves the key store (DESIGN §5 C12) – modular secret flow."""
import re

from lib import cg, mir, q, taint
from rules.c07 import owner_types

AP = "azure_proxy_agent::"
KEY = AP + "key_keeper::key::Key"
KK = AP + "key_keeper::KeyKeeper::"
HC = AP + "common::hyper_client::"

# observable outputs (terminal sinks), by resolved callee
SINK_PATTERNS = [
    ("log", re.compile(r"(^|::)logger(::\w+)*::(write\w*|log\w*)$")),
    ("log", re.compile(r"::logger_manager::(write\w*|log\w*)$")),
    ("log", re.compile(r"::rolling_logger::RollingLogger::write\w*$")),
    ("log", re.compile(r"::ConnectionLogger::write$")),
    ("log", re.compile(r"::(HttpConnectionContext|TcpConnectionContext)::log$")),
    ("console", re.compile(r"^std::io::(_print|_eprint)$")),
    ("event", re.compile(r"::event_logger::write_event\w*$")),
    ("event", re.compile(r"::span::SimpleSpan::write_event\w*$")),
    ("status", re.compile(r"::AgentStatusSharedState::set_module_status_message$")),
    ("status", re.compile(r"::KeyKeeper::update_status_message$")),
    ("status", re.compile(r"::provision::\w+$")),
    ("file", re.compile(r"^std::fs::write$")),
    ("file", re.compile(r"::misc_helpers::json_write_to_file$")),
    ("file", re.compile(r"^<std::fs::File as std::io::Write>::write(_all)?$")),
    ("file", re.compile(r"^serde_json::to_writer(_pretty)?$")),
    ("serialize", re.compile(r"^serde_json::(to_string|to_string_pretty|to_vec|to_value)$")),
    ("header", re.compile(r"^http::HeaderValue::(from_str|from_bytes|from_maybe_shared|try_from)$")),
    ("header", re.compile(r"^http::request::Builder::header$")),
    ("header", re.compile(r"^http::response::Builder::header$")),
    ("body", re.compile(r"::hyper_client::full_body$")),
    ("body", re.compile(r"^http::Response::new$")),
    ("body", re.compile(r"^http_body_util::Full::new$")),
    ("actor-state", re.compile(r"::AgentStatusSharedState::\w+$")),
]
# (sink kind, function in which the call occurs) that is the documented home of the secret
ALLOWED = {
    ("file", KK + "store_local_key"): "the key file inside the restricted key directory (misc_helpers::json_write_to_file::<Key>)",
}


JW = "proxy_agent_shared::misc_helpers::json_write_to_file"
# the shared file writer is itself analysed (what it returns - in particular its error text - goes back to the caller, which puts
# it into status messages and logs): inside it, writing / rendering its argument is its purpose; who may hand it a Key is still
# decided at the call site (only store_local_key)
ALLOWED[("file", JW)] = "json_write_to_file writes its argument to the file it was asked to write (callers are checked at their call site)"
ALLOWED[("serialize", JW)] = "json_write_to_file renders its argument in order to write it (callers are checked at their call site)"


def sink_kind(caller, callee, term):
    b = q.base_name(callee)
    for kind, rx in SINK_PATTERNS:
        if rx.search(b):
            if b.endswith("::misc_helpers::json_write_to_file") or kind == "serialize":
                # report the sink AND keep propagating: the rendered text / the writer's result stay tainted for what follows
                return (kind, None, True)
            return kind
    return None


def run(F, R, tier):
    R.explanation = (
        "Modular secret-flow analysis (interprocedural access-path taint over both agent crates): sources are every read of field "
        "Key::key and, for the Key instantiation of the response reader, the raw response body; taint propagates through moves, "
        "aggregates (variant- and field-sensitive), value-preserving and rendering calls (format_args!, to_string, Error "
        "constructors), awaits, closures and workspace calls; HMAC::finalize and comparisons declassify. Any tainted argument reaching "
        "an observable output (log, console, event, status message, file, header, response body, serialisation) is reported unless it "
        "is the key file written by store_local_key. Plus: inventory of readers of Key::key, no Debug/Display for Key, Serialize of Key "
        "only in the store path, and the key directory is restricted (chown 0:0, mode 0700) before the poll loop that may store a key.")
    R.rule("C12.R1", "readers of field Key::key are exactly the reviewed ones")
    R.rule("C12.R2", "no secret-carrying value reaches an observable output other than the key file")
    R.rule("C12.R3", "Key implements neither Debug nor Display; Key is serialised only in the store path")
    R.rule("C12.R4", "the key directory is restricted (chown root, chmod 0700) before the first key can be stored")
    R.not_decided += ["what the OS does with file modes (File::create default mode inside a 0700 directory)", "swap / core dumps",
                      "that acl_directory's failure is only logged (fault path)",
                      "flows inside dependencies (hyper, serde) beyond the declared propagation rules"]
    R.assumptions.append("external callees: comparisons/len/HMAC::finalize are declassifiers; value-preserving and rendering std calls propagate; "
                         "any other external call with a tainted argument taints its whole result (and a &mut receiver)")
    G = cg.get(F)

    # ------------------------------------------------------------------ R1 readers of Key::key
    readers = {}
    seeds = {}   # fid -> [(local, path)]
    for fid, fn in F.fns.items():
        if fn["crate"] != "azure_proxy_agent":
            continue
        B = None
        for bi, blk in enumerate(fn["blocks"]):
            if blk["cleanup"]:
                continue
            for s in blk["stmts"]:
                if s["k"] != "assign":
                    continue
                for pl in mir.places_in_rvalue(s["rv"]):
                    if not pl["p"]:
                        continue
                    if not any(isinstance(e, dict) and e.get("n") == "key" for e in pl["p"]):
                        continue
                    B = B or mir.Body(fn, F)
                    for owner, fld in owner_types(B, pl):
                        if fld == "key" and owner.split("<")[0].strip().lstrip("&").replace("mut ", "") == KEY:
                            readers.setdefault(fid, []).append(s["line"])
                            seeds.setdefault(fid, []).append((s["lhs"]["l"], taint.place_path(s["lhs"])))
    # a whole Key handed to a serialiser is a read of Key::key as well: the reference given to json_write_to_file::<Key> /
    # serde_json::to_*::<Key> is a source, so whatever that call hands back (the rendered text, an error text quoting the content
    # that could not be written) is followed like the field itself. The temporary reference is seeded, not the Key binding - reads of
    # the other fields (guid for the file name) stay clean.
    for fid, fn in F.fns.items():
        if fn["crate"] not in ("azure_proxy_agent", "proxy_agent_shared") or "_serde::" in fid:
            continue
        for bi, blk in enumerate(fn["blocks"]):
            t = blk["term"]
            if blk["cleanup"] or t["k"] != "call" or "fn" not in t["f"]:
                continue
            b_ = q.base_name(t["f"].get("resolved") or t["f"]["fn"])
            if not (b_.endswith("misc_helpers::json_write_to_file") or b_.startswith("serde_json::to_")):
                continue
            if not any(g.get("head") == KEY for g in t["f"].get("fnargs", [])):
                continue
            ai = 1 if b_.startswith("serde_json::to_writer") else 0
            if len(t["args"]) > ai and t["args"][ai].get("k") in ("copy", "move") and not t["args"][ai]["p"].get("p"):
                seeds.setdefault(fid, []).append((t["args"][ai]["p"]["l"], ()))
    allowed_readers = {
        "<%s as std::clone::Clone>::clone" % KEY: "derived Clone",
        "<%s as std::cmp::PartialEq>::eq" % KEY: "derived comparison",
        KK + "check_local_key": "read-back comparison before attestation",
        AP + "shared_state::key_keeper_wrapper::KeyKeeperSharedState::get_current_key_value::{closure#0}": "hands the secret to signing code",
        AP + "shared_state::key_keeper_wrapper::KeyKeeperSharedState::get_current_key_guid_and_value::{closure#0}": "hands (guid, secret) to signing code",
        AP + "key_keeper::key::attest_key::{closure#0}": "signs the attestation request",
    }
    # a closure nested in a reviewed reader (`get_key().await?.map(|k| k.key)`) is part of that reader
    root = lambda x: x.split("::{closure")[0]
    allowed_roots = {root(k): v for k, v in allowed_readers.items()}
    for fid in sorted(readers):
        ok = fid in allowed_readers or "_serde::" in fid or root(fid) in allowed_roots
        if ok and fid not in allowed_readers and "_serde::" not in fid:
            allowed_readers[fid] = allowed_roots[root(fid)] + " (nested closure)"
        R.check(ok, "C12.R1", "C12.R1:reader:%s" % fid, "%s:%s" % (F.fns[fid]["file"], readers[fid][0]),
                "reads Key::key – reviewed: %s" % allowed_readers.get(fid, "serde-derive generated (de)serialiser"),
                "new reader of field Key::key (line(s) %s); every reader must be reviewed and listed" % readers[fid])
    R.floor("C12.R1", len([f for f in readers if "_serde::" not in f]), 4, "non-generated readers of Key::key")
    R.tables["C12.readers"] = allowed_readers

    # ------------------------------------------------------------------ R2 taint
    rrb = HC + "read_response_body::{closure#0}"

    def seed_hook(E, B):
        for (l, p) in seeds.get(B.id, ()):
            E.add(B.id, l, p, "SECRET", ("read of Key::key", None, B.fn["line"]))
        if B.id == rrb:
            for i, loc in enumerate(B.locals):
                if loc.get("name") == "body_string":
                    E.add(B.id, i, (), "KEYBODY", ("raw key response body (T = Key)", None, B.fn["line"]))

    def return_filter(B, term, label, callee):
        if label != "KEYBODY":
            return True
        # the response body is secret only for the Key instantiation of the generic readers
        for g in term["f"].get("fnargs", []):
            if g.get("head") == KEY:
                return True
        base = q.base_name(callee)
        if base.endswith("hyper_client::read_response_body") or base.endswith("hyper_client::get") \
                or base.endswith("read_response_body::{closure#0}") or base.endswith("hyper_client::get::{closure#0}"):
            # generic caller inside hyper_client keeps the label (T still abstract); concrete other T drops it
            heads = [g.get("head") for g in term["f"].get("fnargs", []) if "ty" in g]
            tys = [g.get("ty") for g in term["f"].get("fnargs", []) if "ty" in g]
            if tys and tys[0] == "T":
                return True
            # poll of the coroutine: decided at the creating call; find it through the awaited future's type args
            if term["f"].get("fn") == mir.POLL:
                sty = term["f"].get("fnargs", [{}])[0].get("ty", "")
                return bool(re.search(r"[<, ]%s[,>]" % re.escape(KEY), sty)) or bool(re.search(r"[<, ]T[,>]", sty))
            return False
        return True

    def skip(callee):
        b = q.base_name(callee)
        return b in ("serde_json::from_str", "serde_xml_rs::from_str", "serde_json::from_slice", "serde_json::from_reader")

    def clean(callee, term):
        # tokio's SendError<T> / oneshot RecvError Display is a fixed text ("channel closed"), it never renders T
        for g in term["f"].get("fnargs", []):
            ty = g.get("ty", "")
            if ty.lstrip("&").startswith(("tokio::sync::mpsc::error::SendError<", "tokio::sync::oneshot::error::RecvError")):
                if q.ends(callee, "to_string", "new_display"):
                    return True
        return False

    E = taint.Engine(F, G, return_filter=return_filter, sink_fn=sink_kind, skip_callee=skip, clean_callee=clean)
    E.seed_hooks.append(seed_hook)
    n = E.run()
    R.engine = E
    nfacts = sum(1 for f in E.facts.values() for v in f.values() for (_p, l) in v if not taint.is_sym(l))
    tainted_fns = [f for f, v in E.facts.items() if any(not taint.is_sym(l) for s in v.values() for (_p, l) in s)]
    R.touched(*tainted_fns)
    R.tables["C12.taint"] = {"functions_processed": n, "facts": nfacts, "functions_with_taint": len(tainted_fns)}
    hrs_body = AP + "proxy::proxy_server::ProxyServer::handle_request_with_signature::{closure#0}"
    cs_summary = [1 for (p_, l_) in E.facts[AP + "common::helpers::compute_signature"].get(0, ()) if l_ == ("P", 1)]
    R.check(nfacts >= 10 and hrs_body in tainted_fns and cs_summary, "C12.R2", "C12.R2:engine-sanity", "-",
            "taint engine carried the Key::key reads into the signing route and summarised compute_signature as returning its key "
            "parameter on the Err side (%d absolute facts in %d functions, %d functions processed)" % (nfacts, len(tainted_fns), n),
            "taint engine did not reach the signing route / compute_signature summary: the analysis is blind")
    for key, f in sorted(E.findings.items(), key=str):
        owner = f["fn"].split("::{closure")[0]
        allow = ALLOWED.get((f["kind"], owner))
        ikey = "C12.R2:%s:%s:%s:%s:from=%s" % (owner, f["kind"], f["sink"].rsplit("::", 1)[-1], f["label"], f["entry"])
        if f["kind"] == "actor-state" and not f["sink"].endswith("set_module_status_message"):
            continue
        if allow:
            R.ok("C12.R2", ikey, f["where"], "allowed receiver: %s" % allow, witness={"trace": f["trace"]})
        else:
            what = {"SECRET": "the key value", "KEYBODY": "the raw key response body"}[f["label"]]
            R.fail("C12.R2", ikey, f["where"], "%s reaches %s output %s in %s (line(s) %s)" % (
                what, f["kind"], f["sink"], owner.replace(AP, ""), sorted(f["sites"])), witness={"trace": f["trace"]})
    # ------------------------------------------------------------------ R3
    bad_impls = []
    for im in F.impls:
        if im.get("self_head") == KEY and im.get("trait") in ("std::fmt::Debug", "std::fmt::Display", "core::fmt::Debug", "core::fmt::Display"):
            bad_impls.append(im["trait"])
    R.check(not bad_impls, "C12.R3", "C12.R3:no-debug-display:Key", "proxy_agent/src/key_keeper/key.rs",
            "Key implements neither Debug nor Display (it cannot be formatted as a whole)", "Key implements %s" % bad_impls)
    ser_sites = []
    for fid, fn in F.fns.items():
        if fn["crate"] not in ("azure_proxy_agent", "proxy_agent_shared"):
            continue
        for bi, blk in enumerate(fn["blocks"]):
            t = blk["term"]
            if t["k"] != "call" or "fn" not in t["f"]:
                continue
            b = q.base_name(t["f"].get("resolved") or t["f"]["fn"])
            if b.startswith("serde_json::to_") or b.endswith("misc_helpers::json_write_to_file") or b.endswith("serde::Serialize::serialize"):
                for g in t["f"].get("fnargs", []):
                    ty = g.get("ty", "")
                    if KEY in ty.replace(KEY + "Status", "").replace(KEY + "Keeper", ""):
                        if "_serde::" in fid:
                            continue
                        ser_sites.append((fid, t["line"], b))
    for fid, line, b in ser_sites:
        owner = fid.split("::{closure")[0]
        R.check(owner == KK + "store_local_key", "C12.R3", R.key("C12.R3", owner, "serialize-Key"), "%s:%s" % (F.fns[fid]["file"], line),
                "Key is serialised by %s inside store_local_key (the key file)" % b, "Key is serialised by %s outside the store path" % b)
    R.floor("C12.R3", len(ser_sites), 1, "serialisation sites of Key")

    # ------------------------------------------------------------------ R4
    ps = R.anchor(KK + "poll_secure_channel_status", "C12.R4")
    if ps:
        B = mir.Body(ps, F)
        acl = B.calls_named("acl::linux_acl::acl_directory", "acl::acl_directory")
        lp = B.calls_named("KeyKeeper::loop_poll")
        okd = bool(acl) and bool(lp) and B.path([0], [c[0] for c in lp], cut_blocks=[c[0] for c in acl]) is None
        R.check(okd, "C12.R4", "C12.R4:%s:acl-before-loop" % ps["id"], q.where(B, acl[0][0]) if acl else "-",
                "acl_directory(key_dir) is on every path to the creation of the loop_poll future",
                "loop_poll can start without acl_directory having run")
        for c in acl:
            org = B.origins(c[3]["args"][0])
            R.check(org and all(o[0] == "param" and o[1] == "self" and o[2][:1] == ("key_dir",) for o in org), "C12.R4",
                    R.key("C12.R4", ps["id"], "acl-arg"), q.where(B, c[0]), "acl_directory receives self.key_dir")
    sk_callers = G.callers(KK + "store_key")
    R.check(sk_callers == {KK + "loop_poll::{closure#0}"}, "C12.R4", "C12.R4:callers:store_key", "-",
            "store_key is called only from loop_poll", "callers of store_key: %s" % sorted(sk_callers))
    sl_callers = G.callers(KK + "store_local_key")
    R.check(sl_callers <= {KK + "store_key", KK + "fetch_key"}, "C12.R4", "C12.R4:callers:store_local_key", "-",
            "store_local_key is called only from store_key", "callers of store_local_key: %s" % sorted(sl_callers))
    # the store path must not be able to (re)create the key directory: only poll_secure_channel_status creates it, followed by the ACL
    from lib import sympath
    S = sympath.Sym(F, ["azure_proxy_agent", "proxy_agent_shared"])
    effs = S.effects(KK + "store_local_key")
    mk = [(e[0], sorted(map(str, e[1][0])), e[2]) for e in effs if e[0] in ("create_dir_all", "create_dir") and
          not any(c.startswith("proxy_agent_shared::logger::") for c in (e[4] if len(e) > 4 else ()))]
    kinds = sorted({e[0] for e in effs if not any(c.startswith("proxy_agent_shared::logger::") for c in (e[4] if len(e) > 4 else ()))})
    R.check(not mk and "rename" in kinds, "C12.R4", "C12.R4:%sstore_local_key:no-directory-creation" % KK, "-",
            "the key store path performs %s and never creates a directory: the key directory exists only as created and restricted "
            "by poll_secure_channel_status" % kinds,
            "the key store path can create the key directory itself (%s): a missing directory is re-created with default permissions "
            "and the key file is written into it without acl_directory" % mk)
    if ps:
        Bp = mir.Body(ps, F)
        mkd = Bp.calls_named("misc_helpers::try_create_folder")
        aclc = Bp.calls_named("acl::linux_acl::acl_directory", "acl::acl_directory")
        okm = bool(mkd) and bool(aclc) and all(Bp.path([c[0]], [x[0] for x in Bp.calls_named("KeyKeeper::loop_poll")], cut_blocks=[a[0] for a in aclc]) is None for c in mkd)
        R.check(okm, "C12.R4", "C12.R4:%s:create-then-acl" % ps["id"], "-",
                "poll_secure_channel_status creates the key directory and restricts it before the poll loop can start")
    acl_fn = R.anchor(AP + "acl::linux_acl::acl_directory", "C12.R4")
    if acl_fn:
        B = mir.Body(acl_fn, F)
        ch = B.calls_named("nix::unistd::chown")
        ids = []
        for c in B.calls_named("Uid::from_raw", "Gid::from_raw"):
            a = c[3]["args"][0]
            ids.append(a.get("val") if a["k"] == "const" else None)
        okc = len(ch) == 1 and ids == [0, 0] and any(o[0] == "param" and o[1] == "dir_to_acl" for o in B.origins(ch[0][3]["args"][0]))
        R.check(okc, "C12.R4", "C12.R4:%s:chown-root" % acl_fn["id"], "%s:%s" % (acl_fn["file"], acl_fn["line"]), "chown(dir, uid 0, gid 0) on the argument")
        fm = B.calls_named("PermissionsExt::from_mode")
        okm = any(c[3]["args"][0]["k"] == "const" and c[3]["args"][0].get("val") == 0o700 for c in fm)
        sp = B.calls_named("std::fs::set_permissions")
        okp = any(any(o[0] == "param" and o[1] == "dir_to_acl" for o in B.origins(c[3]["args"][0])) and
                  any(o[0] == "call" and q.ends(o[1], "from_mode") for o in B.origins(c[3]["args"][1])) for c in sp)
        R.check(okm and okp, "C12.R4", "C12.R4:%s:mode-0700" % acl_fn["id"], "-", "set_permissions(dir, from_mode(0o700)) on the argument")
        # the chmod is attempted on every path - in particular also when the chown was refused (a failed chown must not leave 0755)
        spb = [c[0] for c in sp]
        pth = B.path([0], B.return_blocks(), cut_blocks=spb)
        R.check(bool(spb) and pth is None, "C12.R4", "C12.R4:%s:chmod-on-every-path" % acl_fn["id"], q.where(B, spb[0]) if spb else "-",
                "acl_directory reaches set_permissions(0o700) on every path to its return (a refused chown does not skip it)",
                "acl_directory can return without attempting set_permissions(0o700) (e.g. after a failed chown): the key directory keeps its "
                "creation mode and the key file is written into it", witness={"path_lines": B.path_lines(pth)} if pth else None)

    # The recorded findings (known_findings.jsonl) all stem from one construct: compute_signature echoes the key text in Error::Hex when
    # the key is not valid hex. That input class is pinned here, so that the same sink reached for *more* keys (another decoder, a length
    # check, ...) is a new violation and not covered by the recorded finding.
    cs_ = F.fns.get(AP + "common::helpers::compute_signature")
    if cs_:
        Bc = mir.Body(cs_, F)
        echo = [bi for bi, blk in enumerate(Bc.blocks) if not blk["cleanup"] for s in blk["stmts"]
                if s["k"] == "assign" and s["rv"]["k"] == "agg" and str(s["rv"].get("variant") or "") == "Hex"]
        triggers = set()
        for bi, w, r, t in Bc.calls:
            if w == mir.POLL:
                continue
            nm = q.base_name(r or w or "")
            imp, _, ts = q.outcome_edges(Bc, lambda org, _x=None, b_=bi: bool(org) and all(o[0] == "call" and o[2] == b_ for o in org), "Err")
            if ts and echo and Bc.path([0], echo, cut_edges=imp) is None:
                triggers.add(nm)
        R.check(bool(echo) and triggers == {"hex::decode"}, "C12.R2", "C12.R2:%s:echo-only-for-non-hex-key" % cs_["id"], "%s:%s" % (cs_["file"], cs_["line"]),
                "compute_signature puts the key text into an error only on the Err outcome of hex::decode(key) (the recorded finding's input class: a key that is not hex)",
                "compute_signature now echoes the key text under %s (expected: only the Err outcome of hex::decode): more key values than the "
                "recorded finding covers end up in logs" % (sorted(triggers) or "an unrecognised condition"))
