"""C20 Extension health has hysteresis (DESIGN §5 C20) – interval abstract interpretation of StatusState::update_state."""
from lib import absint, cg, mir, paths, q

EXT = "ProxyAgentExt::"
SS = EXT + "common::StatusState"
US = SS + "::update_state"
SVC = EXT + "service_main::service_state::ServiceState::update_service_state_entry"


def run(F, R, tier):
    R.explanation = (
        "Constant and who-may-write facts (threshold 20 written only in the constructor, MAX_CONSECUTIVE_COUNT 10000 >= 20, counters and "
        "current_state written only in update_state, MAX_STATE_COUNT 120 the only max_count) plus an interval / finite-string abstract "
        "interpretation of update_state (loop-free; forward dataflow with input partitioning over pre-state x observation x counter "
        "classes): for every cell the post-state set and counter transformers are computed and checked - failure => fail' = min(fail+1, MAX), "
        "succ' = 0; success => fail' = 0, succ' in [1, MAX]; ERROR is a post-state only on a failure from TRANSITIONING with fail' >= 20 "
        "(or staying in ERROR); success from ERROR leaves ERROR; success from SUCCESS/TRANSITIONING yields SUCCESS; saturation does not "
        "wedge. The notifier's three insert sites are checked by path predicates.")
    for rid, txt in (("C20.R1", "constants and writers"), ("C20.R2", "abstract transition relation of update_state"),
                     ("C20.R3", "update_service_state_entry: true on new/changed/count>=max, else count+1")):
        R.rule(rid, txt)
    R.not_decided += ["'at most once per 120 repetitions' follows from R3's shape (count restarts at 1 on emission, +1 otherwise) and is argued, not computed"]
    G = cg.get(F)

    # ------------------------------------------------------------------ R1
    us = R.anchor(US, "C20.R1")
    new = R.anchor(SS + "::new", "C20.R1")
    mxc = F.consts.get(SS + "::MAX_CONSECUTIVE_COUNT")
    thr = None
    if new:
        B = mir.Body(new, F)
        for b in B.blocks:
            for s in b["stmts"]:
                if s["k"] == "assign" and s["rv"]["k"] == "agg" and s["rv"].get("adt") == SS:
                    names = s["rv"]["fields"]
                    vals = {}
                    for nm, o in zip(names, s["rv"]["ops"]):
                        vals[nm] = o.get("val") if o["k"] == "const" else None
                    thr = vals.get("transition_to_error_threshold")
                    R.check(vals.get("consecutive_fail_count") == 0 and vals.get("consecutive_success_count") == 0 and thr == 20, "C20.R1",
                            "C20.R1:%s:initial-values" % new["id"], "%s:%s" % (new["file"], new["line"]),
                            "StatusState::new: counters 0, transition_to_error_threshold = %s" % thr, "StatusState::new builds %s" % vals)
    R.check(mxc and thr and mxc["val"] >= thr, "C20.R1", "C20.R1:const:MAX_CONSECUTIVE_COUNT", "-",
            "MAX_CONSECUTIVE_COUNT (%s) >= threshold (%s): saturation cannot hide the threshold" % (mxc and mxc["val"], thr))
    # field writers
    writers = {}
    for fid, fn in F.fns.items():
        if fn["crate"] != "ProxyAgentExt":
            continue
        for b in fn["blocks"]:
            if b["cleanup"]:
                continue
            for s in b["stmts"]:
                if s["k"] == "assign" and s["lhs"]["p"]:
                    for e in s["lhs"]["p"]:
                        if isinstance(e, dict) and e.get("n") in ("consecutive_fail_count", "consecutive_success_count", "transition_to_error_threshold", "current_state"):
                            writers.setdefault(e["n"], set()).add(fid)
                if s["k"] == "assign" and s["rv"]["k"] == "agg" and s["rv"].get("adt") == SS:
                    writers.setdefault("<construct>", set()).add(fid)
    okw = all(v <= {US} for k, v in writers.items() if k in ("consecutive_fail_count", "consecutive_success_count", "current_state")) and \
        not writers.get("transition_to_error_threshold") and writers.get("<construct>") == {SS + "::new"}
    R.check(okw, "C20.R1", "C20.R1:field-writers", "-",
            "counters and current_state are written only in update_state; the threshold only by the constructor", "writers: %s" % {k: sorted(v) for k, v in writers.items()})
    msc = F.consts.get(EXT + "service_main::MAX_STATE_COUNT")
    R.check(msc and msc["val"] == 120, "C20.R1", "C20.R1:const:MAX_STATE_COUNT", "-", "MAX_STATE_COUNT == 120")
    n = 0
    for c in G.callers(SVC):
        fn = F.fns.get(c)
        if not fn:
            continue
        Bc = mir.Body(fn, F)
        for bi, w, r, t in Bc.calls_named("ServiceState::update_service_state_entry"):
            n += 1
            R.check(q.const_args(Bc, t, 3) == {EXT + "service_main::MAX_STATE_COUNT"}, "C20.R1", R.key("C20.R1", c, "max_count-arg"), q.where(Bc, bi),
                    "update_service_state_entry is given MAX_STATE_COUNT")
    R.floor("C20.R1", n, 1, "call sites of update_service_state_entry")

    # ------------------------------------------------------------------ R2 abstract transition relation
    if us and mxc and thr:
        MAX = mxc["val"]
        B = mir.Body(us, F)
        try:
            I = absint.Interp(B)
        except absint.NotAnalysable as e:
            R.fail("C20.R2", "C20.R2:%s:anchor-missing" % US, "-", "update_state left the analysable fragment: %s" % e)
            I = None
        if I:
            STATES = {"S": "success", "T": "transitioning", "E": "error", "O": "OTHER"}
            lits = {}
            for k, nm in (("S", "SUCCESS_STATUS"), ("T", "TRANSITIONING_STATUS"), ("E", "ERROR_STATUS")):
                c = F.consts.get(EXT + "constants::" + nm)
                if c:
                    STATES[k] = c["val"]
            fail_classes = [(0, thr - 2), (thr - 1, MAX - 1), (MAX, MAX)]
            succ_classes = [(0, 0), (1, MAX - 1), (MAX, MAX)]
            cells = 0
            table = {}
            for sk, slit in STATES.items():
                for op in (True, False):
                    for fc in fail_classes:
                        for sc in succ_classes:
                            init = {("l", 2): ("bool", frozenset([op])),
                                    ("f", "current_state"): ("str", frozenset([slit])),
                                    ("f", "consecutive_fail_count"): ("int", fc[0], fc[1]),
                                    ("f", "consecutive_success_count"): ("int", sc[0], sc[1]),
                                    ("f", "transition_to_error_threshold"): ("int", thr, thr)}
                            I.notes = []
                            try:
                                out = I.run(init)
                            except absint.NotAnalysable as e:
                                R.fail("C20.R2", "C20.R2:%s:anchor-missing" % US, "-", "update_state left the analysable fragment: %s" % e)
                                out = None
                            if out is None:
                                continue
                            cells += 1
                            post = out.get(("f", "current_state"), absint.TOP)
                            f2 = out.get(("f", "consecutive_fail_count"), absint.TOP)
                            s2 = out.get(("f", "consecutive_success_count"), absint.TOP)
                            ret = out.get(("l", 0), absint.TOP)
                            table[(sk, op, fc, sc)] = (post, f2, s2, ret, list(I.notes))
            inv = {v: k for k, v in STATES.items()}

            def names(v):
                return frozenset(inv.get(x, "?" + str(x)) for x in v[1]) if v[0] == "str" else frozenset(["TOP"])
            viol = []
            for (sk, op, fc, sc), (post, f2, s2, ret, notes) in sorted(table.items(), key=str):
                P = names(post)
                cell = "pre=%s obs=%s fail=%s succ=%s" % (sk, "success" if op else "failure", list(fc), list(sc))
                # counters
                if op:
                    exp_s = (min(sc[0] + 1, MAX), min(sc[1] + 1, MAX))
                    if f2 != ("int", 0, 0):
                        viol.append((cell, "success must reset the failure counter; got %s" % (f2,)))
                    if s2 != ("int", exp_s[0], exp_s[1]):
                        viol.append((cell, "success counter must become min(succ+1, MAX)=%s; got %s" % (exp_s, s2)))
                else:
                    exp_f = (min(fc[0] + 1, MAX), min(fc[1] + 1, MAX))
                    if s2 != ("int", 0, 0):
                        viol.append((cell, "failure must reset the success counter; got %s" % (s2,)))
                    if f2 != ("int", exp_f[0], exp_f[1]):
                        viol.append((cell, "failure counter must become min(fail+1, MAX)=%s; got %s" % (exp_f, f2)))
                # returned value is the post state
                if ret != post:
                    viol.append((cell, "returned value %s differs from stored state %s" % (ret, post)))
                # state relation
                if "E" in P:
                    if op:
                        viol.append((cell, "ERROR reported directly after a success"))
                    elif sk == "E":
                        pass
                    elif sk == "T":
                        if min(fc[0] + 1, MAX) < thr and P != frozenset(["T"]):
                            # the class [0, thr-2] must never reach ERROR
                            viol.append((cell, "ERROR reachable with fewer than %d consecutive failures" % thr))
                    else:
                        viol.append((cell, "ERROR entered from state %s" % sk))
                if not op and sk == "T" and fc[0] + 1 >= thr and P != frozenset(["E"]):
                    viol.append((cell, "TRANSITIONING with >= %d consecutive failures must become ERROR (saturation must not wedge); got %s" % (thr, sorted(P))))
                if not op and sk == "T" and fc[1] + 1 < thr and P != frozenset(["T"]):
                    viol.append((cell, "TRANSITIONING with < %d failures must stay TRANSITIONING; got %s" % (thr, sorted(P))))
                if op and sk == "E" and P != frozenset(["T"]):
                    viol.append((cell, "a success from ERROR must yield TRANSITIONING; got %s" % sorted(P)))
                if op and sk in ("S", "T") and P != frozenset(["S"]):
                    viol.append((cell, "a success from %s must yield SUCCESS; got %s" % (sk, sorted(P))))
                if not op and sk == "S" and P != frozenset(["T"]):
                    viol.append((cell, "a failure from SUCCESS must yield TRANSITIONING; got %s" % sorted(P)))
                if sk == "O" and not P <= frozenset(["T"]):
                    viol.append((cell, "an unknown state must normalise to TRANSITIONING; got %s" % sorted(P)))
                if any("panic" in x for x in notes):
                    viol.append((cell, "; ".join(notes)))
            R.tables["C20.transition_relation"] = {"%s/%s/fail%s/succ%s" % (k[0], "ok" if k[1] else "fail", list(k[2]), list(k[3])):
                                                   {"post": sorted(names(v[0])), "fail'": list(v[1][1:]) if v[1][0] == "int" else "TOP",
                                                    "succ'": list(v[2][1:]) if v[2][0] == "int" else "TOP"} for k, v in table.items()}
            R.check(cells == 72, "C20.R2", "C20.R2:%s:cells" % US, "%s:%s" % (us["file"], us["line"]),
                    "abstract interpretation covered all %d partition cells (4 states x 2 observations x 3 x 3 counter classes)" % cells)
            if viol:
                for cell, why in viol[:12]:
                    R.fail("C20.R2", R.key("C20.R2", US, "cell"), "%s:%s" % (us["file"], us["line"]), "%s: %s" % (cell, why))
            else:
                R.ok("C20.R2", "C20.R2:%s:relation" % US, "%s:%s" % (us["file"], us["line"]),
                     "transition relation holds in all %d cells: counters saturate at %d and reset on the opposite observation; ERROR only from "
                     "TRANSITIONING after >= %d consecutive failures; one success leaves ERROR; a success from SUCCESS/TRANSITIONING yields SUCCESS" % (cells, MAX, thr))

    # ------------------------------------------------------------------ R3
    sv = R.anchor(SVC, "C20.R3")
    if sv:
        B = mir.Body(sv, F)
        try:
            ps = paths.enumerate_paths(B, allow_loops=True)
        except paths.TooManyPaths as e:
            ps = []
            R.fail("C20.R3", "C20.R3:%s:not-analysable" % sv["id"], "-", str(e))
        rows = set()
        for p in ps:
            atoms = paths.path_atoms(B, F, p)
            ret = None
            ins = None
            # values along this path: constants, tuples and `count + 1` are followed through locals and tuple fields, so that
            # `let (updated, n) = if .. { (true, 1) } else { (false, count + 1) }; insert(.., n); updated` reads like the literal form
            env = {}

            def val_of(o):
                if o["k"] == "const":
                    return ("const", o.get("val"))
                pl = o["p"]
                v = env.get(pl["l"])
                for e_ in pl["p"]:
                    if v is not None and v[0] == "tuple" and isinstance(e_, dict) and "f" in e_ and e_["f"] < len(v[1]):
                        v = v[1][e_["f"]]
                    else:
                        v = None
                        break
                if v is not None:
                    return v
                org = B.origins(o)
                if any(x[0] == "bin" and str(x[1]).startswith("Add") for x in org):
                    return ("add",)
                return ("opaque",)
            for b, _ in p:
                for s in B.blocks[b]["stmts"]:
                    if s["k"] != "assign":
                        continue
                    rv = s["rv"]
                    slot = None
                    if rv["k"] == "agg" and rv["ak"] == "tuple" and len(rv["ops"]) == 2 and not s["lhs"]["p"]:
                        tv_ = ("tuple", [val_of(x) for x in rv["ops"]])
                        env[s["lhs"]["l"]] = tv_
                        # the (value, count) pair handed to insert: its first component is a String
                        if "String" in str(B.locals[s["lhs"]["l"]].get("ty", "")).split(",")[0]:
                            slot = tv_[1][1]
                    elif not s["lhs"]["p"] and rv["k"] == "use":
                        env[s["lhs"]["l"]] = val_of(rv["o"])
                    elif not s["lhs"]["p"] and rv["k"] == "bin" and str(rv["op"]).startswith("Add"):
                        env[s["lhs"]["l"]] = ("tuple", [("add",), ("opaque",)]) if "Overflow" in str(rv["op"]) else ("add",)
                    elif not s["lhs"]["p"]:
                        env.pop(s["lhs"]["l"], None)
                    elif s["lhs"]["p"] == ["*"] and rv["k"] == "use":
                        # in-place spelling: `*count = ..` through the &mut handed out by get_mut (the count is field 1 of the entry)
                        sl_ = B.origins({"k": "copy", "p": {"l": s["lhs"]["l"], "p": []}})
                        prm = [x for x in sl_ if x[0] == "param"]
                        if prm and all(x[1] == "self" and x[2][:1] == ("state_map",) and x[2][-1:] == ("1",) for x in prm):
                            slot = val_of(rv["o"])
                    if slot is not None:
                        ins = "const:%s" % slot[1] if slot[0] == "const" else ("count+1" if slot[0] == "add" else "expr")
                    if s["lhs"]["l"] == 0 and not s["lhs"]["p"]:
                        v0 = env.get(0)
                        ret = bool(v0[1]) if v0 and v0[0] == "const" else None
                t_ = B.blocks[b]["term"]
                if t_["k"] == "call" and not t_["dest"]["p"]:
                    env.pop(t_["dest"]["l"], None)
            entry = [a for a in atoms if a[0].startswith("discr(") and ("state_map" in a[0] or "HashMap::get" in a[0])]
            found = bool(entry) and entry[0][1] == "Some"
            same = [a[1] for a in atoms if a[0].startswith("eq(") and "param:state_value" in a[0]]
            below = [a[1] for a in atoms if a[0].startswith("Lt(") and "param:max_count" in a[0]]
            cond = [a for a in atoms if not a[0].startswith("discr(")]
            if not found:
                exp = (True, "const:1", "no entry")
            elif same == [False]:
                exp = (True, "const:1", "value changed")
            elif same == [True] and below == [False]:
                exp = (True, "const:1", "same value, count >= max_count")
            elif same == [True] and below == [True]:
                exp = (False, "count+1", "same value, count < max_count")
            else:
                exp = (None, None, "unrecognised path %s" % cond)
            rows.add(exp[2])
            R.check((ret, ins) == exp[:2], "C20.R3", "C20.R3:%s:row:%s" % (sv["id"], exp[2]), "%s:%s" % (sv["file"], sv["line"]),
                    "%s => returns %s and stores %s" % (exp[2], ret, ins), "%s => returns %s and stores %s; expected %s / %s" % (exp[2], ret, ins, exp[0], exp[1]))
        R.check(rows == {"no entry", "value changed", "same value, count >= max_count", "same value, count < max_count"}, "C20.R3",
                "C20.R3:%s:all-rows" % sv["id"], "-", "all four rows of the notifier table are present", "rows: %s" % sorted(rows))
        R.floor("C20.R3", len(ps), 3, "paths of update_service_state_entry")

    # ------------------------------------------------------------------ R4 one observation = one step of the state machine
    # the thresholds of R1/R2 are counted in update_state() calls; they are "consecutive observations" only if every health observation
    # of the monitor loop performs exactly one call - on every path, through every helper
    from lib import paths as P
    R.rule("C20.R4", "every observation reporter called by the monitor loop performs exactly one update_state() on every path")
    EXTC = "ProxyAgentExt"
    memo = {}

    def rng(fid, depth=5):
        if fid in memo:
            return memo[fid]
        fn = F.fns.get(fid)
        if fn is None or depth <= 0:
            return (0, 0)
        memo[fid] = (0, 0)
        Bf = mir.Body(fn, F)
        lo, hi = None, 0
        try:
            allp = P.enumerate_paths(Bf, allow_loops=True, max_paths=50000)
        except P.TooManyPaths:
            memo[fid] = (0, 99)
            return memo[fid]
        for p in allp:
            a = 0
            b = 0
            for blk, _ in p:
                t = Bf.blocks[blk]["term"]
                if t["k"] != "call":
                    continue
                w, r = mir.callee_of(t)
                c = r or w or ""
                if c == mir.POLL:
                    continue
                if q.ends(c, "StatusState::update_state"):
                    a += 1
                    b += 1
                elif c in F.fns and F.fns[c]["crate"] == EXTC:
                    x = rng(c, depth - 1)
                    a += x[0]
                    b += x[1]
            lo = a if lo is None else min(lo, a)
            hi = max(hi, b)
        memo[fid] = (lo or 0, hi)
        return memo[fid]
    mt = F.fns.get("ProxyAgentExt::service_main::monitor_thread::{closure#0}")
    if not mt:
        R.fail("C20.R4", "C20.R4:anchor-missing:monitor_thread", "-", "anchor-missing=ProxyAgentExt::service_main::monitor_thread::{closure#0}")
    else:
        Bm = mir.Body(mt, F)
        R.touched(mt["id"])
        reporters = []
        for bi, w, r, t in Bm.calls:
            c = r or w or ""
            if w == mir.POLL or c not in F.fns or F.fns[c]["crate"] != EXTC:
                continue
            x = rng(c)
            if x[1] > 0 and c not in reporters:
                reporters.append(c)
        for c in reporters:
            x = rng(c)
            R.touched(c)
            R.check(x == (1, 1), "C20.R4", "C20.R4:%s:one-step-per-observation" % c, "%s:%s" % (F.fns[c]["file"], F.fns[c]["line"]),
                    "%s: exactly one update_state() on every path (helpers included)" % c.rsplit("::", 1)[-1],
                    "%s performs between %d and %d update_state() calls per observation: a single failed observation can count more than once "
                    "(or not at all) towards the 20-failure threshold" % (c.rsplit("::", 1)[-1], x[0], x[1]))
        R.floor("C20.R4", len(reporters), 2, "observation reporters called by the monitor loop")
