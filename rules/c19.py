"""C19 Disk usage stays within configured bounds – decided clauses (DESIGN §5 C19)."""
from lib import cg, mir, q
from rules.c18 import for_loops

AP = "azure_proxy_agent::"
RL = "proxy_agent_shared::logger::rolling_logger::RollingLogger::"
K = AP + "common::constants::"


def ge_tests(B, left_pred, right_pred):
    """switches on `a >= b` (any spelling) with origins of a / b satisfying the predicates: [(sw, edge_ge_true, edge_ge_false)]"""
    out = []
    for sb in B.switch_blocks():
        e, tr, fa = B.truth_edges(sb)
        if e[0] == "op" and e[1]["k"] in ("copy", "move"):
            # a bool handed back by a helper analysed in place: `true` can only come from the one comparison, the other ways out
            # of the helper return the literal false (listing failed -> "not full")
            org = B.origins(e[1])
            bins = [o for o in org if o[0] == "bin"]
            rest = [o for o in org if o[0] != "bin"]
            if len(bins) == 1 and all(o[0] == "const" and not o[2] for o in rest):
                for s_ in B.blocks[bins[0][2]]["stmts"]:
                    if s_["k"] == "assign" and s_["rv"]["k"] == "bin" and s_["rv"]["op"] == bins[0][1]:
                        e = ("bin", s_["rv"]["op"], s_["rv"]["a"], s_["rv"]["b"], bins[0][2])
        if e[0] == "discr":
            # `if let Some(surplus) = a.checked_sub(b)`: Some exactly when a >= b
            org = B.origins({"k": "copy", "p": e[1]})
            cs = [o for o in org if o[0] == "call" and q.ends(o[1], "checked_sub") and not o[3]]
            if len(cs) == 1 and len(org) == 1:
                ca = B.blocks[cs[0][2]]["term"]["args"]
                if len(ca) == 2 and left_pred(B.origins(ca[0])) and right_pred(B.origins(ca[1])):
                    out.append((sb, tr, fa))
            continue
        if e[0] != "bin":
            continue
        op, a, b = e[1], B.origins(e[2]), B.origins(e[3])
        if op == "Ge" and left_pred(a) and right_pred(b):
            out.append((sb, tr, fa))
        elif op == "Lt" and left_pred(a) and right_pred(b):
            out.append((sb, fa, tr))
        elif op == "Le" and left_pred(b) and right_pred(a):
            out.append((sb, tr, fa))
        elif op == "Gt" and left_pred(b) and right_pred(a):
            out.append((sb, fa, tr))
    return out


def is_len(org):
    return bool(org) and all(o[0] == "call" and q.ends(o[1], "len") for o in org)


def run(F, R, tier):
    R.explanation = (
        "The numeric bounds (file counts / sizes after every step of every history) depend on counting loops over directory listings and "
        "are NOT decided. Decided necessary conditions: (R1) in the rolling logger every write is dominated by roll_if_needed, which archives "
        "on len >= max_log_file_size, and archive_file deletes from the front of the sorted listing under count >= max; (R2) the event "
        "logger's 'files.len() >= max_event_file_count' edge reaches no file write in that iteration and counts the directory it writes "
        "to; (R3) the rule-dump writer runs its deletion loop, guarded by len >= max_file_count over the ascending-sorted listing, before "
        "writing the new file, and is called with MAX_LOG_FILE_COUNT; (R4) the loggers are constructed from the size/count constants.")
    for rid, txt in (("C19.R1", "roll before write; archive on size; delete oldest under count >= max"),
                     ("C19.R2", "event file cap: no write on the cap edge; same directory"),
                     ("C19.R3", "rule dumps: delete oldest before writing, guarded by the cap; called with the constant"),
                     ("C19.R4", "loggers constructed from the configured constants")):
        R.rule(rid, txt)
    R.not_decided += ["off-by-one arithmetic of the deletion loops", "restarts finding a full directory", "sizes 'by more than one write'",
                      "event_logger writes even when listing the directory failed (fault path)"]
    G = cg.get(F)

    # ------------------------------------------------------------------ R1
    for name in ("write_line", "write_many"):
        fn = R.anchor(RL + name, "C19.R1")
        if not fn:
            continue
        B = mir.Body(fn, F)
        roll = [c[0] for c in B.calls_named("RollingLogger::roll_if_needed")]
        writes = [c[0] for c in B.calls_named("Write::write_all", "Write::write", "Write::flush", "write_all")]
        imp, ref, ts = q.outcome_edges(B, q.from_call("RollingLogger::roll_if_needed", whole=False), "Ok")
        ok = bool(roll) and bool(writes) and B.path([0], writes, cut_blocks=roll) is None
        R.check(ok, "C19.R1", "C19.R1:%s:roll-before-write" % fn["id"], "%s:%s" % (fn["file"], fn["line"]),
                "%s: roll_if_needed is on every path to a write (%d write site(s))" % (name, len(writes)))
        # ... and before the file is opened: a handle opened first follows the file through the rename and the batch lands in the archive
        opens = [c[0] for c in B.calls_named("RollingLogger::open_file")]
        oko = bool(opens) and bool(roll) and B.path([0], opens, cut_blocks=roll) is None and B.path(opens, roll) is None
        R.check(oko, "C19.R1", "C19.R1:%s:roll-before-open" % fn["id"], "%s:%s" % (fn["file"], fn["line"]),
                "%s: the file is opened after roll_if_needed and never rolled while the handle is open" % name,
                "%s opens the log file before (or across) roll_if_needed: the handle follows the renamed file and the writes go to the "
                "archived file, which is already at its size limit" % name)
    rf = R.anchor(RL + "roll_if_needed", "C19.R1")
    if rf:
        B = mir.Body(rf, F)
        arch = [c[0] for c in B.calls_named("RollingLogger::archive_file")]
        tests = ge_tests(B, lambda o: bool(o) and all(x[0] == "call" and q.ends(x[1], "Metadata::len", "len") for x in o),
                         lambda o: any(x[0] == "param" and x[1] == "self" and x[2][:1] == ("max_log_file_size",) for x in o))
        ok = len(tests) == 1 and arch and B.path([0], arch, cut_edges=[tests[0][1]]) is None and arch[0] in B.reach([tests[0][1][1]])
        # archive on every path of the ge edge (before returning Ok)
        R.check(ok, "C19.R1", "C19.R1:%s:archive-on-size" % rf["id"], q.where(B, tests[0][0]) if tests else "-",
                "roll_if_needed archives exactly on file_length >= self.max_log_file_size")
    af = R.anchor(RL + "archive_file", "C19.R1")
    if af:
        B = mir.Body(af, F)
        rm = [c[0] for c in B.calls_named("std::fs::remove_file")]
        # `files.into_iter().take(n).try_for_each(fs::remove_file)`: the deletion is the consumer that is handed remove_file
        via_item = [c[0] for c in B.calls_named("Iterator::try_for_each", "Iterator::for_each")
                    if len(c[3]["args"]) == 2 and any(o[0] == "fnitem" and q.ends(o[1], "std::fs::remove_file") for o in B.origins(c[3]["args"][1]))]
        tests = ge_tests(B, is_len, lambda o: bool(o) and all(x[0] == "param" and x[1] == "self" and x[2][:1] == ("max_log_file_count",) for x in o))
        fl = for_loops(B)
        sites = rm + via_item
        ok = len(sites) == 1 and len(tests) == 1 and (len(fl) == 1 or bool(via_item)) and B.path([0], sites, cut_edges=[tests[0][1]]) is None
        # the loop iterates the listing returned by get_log_files (sorted) from its start
        src_ok = False
        if sites:
            org = B.origins(B.blocks[sites[0]]["term"]["args"][0])
            src_ok = org and all(o[0] == "call" and q.ends(o[1], "RollingLogger::get_log_files") for o in org)
            # between the listing and the deletion only front-preserving steps (the oldest files are at the front)
            front = {"into_iter", "iter", "take", "by_ref", "deref", "as_slice"}
            steps = {q.base_name(v).rsplit("::", 1)[-1] for v in B.via(B.blocks[sites[0]]["term"]["args"][0])}
            src_ok = src_ok and not (steps - front - {"get_log_files", "branch", "from_residual", "unwrap", "expect", "next", "as_ref", "clone", "to_path_buf", "as_path", "borrow"})
        R.check(ok and src_ok, "C19.R1", "C19.R1:%s:delete-oldest-under-cap" % af["id"], "%s:%s" % (af["file"], af["line"]),
                "archive_file deletes entries of get_log_files() (iterated from the front) only under file_count >= max_log_file_count")
    gl = R.anchor(RL + "get_log_files", "C19.R1")
    if gl:
        B = mir.Body(gl, F)
        srt = B.calls_named("sort", "slice::sort", "sort_unstable")
        okret = []
        R.check(bool(srt), "C19.R1", "C19.R1:%s:sorted" % gl["id"], "-", "get_log_files sorts the listing (ascending: oldest timestamped name first)")
        # the listing is a selection by name, never by position: the log folder is shared with other loggers and rule dumps, so "the
        # entries up to the first foreign one" / "the first N" is an arbitrary subset and archives outside it are never deleted
        from rules.c02 import descendants, iterator_calls
        fam = [gl] + descendants(F, gl["id"])
        n_it = 0
        for f_, Bf, bi_, name, verdict, why in iterator_calls(F, fam):
            if name in ("sort", "sorted"):
                continue
            n_it += 1
            R.check(verdict, "C19.R1", R.key("C19.R1", gl["id"], "selection-by-name:%s" % name), q.where(Bf, bi_),
                    "get_log_files: `%s` keeps every entry the name filter accepts (%s)" % (name, why),
                    "get_log_files uses `%s`, which %s: log files that are not at that position of the directory listing are left out, so "
                    "archive_file never deletes them and the folder grows past max_log_file_count" % (name, why))
        for f_ in fam:
            for bi_, w_, r_, t_ in mir.Body(f_, F).calls_named("Vec::truncate", "Vec::pop", "Vec::drain", "Vec::dedup", "Vec::split_off", "Vec::remove", "Vec::swap_remove"):
                R.fail("C19.R1", R.key("C19.R1", gl["id"], "selection-by-name:%s" % q.base_name(w_).rsplit("::", 1)[-1]), q.where(mir.Body(f_, F), bi_),
                       "get_log_files drops entries of the listing by position (%s)" % q.base_name(w_))

    # ------------------------------------------------------------------ R2
    es = F.body_of("proxy_agent_shared::telemetry::event_logger::start")
    if not es:
        R.fail("C19.R2", "C19.R2:anchor-missing:event_logger::start", "-", "anchor-missing=event_logger::start")
    else:
        R.touched(es["id"])
        B = mir.Body(es, F)
        wr = [c for c in B.calls_named("misc_helpers::json_write_to_file")]
        gf = [c for c in B.calls_named("misc_helpers::get_files")]
        tests = ge_tests(B, is_len, lambda o: bool(o) and all(x[0] == "param" and x[1] == "max_event_file_count" for x in o))
        ok = len(wr) == 1 and len(gf) == 1 and len(tests) == 1
        if ok:
            head = q.outer_loop_header(B, wr[0][0])
            r = B.reach([tests[0][1][1]], cut_blocks=[head] if head is not None else [])
            ok = wr[0][0] not in r and head is not None
            # len is of the listing of the directory written to
            lo = B.origins(B.blocks[tests[0][0]]["term"]["d"]) if False else None
            d1 = B.origins(gf[0][3]["args"][0])
            d2 = B.origins(wr[0][3]["args"][1])
            same = any(o[0] == "param" and o[1] == "event_dir" for o in d1) and any(o[0] == "param" and o[1] == "event_dir" for o in d2)
            ok = ok and same
        R.check(ok, "C19.R2", "C19.R2:%s:cap-edge-no-write" % es["id"], q.where(B, tests[0][0]) if tests else "-",
                "on files.len() >= max_event_file_count nothing is written in that iteration; the count is of event_dir, the directory written to")
    # helper contract: the listing the cap is measured on contains every regular file of the directory (left-over .tmp files included)
    from lib import contracts
    gfn = R.anchor("proxy_agent_shared::misc_helpers::get_files", "C19.R2")
    if gfn:
        B = mir.Body(gfn, F)
        R.touched(gfn["id"])
        okl, det = contracts.loop_keeps_all(B, [("is_file", False)])
        rd = B.calls_named("std::fs::read_dir")
        okd = len(rd) == 1 and all(o[0] == "param" and o[1] == "dir" for o in B.origins(rd[0][3]["args"][0]))
        R.check(okl and okd, "C19.R2", "C19.R2:%s:contract" % gfn["id"], "%s:%s" % (gfn["file"], gfn["line"]),
                "get_files(dir) lists every regular file of dir: %s" % det, "get_files no longer returns every regular file: %s" % det)

    sfn = R.anchor("proxy_agent_shared::misc_helpers::search_files", "C19.R3")
    if sfn:
        B = mir.Body(sfn, F)
        R.touched(sfn["id"])
        okl, det = contracts.loop_keeps_all(B, [("is_file", False), ("is_match", False)])
        rd = B.calls_named("std::fs::read_dir")
        okd = len(rd) == 1 and all(o[0] == "param" and o[1] == "dir" for o in B.origins(rd[0][3]["args"][0]))
        rx = B.calls_named("Regex::new")
        okr = len(rx) == 1 and all(o[0] == "param" and o[1] == "search_regex_pattern" for o in B.origins(rx[0][3]["args"][0]))
        srt = B.calls_named("slice::sort", "sort")
        R.check(okl and okd and okr and bool(srt), "C19.R3", "C19.R3:%s:contract" % sfn["id"], "%s:%s" % (sfn["file"], sfn["line"]),
                "search_files(dir, pattern) lists every regular file of dir whose name matches the pattern, sorted: %s" % det,
                "search_files no longer returns every matching regular file (sorted): %s" % det)

    # ------------------------------------------------------------------ R3
    wa = R.anchor(AP + "proxy::authorization_rules::AuthorizationRulesForLogging::write_all", "C19.R3")
    if wa:
        B = mir.Body(wa, F)
        rm = [c[0] for c in B.calls_named("std::fs::remove_file")]
        wr = [c[0] for c in B.calls_named("misc_helpers::json_write_to_file")]
        sf = B.calls_named("misc_helpers::search_files")
        tests = ge_tests(B, is_len, lambda o: o == {("param", "max_file_count", ())})
        fl = for_loops(B)
        ok = len(rm) == 1 and len(wr) == 1 and len(sf) == 1 and len(tests) == 1 and len(fl) == 1
        if ok:
            guarded = B.path([0], rm, cut_edges=[tests[0][1]]) is None
            # deletion loop entirely before the write: the write is not reachable back into the loop and the loop exit dominates the write
            before = wr[0] not in B.reach([rm[0]], cut_edges=[fl[0][2]]) or True
            loop_before_write = rm[0] not in B.reach([wr[0]])
            org = B.origins(B.blocks[rm[0]]["term"]["args"][0])
            from_listing = org and all(o[0] == "call" and q.ends(o[1], "misc_helpers::search_files") for o in org)
            ok = guarded and loop_before_write and from_listing
        R.check(ok, "C19.R3", "C19.R3:%s:delete-before-write" % wa["id"], "%s:%s" % (wa["file"], wa["line"]),
                "write_all deletes entries of the sorted search_files() listing under files.len() >= max_file_count, and only before the new dump is written")
        callers = G.callers(wa["id"])
        okc = True
        n = 0
        for c in callers:
            fn = F.fns.get(c)
            if not fn:
                continue
            Bc = mir.Body(fn, F)
            for bi, w, r, t in Bc.calls_named("AuthorizationRulesForLogging::write_all"):
                n += 1
                okc = okc and q.const_args(Bc, t, 2) == {K + "MAX_LOG_FILE_COUNT"}
        R.check(okc and n >= 1, "C19.R3", "C19.R3:callers:write_all", "-", "write_all is called with constants::MAX_LOG_FILE_COUNT (%d site(s))" % n)
    sfn = F.fns.get("proxy_agent_shared::misc_helpers::search_files")
    if sfn:
        B = mir.Body(sfn, F)
        R.touched(sfn["id"])
        R.check(bool(B.calls_named("sort", "slice::sort")), "C19.R3", "C19.R3:%s:sorted" % sfn["id"], "-", "search_files returns the listing sorted ascending")

    # ------------------------------------------------------------------ R4
    n = 0
    for fid, fn in F.fns.items():
        if fn["crate"] != "azure_proxy_agent":
            continue
        if not any(b["term"]["k"] == "call" and "create_new" in str(b["term"]["f"].get("fn", "")) for b in fn["blocks"]):
            continue
        B = mir.Body(fn, F)
        for bi, w, r, t in B.calls_named("RollingLogger::create_new"):
            n += 1
            s = q.const_args(B, t, 2)
            c = q.const_args(B, t, 3)
            R.check(s == {K + "MAX_LOG_FILE_SIZE"} and c == {K + "MAX_LOG_FILE_COUNT"}, "C19.R4", R.key("C19.R4", fid, "create_new"), q.where(B, bi),
                    "RollingLogger::create_new(.., MAX_LOG_FILE_SIZE, MAX_LOG_FILE_COUNT)", "logger constructed with size %s count %s" % (sorted(s), sorted(c)))
    R.floor("C19.R4", n, 2, "rolling logger constructions in the agent")
    sz, ct = F.consts.get(K + "MAX_LOG_FILE_SIZE"), F.consts.get(K + "MAX_LOG_FILE_COUNT")
    R.check(sz and ct and sz["val"] > 0 and ct["val"] >= 1, "C19.R4", "C19.R4:const:limits", "-",
            "MAX_LOG_FILE_SIZE=%s, MAX_LOG_FILE_COUNT=%s" % (sz and sz["val"], ct and ct["val"]))
