"""C08 A key is never latched at the host unless the guest can recover it (DESIGN §5 C08)."""
from lib import cg, mir, paths, q

AP = "azure_proxy_agent::"
KK = AP + "key_keeper::KeyKeeper::"
LP = KK + "loop_poll"
JW = "proxy_agent_shared::misc_helpers::json_write_to_file"


def ok_return_blocks(B):
    out = []
    for bi, b in enumerate(B.blocks):
        if b["cleanup"]:
            continue
        for s in b["stmts"]:
            if s["k"] == "assign" and s["lhs"]["l"] == 0 and not s["lhs"]["p"] and s["rv"]["k"] == "agg" and s["rv"].get("variant") == "Ok":
                out.append(bi)
    return out


def run(F, R, tier):
    R.explanation = (
        "Ordering by edge dominance in the key keeper's poll loop (crash points are discharged by order: store -> read-back -> attest -> "
        "publish is a property of the CFG, not of a run): attest_key is dominated by the Ok outcomes of store_key and check_key, the "
        "in-memory publication of an acquired key by the Ok outcome of attest_key, all four operate on the Ok payload of one acquire_key "
        "event; the read-back compares both guid and key of the file named by the key's guid; json_write_to_file writes a .tmp sibling and "
        "renames it onto the final name on every Ok path and never opens the final name for writing; acquire_key is unreachable in an "
        "iteration in which the local fetch succeeded; store and fetch name the same file.")
    for rid, txt in (("C08.R1", "store -> read-back -> attest -> publish ordering on one acquired key"),
                     ("C08.R2", "the read-back is real: Ok only if the stored file's guid and key both compare equal"),
                     ("C08.R3", "atomic replace: write temp sibling, rename onto the final name, never write the final name directly"),
                     ("C08.R4", "local first: no acquire in an iteration in which the local fetch succeeded"),
                     ("C08.R5", "store and fetch name the same file"),
                     ("C08.R6", "the agent never deletes key files")):
        R.rule(rid, txt)
    R.not_decided += ["rename(2) atomicity and page-cache survival of a killed process (OS)", "host protocol behaviour",
                      "the restart scenario end to end (it follows from R1-R5 only together with the OS guarantees)"]
    G = cg.get(F)

    lp = R.anchor(LP, "C08.R1")
    if lp:
        B = mir.Body(lp, F)
        acq = B.calls_named("key::acquire_key")
        store = B.calls_named("KeyKeeper::store_key")
        check = B.calls_named("KeyKeeper::check_key")
        att = B.calls_named("key::attest_key")
        upd = B.calls_named("KeyKeeperSharedState::update_key")
        fetch = B.calls_named("KeyKeeper::fetch_key")
        for name, lst in (("acquire_key", acq), ("store_key", store), ("check_key", check), ("attest_key", att), ("fetch_key", fetch)):
            R.floor("C08.R1", len(lst), 1, "%s call in loop_poll" % name)
        for c in acq + att:
            if q.immediate_await(B, c[0]) is None:
                R.fail("C08.R1", R.key("C08.R1", LP, "not-awaited-in-place"), q.where(B, c[0]), "host call future is not awaited in place")
        attb = [c[0] for c in att]
        s_imp, s_ref, s_ts = q.outcome_edges(B, q.from_call("KeyKeeper::store_key"), "Ok")
        c_imp, c_ref, c_ts = q.outcome_edges(B, q.from_call("KeyKeeper::check_key"), "Ok")
        a_imp, a_ref, a_ts = q.outcome_edges(B, q.from_call("key::attest_key"), "Ok")
        for label, imp, ts in (("store_key", s_imp, s_ts), ("check_key", c_imp, c_ts)):
            p = B.path([0], attb, cut_edges=imp)
            R.check(bool(ts) and bool(imp) and p is None, "C08.R1", "C08.R1:%s:attest-after-%s-ok" % (LP, label), q.where(B, ts[0]) if ts else "-",
                    "attest_key is reachable only through the Ok outcome of %s" % label,
                    "the key can be attested at the host without %s having succeeded" % label,
                    witness={"path_lines": B.path_lines(p)} if p else None)
        # store happens before check (the check reads back what store wrote)
        p = B.path([0], [c[0] for c in check], cut_edges=s_imp)
        R.check(p is None, "C08.R1", "C08.R1:%s:check-after-store-ok" % LP, "-", "check_key (read-back) is reachable only after store_key succeeded")
        # the acquired key is published in memory only after attestation succeeded
        acq_upd = []
        for c in upd:
            org = B.origins(c[3]["args"][1])
            if any(o[0] == "call" and q.ends(o[1], "key::acquire_key") for o in org):
                acq_upd.append(c)
        R.floor("C08.R1", len(acq_upd), 1, "update_key(<acquired key>) site")
        p = B.path([0], [c[0] for c in acq_upd], cut_edges=a_imp)
        R.check(bool(a_ts) and p is None, "C08.R1", "C08.R1:%s:publish-after-attest-ok" % LP, "-",
                "update_key(<acquired key>) is reachable only through the Ok outcome of attest_key",
                witness={"path_lines": B.path_lines(p)} if p else None)
        # one key object
        for name, lst, idx in (("store_key", store, 1), ("check_key", check, 1), ("attest_key", att, 1)):
            for c in lst:
                org = B.origins(c[3]["args"][idx])
                ok = org and all(o[0] == "call" and q.ends(o[1], "key::acquire_key") for o in org)
                R.check(ok, "C08.R1", R.key("C08.R1", LP, "%s-same-key" % name), q.where(B, c[0]),
                        "%s operates on the Ok payload of the acquire_key event" % name, "%s key origins: %s" % (name, sorted(map(str, org))))
            for c in lst:
                if idx == 1 and name != "attest_key":
                    d = B.origins(c[3]["args"][0])
                    R.check(d and all(o[0] == "param" and o[1] == "self" and o[2][:1] == ("key_dir",) for o in d), "C08.R1",
                            R.key("C08.R1", LP, "%s-key-dir" % name), q.where(B, c[0]), "%s uses self.key_dir" % name)
        # R4 local first
        f_imp, f_ref, f_ts = q.outcome_edges(B, q.from_call("KeyKeeper::fetch_key"), "Ok")
        # key_found flag: acquire is guarded by !key_found; key_found := true only under fetch Ok
        flag = [i for i, l in enumerate(B.locals) if l.get("name") == "key_found"]
        okflag = False
        detail = "no key_found flag"
        if len(flag) == 1:
            fl = flag[0]
            true_defs, other = [], []
            for (bi, si, kind, payload) in B.defs[fl]:
                if kind == "assign" and payload["rv"]["k"] == "use" and payload["rv"]["o"]["k"] == "const":
                    (true_defs if payload["rv"]["o"].get("val") else other).append(bi)
                else:
                    other.append(("nonconst", bi))
            nonconst = [x for x in other if isinstance(x, tuple)]
            # every `key_found = true` is under the Ok edge of fetch_key
            p1 = B.path([0], true_defs, cut_edges=f_imp) if true_defs else "none"
            # acquire is on the false edge of the flag test
            tests = []
            for sb in B.switch_blocks():
                e, tr, fa = B.truth_edges(sb)
                if e[0] == "op" and e[1]["k"] in ("copy", "move") and e[1]["p"]["l"] == fl:
                    tests.append((sb, tr, fa))
            p2 = None
            if tests:
                p2 = B.path([0], [c[0] for c in acq], cut_edges=[t[2] for t in tests])
            okflag = bool(true_defs) and p1 is None and not nonconst and bool(tests) and p2 is None
            detail = "key_found is set true only under the Ok outcome of fetch_key; acquire_key is reachable only through key_found == false"
        R.check(okflag, "C08.R4", "C08.R4:%s:local-first" % LP, q.where(B, f_ts[0]) if f_ts else "-", detail,
                "acquire_key can be reached although the local fetch succeeded (or the key_found protocol changed): %s" % detail)
        for c in fetch:
            org = B.origins(c[3]["args"][1])
            R.check(org and all(o[0] == "call" and q.ends(o[1], "get_status") and "keyGuid" in o[3] for o in org), "C08.R4",
                    R.key("C08.R4", LP, "fetch-by-status-guid"), q.where(B, c[0]), "fetch_key looks up the guid the host names (status.keyGuid)",
                    "fetch_key guid origins: %s" % sorted(map(str, org)))

    # ------------------------------------------------------------------ R2
    cl = R.anchor(KK + "check_local_key", "C08.R2")
    if cl:
        B = mir.Body(cl, F)
        try:
            ps = paths.enumerate_paths(B, allow_loops=True)
        except paths.TooManyPaths as e:
            ps = []
            R.fail("C08.R2", "C08.R2:%s:not-analysable" % cl["id"], "-", str(e))
        n_ok = 0
        for p in ps:
            if paths.returned_variant(B, p) != "Ok":
                continue
            n_ok += 1
            atoms = paths.path_atoms(B, F, p)
            trues = [a[0] for a in atoms if a[1] is True]
            g = any(a.startswith("eq(") and ".guid" in a and a.count("guid") >= 2 for a in trues)
            k = any(a.startswith("eq(") and ".key" in a and a.count(".key") >= 2 for a in trues)
            fetched = any("fetch_local_key" in a[0] for a in atoms) or True
            R.check(g and k, "C08.R2", R.key("C08.R2", cl["id"], "ok-path"), "%s:%s" % (cl["file"], cl["line"]),
                    "Ok path requires guid == guid and key == key of the re-read file: %s" % trues,
                    "an Ok path of check_local_key does not compare both guid and key: %s" % atoms)
        R.floor("C08.R2", n_ok, 1, "Ok-returning path of check_local_key")
        fl = B.calls_named("KeyKeeper::fetch_local_key")
        okf = len(fl) == 1
        if okf:
            a0 = B.origins(fl[0][3]["args"][0])
            a1 = B.origins(fl[0][3]["args"][1])
            okf = a0 == {("param", "key_dir", ())} and a1 and all(o[0] == "param" and o[1] == "key" and o[2][:1] == ("guid",) for o in a1)
            # Ok only under fetch Ok
            imp, ref, ts = q.outcome_edges(B, q.from_call("KeyKeeper::fetch_local_key"), "Ok")
            okf = okf and ts and B.path([0], ok_return_blocks(B), cut_edges=imp) is None
        R.check(okf, "C08.R2", "C08.R2:%s:reads-back-same-file" % cl["id"], "-",
                "the comparison uses fetch_local_key(key_dir, key.guid) and Ok is produced only when that read succeeded")

    # ------------------------------------------------------------------ R3
    jw = R.anchor(JW, "C08.R3")
    if jw:
        B = mir.Body(jw, F)
        we = B.calls_named("Path::with_extension")
        cr = B.calls_named("File::create")
        rn = B.calls_named("std::fs::rename")
        tw = B.calls_named("serde_json::to_writer_pretty", "serde_json::to_writer")
        ok = len(we) == 1 and len(cr) == 1 and len(rn) == 1 and len(tw) == 1
        detail = "json_write_to_file shape changed"
        if ok:
            ext = we[0][3]["args"][1]
            okext = ext["k"] == "const" and ext.get("val") == "tmp" and B.origins(we[0][3]["args"][0]) == {("param", "file_path", ())}
            tmp_is = lambda o: all(x[0] == "call" and q.ends(x[1], "Path::with_extension") for x in B.origins(o)) and B.origins(o)
            okc = tmp_is(cr[0][3]["args"][0])
            okw = all(x[0] == "call" and q.ends(x[1], "File::create") for x in B.origins(tw[0][3]["args"][0]))
            okr = tmp_is(rn[0][3]["args"][0]) and B.origins(rn[0][3]["args"][1]) == {("param", "file_path", ())}
            p = B.path([0], ok_return_blocks(B), cut_blocks=[rn[0][0]])
            r_imp, _, r_ts = q.outcome_edges(B, q.from_call("std::fs::rename"), "Ok")
            okp = p is None and B.path([0], [rn[0][0]], cut_blocks=[tw[0][0]]) is None
            ok = okext and okc and okw and okr and okp
            detail = "create(<file_path>.tmp) -> to_writer(that file) -> rename(tmp, file_path) on every path to Ok"
        R.check(ok, "C08.R3", "C08.R3:%s:temp-then-rename" % jw["id"], "%s:%s" % (jw["file"], jw["line"]), detail)
        # no direct write to the final name
        direct = []
        for bi, w, r, t in B.calls_named("File::create", "std::fs::write", "OpenOptions::open", "File::options", "File::create_new"):
            for i, a in enumerate(t["args"]):
                if ("param", "file_path", ()) in B.origins(a) and not any(x[0] == "call" for x in B.origins(a)):
                    direct.append(q.where(B, bi))
        R.check(not direct, "C08.R3", "C08.R3:%s:no-direct-write" % jw["id"], "-", "the final name is never opened for writing", "final name written directly at %s" % direct)
    sl = R.anchor(KK + "store_local_key", "C08.R3")
    if sl:
        B = mir.Body(sl, F)
        writers = [q.base_name(c[2] or c[1]) for c in B.calls if q.ends(c[2] or c[1] or "", "File::create", "std::fs::write", "OpenOptions::open",
                                                                       "json_write_to_file", "store_key_data", "to_writer", "to_writer_pretty")]
        R.check(writers == [JW], "C08.R3", "C08.R3:%s:only-through-json_write_to_file" % sl["id"], "%s:%s" % (sl["file"], sl["line"]),
                "store_local_key reaches the disk only through misc_helpers::json_write_to_file", "store_local_key writes via %s" % writers)

    # ------------------------------------------------------------------ R5 same file name
    names = {}
    for fname in ("store_local_key", "fetch_local_key"):
        fn = R.anchor(KK + fname, "C08.R5")
        if not fn:
            continue
        B = mir.Body(fn, F)
        exts = set()
        for bi, w, r, t in B.calls_named("PathBuf::set_extension"):
            a = t["args"][1]
            if a["k"] == "const":
                exts.add(a.get("val"))
            else:
                # `set_extension(if encrypted { "encrypted" } else { "key" })`: the literals that reach the argument
                org = B.origins(a)
                exts |= {o[2] for o in org if o[0] == "const"} if org and all(o[0] == "const" for o in org) else {"?"}
        joins = []
        for bi, w, r, t in B.calls_named("Path::join", "PathBuf::join"):
            base = B.origins(t["args"][0])
            leaf = B.origins(t["args"][1])
            joins.append((frozenset(o[1] for o in base if o[0] == "param"), frozenset((o[1],) + tuple(o[2]) for o in leaf if o[0] == "param")))
        names[fname] = (exts, joins)
    if len(names) == 2:
        se, sj = names["store_local_key"]
        fe, fj = names["fetch_local_key"]
        okn = se == fe == {"encrypted", "key"} and len(sj) == 1 and len(fj) == 1 and sj[0][0] == fj[0][0] == frozenset({"key_dir"}) \
            and sj[0][1] == frozenset({("key", "guid")}) and fj[0][1] == frozenset({("key_guid",)})
        R.check(okn, "C08.R5", "C08.R5:store-fetch-same-name", "-",
                "store: key_dir.join(key.guid) + .key/.encrypted; fetch: key_dir.join(key_guid) + .key/.encrypted",
                "store names %s / %s, fetch names %s / %s" % (sorted(map(str, se)), sj, sorted(map(str, fe)), fj))

    # ------------------------------------------------------------------ R6
    from lib import sympath
    S = sympath.Sym(F, ["azure_proxy_agent", "proxy_agent_shared"])
    bad = []
    n_rm = 0
    for fid, fn in S.F.fns.items():
        if fn["crate"] != "azure_proxy_agent":
            continue
        for b in fn["blocks"]:
            t = b["term"]
            if t["k"] == "call" and "fn" in t["f"] and q.ends(t["f"]["fn"], "std::fs::remove_file", "std::fs::remove_dir_all", "std::fs::remove_dir", "std::fs::rename"):
                n_rm += 1
                B = S.body(fid)
                syms = S.sym(B, t["args"][0], {})
                org = B.origins(t["args"][0])
                txt = " ".join(sorted(syms)) + " " + " ".join(map(str, org))
                if any(k in txt for k in ("key_dir", "get_latch_key_folder", "get_keys_dir", "key_file", "key_guid", ".key", ".encrypted")):
                    bad.append((fid.replace(AP, ""), t["line"], sorted(syms)))
    R.check(not bad, "C08.R6", "C08.R6:no-key-deletion", "-",
            "no fs::remove_* / rename-away call in the agent has a path derived from the key directory (%d removal sites inspected)" % n_rm,
            "key files may be deleted or moved away: %s" % bad)

    # ------------------------------------------------------------------ R7 the key file is named by the guid, spelled the same everywhere
    # (store under one spelling and look up under another = "stored and read back" at negotiation time, not found after a restart)
    R.rule("C08.R7", "the key file name is the guid verbatim at store, at the read-back check and at the restart lookup")
    sites = []
    st = F.body_of(KK + "store_local_key")
    if st:
        B = mir.Body(st, F)
        for bi, w, r, t in B.calls_named("PathBuf::join", "Path::join"):
            sites.append(("store_local_key", B, t["args"][1], lambda o: o[0] == "param" and o[1] == "key" and tuple(o[2]) == ("guid",), bi))
    fl = F.body_of(KK + "fetch_local_key")
    if fl:
        B = mir.Body(fl, F)
        for bi, w, r, t in B.calls_named("PathBuf::join", "Path::join"):
            sites.append(("fetch_local_key", B, t["args"][1], lambda o: o[0] == "param" and o[1] == "key_guid" and not o[2], bi))
    ck = F.body_of(KK + "check_local_key")
    if ck:
        B = mir.Body(ck, F)
        for bi, w, r, t in B.calls_named("KeyKeeper::fetch_local_key"):
            sites.append(("check_local_key", B, t["args"][1], lambda o: o[0] == "param" and o[1] == "key" and tuple(o[2]) == ("guid",), bi))
    fk = F.body_of(KK + "fetch_key")
    if fk:
        B = mir.Body(fk, F)
        for bi, w, r, t in B.calls_named("KeyKeeper::fetch_local_key"):
            sites.append(("fetch_key", B, t["args"][1], lambda o: o[0] == "param" and o[1] == "key_guid" and not o[2], bi))
    lpb = F.body_of(KK + "loop_poll")
    if lpb:
        B = mir.Body(lpb, F)
        for bi, w, r, t in B.calls_named("KeyKeeper::fetch_key"):
            sites.append(("loop_poll", B, t["args"][1], lambda o: o[0] == "call" and q.ends(o[1], "key::get_status") and o[3][-1:] == ("keyGuid",) or
                          (o[0] == "call" and q.ends(o[1], "key::get_status") and "keyGuid" in o[3]), bi))
    for name, B, o, pred, bi in sites:
        org = B.origins(o)
        lossy = q.lossy_via(B, o)
        ok = bool(org) and all(pred(x) for x in org) and not lossy
        R.check(ok, "C08.R7", R.key("C08.R7", KK + name, "guid-verbatim"), q.where(B, bi),
                "%s: the file name / lookup key is the guid as given (no case folding, trimming or defaulting)" % name,
                "%s: the guid is %s on the way to the file name (origins %s): a file stored under one spelling is not found under the other "
                "after a restart" % (name, "transformed by " + ", ".join(lossy) if lossy else "not the expected value", sorted(map(str, org))))
    R.floor("C08.R7", len(sites), 6, "places where the guid becomes a key file name")

    # the key file is parsed exactly as stored: read as UTF-8 text (an invalid byte is an error, the file counts as unreadable) and
    # handed to serde_json unchanged - a lossy decode would accept a damaged file as a different, valid-looking key
    fl2 = F.body_of(KK + "fetch_local_key")
    if fl2:
        B = mir.Body(fl2, F)
        ps = B.calls_named("serde_json::from_str", "serde_json::from_slice", "serde_json::from_reader")
        okp = len(ps) == 1
        det = "parse sites: %d" % len(ps)
        if okp:
            org = B.origins(ps[0][3]["args"][0])
            lossy = q.lossy_via(B, ps[0][3]["args"][0])
            okp = bool(org) and all(o[0] == "call" and q.ends(o[1], "std::fs::read_to_string") for o in org) and not lossy and q.ends(ps[0][1] or "", "from_str")
            det = "parsed value origins %s%s" % (sorted(q.base_name(o[1]) if o[0] == "call" else o[0] for o in org), (", via " + ", ".join(lossy)) if lossy else "")
        R.check(okp, "C08.R7", R.key("C08.R7", KK + "fetch_local_key", "parsed-as-stored"), "%s:%s" % (fl2["file"], fl2["line"]),
                "fetch_local_key parses serde_json::from_str(fs::read_to_string(key file)) - strict UTF-8, nothing repaired on the way",
                "fetch_local_key no longer parses the file's text as stored (%s): a damaged key file can be accepted as a key" % det)
