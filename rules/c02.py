"""C02 RBAC decision equals the declared semantics – decided necessary conditions (DESIGN §5 C02)."""
from lib import cg, mir, q

AP = "azure_proxy_agent::"
KEYM = AP + "key_keeper::key::"
AR = AP + "proxy::authorization_rules::ComputedAuthorizationItem::"
FOLD = ("to_lowercase", "to_ascii_lowercase", "to_uppercase", "to_ascii_uppercase")
COMPARE = ("starts_with", "ends_with", "eq", "ne", "contains", "strip_prefix", "eq_ignore_ascii_case")

IDENTITY_PAIRING = {"userName": "userName", "processName": "processName", "exePath": "processFullPath", "groupName": "userGroups"}


def in_loop(B, b):
    return b in B.reach([tg for tg, _ in B.succ(b)])


def folded(B, o):
    if any(q.ends(v, *FOLD) for v in B.via(o)):
        return True
    # a captured variable that was folded before the closure was built (`let wanted = key.to_lowercase(); xs.find(|k| fold(k) == wanted)`)
    F = B.F
    fn = B.fn
    if F is None or fn["kind"] != "Closure":
        return False
    par = F.fns.get(fn.get("parent") or "")
    if par is None:
        return False
    ups = [x[1] for x in B.origins(o) if x[0] == "param" and x[1] in B.upvar.values()]
    if not ups:
        return False
    Bp = mir.Body(par, F)
    for blk in Bp.blocks:
        for s_ in blk["stmts"]:
            if s_["k"] == "assign" and s_["rv"]["k"] == "agg" and s_["rv"].get("def") == fn["id"]:
                for i_, op in enumerate(s_["rv"]["ops"]):
                    if B.upvar.get(i_) in ups and not folded(Bp, op):
                        return False
                return True
    return False


def descendants(F, fid):
    out = []
    for c in F.children(fid):
        out.append(c)
        out += descendants(F, c["id"])
    return out


# iterator vocabulary: what the method does with the order in which the elements arrive
ADAPTORS = ("filter", "map", "filter_map", "flat_map", "flatten", "cloned", "copied", "chain", "inspect", "by_ref", "into_iter", "iter",
            "values", "keys")
INSENSITIVE = ("any", "all", "count", "collect", "sum", "product", "size_hint")
SELECTING = ("find", "find_map", "position", "rposition")   # fine when only the presence of a result is used
SENSITIVE = ("next", "nth", "last", "take", "skip", "take_while", "skip_while", "map_while", "step_by", "fold", "try_fold", "reduce",
             "min", "max", "min_by", "max_by", "min_by_key", "max_by_key", "enumerate", "zip", "rev", "scan", "next_back", "nth_back",
             "for_each", "try_for_each", "peekable", "first", "pop", "remove", "swap_remove", "split_first", "split_last", "index")
SEQ_OK = ("is_empty", "len", "contains", "deref", "as_slice")


def only_formatted(B, l, depth=8):
    """every use of local l ends in a format argument (log text): the value cannot influence a decision"""
    us = B.uses_of(l)
    if not us or depth <= 0:
        return False
    for u in us:
        if u[0] == "assign" and not u[2]["lhs"]["p"] and (u[2]["rv"]["k"] in ("use", "ref", "cast") or
                                                         (u[2]["rv"]["k"] == "agg" and u[2]["rv"]["ak"] in ("tuple", "array"))):
            # copies, borrows and the argument tuple / array that format_args! builds
            if not only_formatted(B, u[2]["lhs"]["l"], depth - 1):
                return False
        elif u[0] == "callarg" and ("fmt::rt::Argument" in (u[3] or u[2] or "") or "fmt::Argument" in (u[3] or u[2] or "")):
            continue
        elif u[0] == "callarg" and q.ends(q.base_name(u[3] or u[2] or ""), "deref", "as_str", "as_ref", "borrow", "clone", "to_string"):
            if not only_formatted(B, u[4]["dest"]["l"], depth - 1):
                return False
        else:
            return False
    return True


def presence_only(B, l):
    """the Option in local l is only asked whether it is Some: discriminant reads and is_some/is_none; the payload is never taken -
    or is taken only to be printed in a log line"""
    for u in B.uses_of(l):
        if u[0] == "assign":
            rv = u[2]["rv"]
            if rv["k"] == "discr" and not rv["p"]["p"]:
                continue
            if rv["k"] in ("use", "ref") and rv.get("o", {}).get("k") in ("copy", "move") and rv["o"]["p"]["p"] and not u[2]["lhs"]["p"] \
                    and only_formatted(B, u[2]["lhs"]["l"]):
                continue
            if rv["k"] == "ref" and rv["p"]["p"] and not u[2]["lhs"]["p"] and only_formatted(B, u[2]["lhs"]["l"]):
                continue
            if rv["k"] == "ref" and not rv["p"]["p"] and presence_only_ref(B, u[2]["lhs"]["l"]):
                continue
            return False
        if u[0] == "callarg":
            if q.ends(q.base_name(u[3] or u[2] or ""), "is_some", "is_none"):
                continue
            return False
        return False
    return True


def presence_only_ref(B, l):
    us = B.uses_of(l)
    return bool(us) and all(u[0] == "callarg" and q.ends(q.base_name(u[3] or u[2] or ""), "is_some", "is_none") for u in us)


def iterator_calls(F, fns):
    """(fn, body, block, method, order-insensitive?, reason) for every Iterator / sequence call of the given functions; the `next` of a
    `for` loop is the loop rules' subject and is skipped"""
    out = []
    for f in fns:
        B = mir.Body(f, F)
        for bi, w, r, t in B.calls:
            full = r or w or ""
            name = q.base_name(full)
            short = name.rsplit("::", 1)[-1]
            is_iter = "iter::Iterator" in name or "iter::Iterator" in (w or "") or "IntoIterator" in name or "DoubleEndedIterator" in name
            is_seq = any(x in name for x in ("vec::Vec", "slice::", "HashMap", "HashSet", "BTreeMap", "ops::Index", "ops::Deref"))
            if not (is_iter or (is_seq and (short in SENSITIVE or short in ADAPTORS))):
                continue
            if t.get("exp") and "ForLoop" in t["exp"]:
                continue
            if short in ADAPTORS:
                out.append((f, B, bi, short, True, "order-preserving adaptor"))
            elif short in INSENSITIVE:
                out.append((f, B, bi, short, True, "a quantifier / aggregate over all elements"))
            elif short in SELECTING:
                po = not t["dest"]["p"] and presence_only(B, t["dest"]["l"])
                out.append((f, B, bi, short, po, "only the presence of a result is used (or the hit is merely logged)" if po else "hands out the first matching element to code that can decide on it"))
            elif short in SENSITIVE:
                if is_seq and short in ("remove", "index") and any(x in name for x in ("HashMap", "HashSet", "BTreeMap")):
                    continue
                out.append((f, B, bi, short, False, "selects or combines elements by position"))
            else:
                out.append((f, B, bi, short, False, "is not in the reviewed iterator vocabulary"))
    return out


def combinator_outcomes(F, R, ia, B, ret_out):
    """combinator spelling: what is returned after the disabled short-circuit is a quantifier's result, `false`, or defaultAllowed"""
    bad = []
    for b, v in ret_out:
        if v[0] == "const":
            continue
        if v[0] == "expr":
            import re
            okc = INSENSITIVE + ("is_empty", "is_some", "is_none", "contains_key", "eq", "ne")

            def fine(x):
                m = re.search(r"::(\w+)[\"'], \d+, \(\)\)$", x)
                return "defaultAllowed" in x or x.startswith("('const'") or (x.startswith("('call'") and m is not None and m.group(1) in okc)
            if all(fine(x) for x in v[1]):
                continue
        bad.append((B.line(b), v))
    R.check(not bad, "C02.R2", "C02.R2:%s:combinator-outcomes" % ia["id"], "-",
            "every value is_allowed returns is a constant, self.defaultAllowed, or the result of a quantifier over the iteration",
            "is_allowed returns %s" % bad)


def run(F, R, tier):
    R.explanation = (
        "The property is an equivalence with a specification over every rule document; functional equivalence is NOT decided. Decided "
        "necessary conditions named in the statement: (R1) case-folding symmetry – every comparison in Privilege::is_match involving the "
        "request URL folds both operands; (R2) order independence by shape – inside the iteration over privileges/assignments is_allowed "
        "can only return true, the matched flag is only set to true, and false/default are produced after the loops from the flag alone "
        "(an existential over the iteration, independent of map order); (R3) flattening of host-supplied lists into name-keyed maps must "
        "not silently overwrite duplicates (last-wins makes the decision depend on list order); (R4) disabled short-circuit before any "
        "privilege is consulted; (R5) every Option attribute of Identity/Privilege is tested against its paired claim, mismatch => false; "
        "(R6) inserts into the flattened assignments are guarded by 'privilege defined' and 'identity defined'; (R8) the computed "
        "privileges / assignments maps only grow - nothing is removed from them after it was computed.")
    for rid, txt in (("C02.R1", "case-folding symmetry of every URL comparison"), ("C02.R2", "order independence of is_allowed by shape"),
                     ("C02.R3", "no silent last-wins flattening of host-supplied lists"), ("C02.R4", "disabled short-circuit"),
                     ("C02.R5", "attribute coverage and pairing"), ("C02.R6", "dangling names are skipped"),
                     ("C02.R8", "the computed privileges / assignments maps only grow")):
        R.rule(rid, txt)
    R.not_decided += ["equivalence of the decision with the specification on every rule document (prefix semantics, query parsing)",
                      "determinism of everything outside the shapes above"]
    G = cg.get(F)

    # ------------------------------------------------------------------ R1
    pm = R.anchor(KEYM + "Privilege::is_match", "C02.R1")
    n_cmp = 0
    if pm:
        bodies = [pm] + descendants(F, pm["id"])
        for fn in bodies:
            B = mir.Body(fn, F)
            R.touched(fn["id"])
            for bi, w, r, t in B.calls:
                name = q.base_name(r or w or "")
                shortn = name.rsplit("::", 1)[-1]
                if shortn not in COMPARE or len(t["args"]) < 2:
                    continue
                ty0 = " ".join(g.get("ty", "") for g in t["f"].get("fnargs", []))
                a, b = t["args"][0], t["args"][1]
                # string comparisons only
                lt = [B.locals[x["p"]["l"]]["ty"] if x["k"] in ("copy", "move") else "" for x in (a, b)]
                if not any(("str" in s or "String" in s) for s in lt + [ty0]):
                    continue
                oa, ob = B.origins(a), B.origins(b)
                url_side = any((o[0] == "param" and o[1] in ("request_url",)) or (o[0] == "call" and q.ends(o[1], "query_pairs", "Uri::path", "Uri::query"))
                               or (fn["kind"] == "Closure" and o[0] == "param" and o[1] not in fn and str(o[1]).isdigit() is False and o[1] not in ("key", "value"))
                               for o in oa | ob)
                any_fold = folded(B, a) or folded(B, b)
                if not (url_side or any_fold):
                    continue
                n_cmp += 1
                sym = shortn == "eq_ignore_ascii_case" or (folded(B, a) and folded(B, b))
                what = "path-prefix" if shortn == "starts_with" else ("query-key" if fn["kind"] == "Closure" else "query-value")
                R.check(sym, "C02.R1", "C02.R1:%s:%s:%s" % (pm["id"], shortn, what), q.where(B, bi),
                        "%s comparison folds both operands" % what,
                        "%s comparison `%s` folds only %s: a rule written with upper-case letters never matches" % (
                            what, shortn, "the request side" if folded(B, a) and not folded(B, b) else "the rule side" if folded(B, b) else "neither side"))
        R.floor("C02.R1", n_cmp, 3, "URL comparisons in Privilege::is_match (path prefix, query key, query value)")

    # ------------------------------------------------------------------ R2 / R4
    ia = R.anchor(AR + "is_allowed", "C02.R2")
    if ia:
        B = mir.Body(ia, F)
        ret_in_loop, ret_out = [], []
        # the iteration: everything reachable from the outermost `for` loop's element edge before its exhaustion edge
        fors = []
        for sb in B.switch_blocks():
            t_ = B.blocks[sb]["term"]
            e = B.cond(sb)
            if t_.get("exp") and "ForLoop" in t_["exp"] and e[0] == "discr":
                fors.append((sb, (sb, B.switch_target(sb, 1)), (sb, B.switch_target(sb, 0))))
        outer = [f for f in fors if all(f is g or B.path([0], [f[0]], cut_blocks=[g[0]]) is not None for g in fors)]
        loop_region = set()
        if len(outer) == 1:
            loop_region = B.reach([outer[0][1][1]], cut_edges=[outer[0][2]])
        family = [ia] + descendants(F, ia["id"])
        cons = iterator_calls(F, family)
        n_pm = sum(len(mir.Body(f, F).calls_named("Privilege::is_match")) for f in family)
        n_im = sum(len(mir.Body(f, F).calls_named("Identity::is_match")) for f in family)
        combinator_form = not fors
        R.check((len(outer) == 1 or (combinator_form and cons)) and n_pm and n_im, "C02.R2", "C02.R2:%s:iteration-found" % ia["id"], "-",
                "is_allowed examines the privileges and, nested, their assignments (%d for-loop(s), %d iterator call(s) in the function and its "
                "closures; Privilege::is_match x%d, Identity::is_match x%d)" % (len(fors), len(cons), n_pm, n_im))
        # whichever way the iteration is spelled, nothing in it may select by position: the maps are hash maps, "the first match" is arbitrary
        for f, Bf, bi, name, verdict, why in cons:
            R.check(verdict, "C02.R2", "C02.R2:%s:order-insensitive:%s" % (f["id"], name), q.where(Bf, bi),
                    "iterator call `%s` does not depend on the iteration order (%s)" % (name, why),
                    "`%s` %s: which privilege / identity decides depends on the hash map's iteration order" % (name, why))
        for bi, blk in enumerate(B.blocks):
            if blk["cleanup"] or bi not in B.live_blocks():
                continue
            for s in blk["stmts"]:
                if s["k"] == "assign" and s["lhs"]["l"] == 0 and not s["lhs"]["p"]:
                    rv = s["rv"]
                    val = ("const", bool(rv["o"].get("val"))) if rv["k"] == "use" and rv["o"]["k"] == "const" else ("expr", sorted(map(str, B.origins(rv.get("o", {"k": "const"})))) if rv["k"] == "use" else rv["k"])
                    (ret_in_loop if bi in loop_region else ret_out).append((bi, val))
        bad = [(B.line(b), v) for b, v in ret_in_loop if v != ("const", True)]
        if combinator_form:
            combinator_outcomes(F, R, ia, B, ret_out)
        R.check(combinator_form or (not bad and ret_in_loop), "C02.R2", "C02.R2:%s:loop-exits-only-true" % ia["id"], "%s:%s" % (ia["file"], ia["line"]),
                "inside the iteration over privileges/assignments the only value returned is `true` (%d site(s))" % len(ret_in_loop),
                "a value other than `true` is returned from inside the iteration (first matching entry decides => order dependent): %s" % bad)
        flag = [i for i, l in enumerate(B.locals) if l.get("name") == "any_privilege_matched"]
        okf = False
        if len(flag) == 1:
            vals = []
            for (bi, si, kind, payload) in B.defs[flag[0]]:
                if kind == "assign" and payload["rv"]["k"] == "use" and payload["rv"]["o"]["k"] == "const":
                    vals.append((bool(payload["rv"]["o"].get("val")), bi in loop_region))
                else:
                    vals.append(("nonconst", bi in loop_region))
            okf = all(v[0] is True for v in vals if v[1]) and any(v == (False, False) for v in vals) and all(v[0] in (True, False) for v in vals)
        R.check(okf or combinator_form, "C02.R2", "C02.R2:%s:flag-monotone" % ia["id"], "-",
                "any_privilege_matched starts false and is only ever set to true inside the loops")
        # after the loops: false under the flag, else defaultAllowed
        outs = {str(v) for b, v in ret_out}
        has_default = any(v[0] == "expr" and any("defaultAllowed" in x for x in v[1]) for b, v in ret_out)
        R.check((combinator_form or ("const", False) in [v for b, v in ret_out]) and has_default, "C02.R2", "C02.R2:%s:post-loop-outcomes" % ia["id"], "-",
                "after the loops the result is `false` (privilege matched, no identity) or self.defaultAllowed: %s" % sorted(outs),
                "post-loop results: %s" % sorted(outs))
        # before the iteration there is exactly one way out: the disabled short-circuit (true). Any other pre-loop result ("no assignments
        # at all => default access", "empty privilege list => ...") decides without looking at the privileges
        pre = []
        if len(outer) == 1:
            before = B.reach([0], cut_blocks=[outer[0][0]])
            pre = [(b, v) for b, v in ret_out if b in before]
        elif combinator_form:
            first = [bi for f, Bf, bi, name, verdict, why in cons if f is ia]
            before = B.reach([0], cut_blocks=first)
            pre = [(b, v) for b, v in ret_out if b in before and B.path([0], [b], cut_blocks=first) is not None]
        R.check(len(pre) == 1 and pre[0][1] == ("const", True), "C02.R2", "C02.R2:%s:no-decision-before-the-loop" % ia["id"], "-",
                "the only result produced before the privileges are examined is the disabled short-circuit (`true`)",
                "results produced before the privilege loop: %s - a decision is taken without matching the URL against the privileges "
                "(e.g. a fast path for an empty assignment table)" % [(B.line(b), v) for b, v in pre])
        # the false result is guarded by the flag only
        false_blocks = [b for b, v in ret_out if v == ("const", False)]
        guards = []
        for sb in B.switch_blocks():
            e, tr, fa = B.truth_edges(sb)
            if e[0] == "op" and e[1]["k"] in ("copy", "move") and flag and e[1]["p"]["l"] == flag[0]:
                guards.append(tr)
        R.check(combinator_form or (bool(guards) and B.path([0], false_blocks, cut_edges=guards) is None), "C02.R2", "C02.R2:%s:false-from-flag" % ia["id"], "-",
                "`false` is returned only through any_privilege_matched == true")
        # R4 disabled
        dis = []
        for sb in B.switch_blocks():
            e, tr, fa = B.truth_edges(sb)
            if e[0] == "call" and q.ends(e[1], "eq", "ne") and len(e[2]) == 2:
                vs = [q.operand_variant(B, a) for a in e[2]]
                if any(v and v[1] == "Disabled" for v in vs):
                    is_eq = q.ends(e[1], "eq")
                    dis.append((tr, fa) if is_eq else (fa, tr))
        ism = [c[0] for c in B.calls_named("Privilege::is_match", "Identity::is_match")] + [bi for f, Bf, bi, name, verdict, why in cons if f is ia]
        if not dis:
            R.fail("C02.R4", "C02.R4:%s:test-missing" % ia["id"], "-", "no test of self.mode against AuthorizationMode::Disabled")
        else:
            d_true, d_false = dis[0]
            r = B.reach([d_true[1]])
            only_true = all(v == ("const", True) for b, v in ret_in_loop + ret_out if b in r and b not in B.reach([d_false[1]]))
            no_match = not (set(ism) & (r - B.reach([d_false[1]])))
            dom = B.path([0], ism, cut_edges=[d_false]) is None
            R.check(only_true and no_match and dom and ism, "C02.R4", "C02.R4:%s:disabled-shortcut" % ia["id"], q.where(B, d_true[0]),
                    "mode == Disabled returns true before any privilege/identity is consulted; all is_match calls lie behind the other edge")

    # ------------------------------------------------------------------ R3 / R6
    fa_ = R.anchor(AR + "from_authorization_item", "C02.R3")
    if fa_:
        B = mir.Body(fa_, F)
        n = 0
        for bi, w, r, t in B.calls_named("Iterator::collect"):
            tys = [g.get("ty", "") for g in t["f"].get("fnargs", [])]
            target = [x for x in tys if x.startswith("std::collections::HashMap<") or x.startswith("std::collections::BTreeMap<")]
            if not target:
                continue
            org = B.origins(t["args"][0])
            host = any(o[0] == "param" and o[1] == "authorization_item" for o in org)
            valty = target[0].split(",", 1)[1].rsplit(">", 1)[0].strip().rsplit("::", 1)[-1].rstrip(">")
            n += 1
            R.check(not host, "C02.R3", "C02.R3:%s:collect-into-map:%s" % (fa_["id"], valty), q.where(B, bi),
                    "collect into a name-keyed map is not over a host-supplied list",
                    "the host-supplied %s list is flattened with collect::<HashMap<name, _>>(): entries with a duplicate name are silently "
                    "overwritten (last wins), so the decision depends on the order in which they are listed" % valty)
        for bi, w, r, t in B.calls_named("HashMap::insert"):
            used = bool(B.uses_of(t["dest"]["l"]))
            # accepted idiom: insert is behind a contains_key == false test on the same map
            guarded = False
            for sb, tr, fal, cb, args in q.bool_call_edges(B, ["HashMap::contains_key"]):
                if B.path([0], [bi], cut_edges=[fal]) is None:
                    guarded = True
            n += 1
            R.check(used or guarded, "C02.R3", R.key("C02.R3", fa_["id"], "keyed-insert"), q.where(B, bi),
                    "keyed insert is preceded by a contains_key test on every path (no silent overwrite)",
                    "keyed insert of host-supplied names discards the displaced value without a duplicate check")
        R.floor("C02.R3", n, 2, "name-keyed flattening sites in from_authorization_item")
        if tier == "thorough":
            hs = B.calls_named("HashSet::insert")
            pk, ik = [], []
            for sb, tr, fal, cb, args in q.bool_call_edges(B, ["HashMap::contains_key"]):
                mp = B.origins(args[0])
                names = set()
                for o in mp:
                    names.add(str(o))
                bl = args[0]
                from rules.c05 import base_local
                l = base_local(B, bl)
                nm = B.locals[l].get("name") if l is not None else None
                if nm == "privilege_dict":
                    pk.append(tr)
                elif nm == "identity_dict":
                    ik.append(tr)
            for c in hs:
                ok = bool(pk) and bool(ik) and B.path([0], [c[0]], cut_edges=pk) is None and B.path([0], [c[0]], cut_edges=ik) is None
                R.check(ok, "C02.R6", R.key("C02.R6", fa_["id"], "assignment-insert"), q.where(B, c[0]),
                        "an identity is added to a privilege's assignments only if privilege_dict and identity_dict contain the names",
                        "assignment insert not guarded by both 'privilege defined' and 'identity defined'")
            # bulk spelling: assignments.extend(identities.iter().filter(|n| identity_dict.contains_key(n)).cloned())
            ext = B.calls_named("HashSet::extend", "Extend::extend", "iter::Extend::extend")
            for c in ext:
                t_ = c[3]
                filt_ok = False
                # walk the iterator expression handed to extend() back through its adaptors
                cur, hops = t_["args"][1] if len(t_["args"]) > 1 else None, 0
                while cur is not None and cur["k"] in ("copy", "move") and hops < 8:
                    hops += 1
                    d = B.single_def(cur["p"]["l"])
                    if d and d[2] == "assign" and d[3]["rv"]["k"] == "use" and not d[3]["lhs"]["p"]:
                        cur = d[3]["rv"]["o"]          # `let chain = ..; set.extend(chain.cloned())`: through the binding
                        continue
                    if not d or d[2] != "call":
                        break
                    w_, r_ = mir.callee_of(d[3])
                    short_ = q.base_name(w_ or "").rsplit("::", 1)[-1]
                    if short_ == "filter" and len(d[3]["args"]) == 2:
                        for o in B.origins(d[3]["args"][1]):
                            cf_ = F.fns.get(o[1]) if o[0] == "agg" else None
                            if cf_ is None:
                                continue
                            Bc = mir.Body(cf_, F)
                            ro = Bc.origins({"l": 0, "p": []})
                            if ro and all(x[0] == "call" and q.ends(x[1], "HashMap::contains_key") for x in ro):
                                recv = set()
                                for x in ro:
                                    recv |= {y[1] for y in Bc.origins(Bc.blocks[x[2]]["term"]["args"][0]) if y[0] == "param"}
                                filt_ok = recv == {"identity_dict"}
                    cur = d[3]["args"][0] if d[3]["args"] else None
                ok = bool(pk) and filt_ok and B.path([0], [c[0]], cut_edges=pk) is None
                R.check(ok, "C02.R6", R.key("C02.R6", fa_["id"], "assignment-extend"), q.where(B, c[0]),
                        "identities are added in bulk only under 'privilege defined', filtered by identity_dict.contains_key",
                        "bulk assignment insert not guarded by 'privilege defined' / not filtered by 'identity defined'")
            R.floor("C02.R6", len(hs) + len(ext), 1, "assignment insert sites")
        # every role assignment that reaches a privilege is MERGED into that privilege's identity set: get-or-create of the set
        # (entry().or_default() / or_insert_with(..) / contains_key + insert(new set)) must be followed by adding this assignment's
        # identities to the set it hands back - `or_insert_with(|| these_identities)` alone keeps only the first assignment
        for bi, w, r, t in B.calls_named("Entry::or_insert_with", "Entry::or_insert", "Entry::or_default"):
            mty = str(B.locals[t["args"][0]["p"]["l"]].get("ty", "")) if t["args"] and t["args"][0].get("k") in ("copy", "move") else ""
            if "HashSet" not in mty:
                continue
            dl_ = t["dest"]["l"]
            merged = False
            for c2 in B.calls_named("HashSet::extend", "Extend::extend", "HashSet::insert"):
                a0 = c2[3]["args"][0] if c2[3]["args"] else None
                if a0 is not None and a0.get("k") in ("copy", "move"):
                    lo = a0["p"]["l"]
                    hops_ = 0
                    while lo != dl_ and hops_ < 6:
                        hops_ += 1
                        d_ = B.single_def(lo)
                        if not d_ or d_[2] != "assign":
                            break
                        rv_ = d_[3]["rv"]
                        nxt = rv_["o"]["p"]["l"] if rv_["k"] == "use" and rv_["o"].get("k") in ("copy", "move") else rv_["p"]["l"] if rv_["k"] == "ref" else None
                        if nxt is None:
                            break
                        lo = nxt
                    if lo == dl_ and bi in B.reach([0]) and c2[0] in B.reach([bi]):
                        merged = True
            R.check(merged, "C02.R3", R.key("C02.R3", fa_["id"], "assignment-merge"), q.where(B, bi),
                    "the identity set obtained with %s is extended with this assignment's identities" % q.base_name(w).rsplit("::", 1)[-1],
                    "the privilege's identity set is only created (%s), this assignment's identities are not added to an existing set: the "
                    "first role assignment that reaches a privilege wins and later ones are dropped, so the decision depends on the "
                    "order of roleAssignments" % q.base_name(w).rsplit("::", 1)[-1])

        # the computed maps only grow: is_allowed distinguishes "a declared privilege matches the URL but nobody is assigned" (deny)
        # from "no declared privilege matches" (defaultAccess) by walking EVERY declared privilege, and reads the assignments
        # of each; an entry taken out of the privileges / assignments map after it was computed (retain / remove / clear /
        # drain) changes the decision for the URLs of that privilege although the rule document still declares it
        n_rm = 0
        for bi, w, r, t in B.calls_named("HashMap::retain", "HashMap::remove", "HashMap::remove_entry", "HashMap::clear",
                                         "HashMap::drain", "HashMap::extract_if"):
            a0 = t["args"][0] if t["args"] else None
            mty = str(B.locals[a0["p"]["l"]].get("ty", "")) if a0 is not None and a0.get("k") in ("copy", "move") else ""
            if "HashMap<" not in mty:
                continue
            val = mty.split("HashMap<", 1)[1]
            if not ("Privilege" in val or "HashSet<" in val):
                continue        # identities that no assignment names are never consulted: removing those is not a decision change
            n_rm += 1
            R.fail("C02.R8", R.key("C02.R8", fa_["id"], "computed-map-shrinks:%s" % q.base_name(w).rsplit("::", 1)[-1]), q.where(B, bi),
                   "%s on the computed %s map: a declared privilege (or its computed assignments) is dropped from the rule set, so a URL "
                   "it matches falls through to defaultAccess instead of 'matched, nobody assigned => deny' (is_allowed relies on every "
                   "declared privilege being present)" % (q.base_name(w).rsplit("::", 1)[-1], "privileges" if "Privilege" in val else "assignments"))
        # ... and nothing declared is left out on the way in: the iterator chain collected into the privileges map has no
        # selecting adaptor (filter / filter_map / take / skip / .. ) between the host's list and collect()
        SELECT = {"filter", "filter_map", "take", "skip", "take_while", "skip_while", "step_by", "map_while"}
        n_chain = 0
        for bi, w, r, t in B.calls_named("Iterator::collect"):
            tys = [g.get("ty", "") for g in t["f"].get("fnargs", [])]
            if not any(x.startswith("std::collections::HashMap<") and "Privilege" in x.split(",", 1)[-1] for x in tys):
                continue
            n_chain += 1
            cur, hops, sel_ = (t["args"][0] if t["args"] else None), 0, []
            while cur is not None and cur.get("k") in ("copy", "move") and hops < 12:
                hops += 1
                d = B.single_def(cur["p"]["l"])
                if d and d[2] == "assign" and d[3]["rv"]["k"] == "use" and not d[3]["lhs"]["p"]:
                    cur = d[3]["rv"]["o"]
                    continue
                if not d or d[2] != "call":
                    break
                w_, r_ = mir.callee_of(d[3])
                short_ = q.base_name(w_ or "").rsplit("::", 1)[-1]
                if short_ in SELECT:
                    sel_.append(short_)
                cur = d[3]["args"][0] if d[3]["args"] else None
            R.check(not sel_, "C02.R8", R.key("C02.R8", fa_["id"], "every-declared-privilege-collected"), q.where(B, bi),
                    "the chain collected into the privileges map has no selecting adaptor (%d adaptor(s) walked)" % hops,
                    "the privileges map is collected through %s: a declared privilege can be left out of the computed rule set, a URL it "
                    "matches then falls through to defaultAccess" % sel_)
        R.check(n_rm == 0, "C02.R8", R.key("C02.R8", fa_["id"], "computed-maps-only-grow"), "%s:%s" % (fa_["file"], fa_["line"]),
                "no retain / remove / clear / drain on the computed privileges and assignments maps in from_authorization_item",
                "%d removal call(s) on the computed privileges / assignments maps" % n_rm)

    # ------------------------------------------------------------------ R5
    ident = F.adts.get(KEYM + "Identity")
    im = R.anchor(KEYM + "Identity::is_match", "C02.R5")
    if ident and im:
        B = mir.Body(im, F)
        opt_fields = [f["name"] for f in ident["variants"][0]["fields"] if f["ty"].startswith("std::option::Option<") and f["name"] != "name"]
        for f in opt_fields:
            paired = IDENTITY_PAIRING.get(f)
            if paired is None:
                R.fail("C02.R5", "C02.R5:%s:attribute:%s" % (im["id"], f), "%s:%s" % (ident["file"], ident["line"]),
                       "Identity has attribute `%s` with no entry in the reviewed pairing table: it is parsed but its matching is unreviewed" % f)
                continue
            found = False
            from lib import contracts as _ct
            fam_calls = []
            for f_ in [im] + descendants(F, im["id"]):
                Bf = B if f_ is im else mir.Body(f_, F)
                fam_calls += [(Bf, c) for c in Bf.calls]
            for Bf, (bi, w, r, t) in fam_calls:
                name = q.base_name(r or w or "").rsplit("::", 1)[-1]
                if name not in ("eq", "ne") or len(t["args"]) != 2:
                    continue
                # a comparison inside a closure (`groups.iter().any(|g| g == name)`) is read in the terms of is_match itself
                oa, ob = (_ct.parent_terms(F, Bf, Bf.origins(t["args"][i])) for i in (0, 1))
                sides = [oa, ob]
                self_side = any(any(o[0] == "param" and o[1] == "self" and o[2][:1] == (f,) for o in s) for s in sides)
                claim_side = any(any(o[0] == "param" and o[1] == "claims" and o[2][:1] == (paired,) for o in s) for s in sides)
                if self_side and claim_side:
                    found = True
                    # mismatch edge reaches only `return false`
                    for sb in B.switch_blocks():
                        e, tr, fal = B.truth_edges(sb)
                        if e[0] == "call" and e[3] == bi:
                            pass
            tested = any(e[0] == "discr" and any(o[0] == "param" and o[1] == "self" and tuple(o[2]) == (f,) for o in B.origins(e[1]))
                         for e in (B.cond(sb) for sb in B.switch_blocks()))
            R.check(found and tested, "C02.R5", "C02.R5:%s:attribute:%s" % (im["id"], f), "%s:%s" % (im["file"], im["line"]),
                    "Identity.%s is tested (Some) and compared with claims.%s" % (f, paired),
                    "Identity.%s is not compared with claims.%s in is_match" % (f, paired))
        R.floor("C02.R5", len(opt_fields), 4, "optional attributes of Identity")
        # every `return false` in is_match follows a failed comparison: no unconditional false
        vals = set()
        for bi, blk in enumerate(B.blocks):
            for s in blk["stmts"]:
                if s["k"] == "assign" and s["lhs"]["l"] == 0 and s["rv"]["k"] == "use" and s["rv"]["o"]["k"] == "const":
                    vals.add(bool(s["rv"]["o"].get("val")))
        R.check(vals == {True, False}, "C02.R5", "C02.R5:%s:both-outcomes" % im["id"], "-", "Identity::is_match can return both true and false")
    priv = F.adts.get(KEYM + "Privilege")
    if priv and pm:
        B = mir.Body(pm, F)
        fields = [f["name"] for f in priv["variants"][0]["fields"] if f["name"] != "name"]
        used = set()
        for blk in B.blocks:
            for s in blk["stmts"]:
                if s["k"] == "assign":
                    for pl in mir.places_in_rvalue(s["rv"]):
                        for nm in mir.field_names(pl):
                            used.add(nm)
        miss = [f for f in fields if f not in used]
        R.check(not miss and set(fields) == {"path", "queryParameters"}, "C02.R5", "C02.R5:%s:privilege-attributes" % pm["id"], "%s:%s" % (priv["file"], priv["line"]),
                "Privilege attributes %s are all consulted by is_match" % fields, "Privilege attributes %s; not consulted: %s" % (fields, miss))

    # ------------------------------------------------------------------ R7 the rule document reaches the evaluator unchanged
    # KeyStatus::get_*_rules() hand the host's rule sections to from_authorization_item through *hand-written* Clone impls
    from lib import contracts
    R.rule("C02.R7", "hand-written Clone impls of the rule document types are content-blind and field-faithful")
    ims = [im for im in contracts.handwritten_impls(F, "clone::Clone", ("azure_proxy_agent",)) if "/key_keeper/key.rs" in im["file"]]
    for im in ims:
        contracts.faithful_clone(F, R, "C02.R7", im)
    # every rule-document type is Clone one way or the other (derived impls are faithful by construction)
    need = ["AuthorizationItem", "Privilege", "Role", "Identity", "RoleAssignment"]
    have = {im["self_ty"].rsplit("::", 1)[-1] for im in F.impls if str(im["trait"]).endswith("clone::Clone") and "/key_keeper/key.rs" in im["file"]}
    R.check(set(need) <= have, "C02.R7", "C02.R7:rule-document-types-are-clone", "proxy_agent/src/key_keeper/key.rs",
            "the rule document types %s implement Clone (hand-written and checked: %d, derived: %d)" % (need, len([i for i in ims if i["self_ty"].rsplit("::", 1)[-1] in need]),
                                                                                                       len([n for n in need if n in have]) - len([i for i in ims if i["self_ty"].rsplit("::", 1)[-1] in need])),
            "rule document types without a Clone impl: %s" % sorted(set(need) - have))
