"""C06 Kernel hook redirects exactly the protected connects, records the true caller (DESIGN §5 C06).

Engine B (clang typed AST + record layouts of the unmodified C file) and Engine C (agreement with the Rust reader)."""
import re

from lib import cg, mir, q

AP = "azure_proxy_agent::"
EO = AP + "redirector::linux::ebpf_obj::"
LX = AP + "redirector::linux::"

# helper encodings, copied from the UAPI documentation in /usr/include/linux/bpf.h:
#   bpf_get_current_pid_tgid: "current_task->tgid << 32 | current_task->pid"
#   bpf_get_current_uid_gid:  "current_gid << 32 | current_uid"
HELPER_WORDS = {"bpf_get_current_pid_tgid": {"high": "tgid (process id)", "low": "pid (thread id)"},
                "bpf_get_current_uid_gid": {"high": "gid", "low": "uid"}}
WANT = {"logon_id": ("bpf_get_current_uid_gid", "low"), "is_root": ("bpf_get_current_uid_gid", "low"),
        "process_id": ("bpf_get_current_pid_tgid", "high"), "skip-pid": ("bpf_get_current_pid_tgid", "high")}

NET = "NET"    # network byte order
HOST = "HOST"


# ---------------------------------------------------------------------------------------- C AST helpers
def strip(n):
    while n.get("kind") in ("ImplicitCastExpr", "ParenExpr") and n.get("inner"):
        n = n["inner"][0]
    return n


def walk(n):
    yield n
    for c in n.get("inner", []):
        yield from walk(c)


def expr_str(n):
    n = strip(n)
    k = n.get("kind")
    if k == "DeclRefExpr":
        return n.get("ref", "?")
    if k == "MemberExpr":
        if not n.get("name"):
            return expr_str(n["inner"][0])  # anonymous struct/union member: transparent
        return expr_str(n["inner"][0]) + ("->" if n.get("isArrow") else ".") + n.get("name", "?")
    if k == "IntegerLiteral":
        return n.get("value", "?")
    if k == "BinaryOperator":
        return "%s %s %s" % (expr_str(n["inner"][0]), n.get("opcode"), expr_str(n["inner"][1]))
    if k == "UnaryOperator":
        return "%s(%s)" % (n.get("opcode"), expr_str(n["inner"][0]))
    if k == "CallExpr":
        return "%s(%s)" % (expr_str(n["inner"][0]), ", ".join(expr_str(a) for a in n["inner"][1:]))
    if k == "CStyleCastExpr":
        if "void *" in str(n.get("type")) and strip(n["inner"][0]).get("kind") == "IntegerLiteral" and strip(n["inner"][0]).get("value") == "0":
            return "NULL"
        return "(%s)%s" % (n.get("type"), expr_str(n["inner"][0]))
    if k == "ConditionalOperator":
        return "%s ? %s : %s" % tuple(expr_str(x) for x in n["inner"][:3])
    if k == "GNUNullExpr" or (k == "CStyleCastExpr" and "void *" in str(n.get("type"))):
        return "NULL"
    return k or "?"


def body_of(fn):
    for c in fn.get("inner", []):
        if c.get("kind") == "CompoundStmt":
            return c
    return None


def always_returns(stmt):
    if stmt.get("kind") == "ReturnStmt":
        return True
    if stmt.get("kind") == "CompoundStmt":
        return any(always_returns(s) for s in stmt.get("inner", []))
    if stmt.get("kind") == "IfStmt" and stmt.get("hasElse"):
        kids = stmt["inner"]
        return always_returns(kids[1]) and always_returns(kids[2])
    return False


def _canon(kind, cond):
    """('not', 'p == NULL') and ('if', 'p != NULL') are one fact: `if (p == NULL) return;` guards what follows like `if (p != NULL) {..}`"""
    if kind == "not":
        for a, b in ((" == ", " != "), (" != ", " == ")):
            if a in cond and cond.count(a) == 1 and " && " not in cond and " || " not in cond:
                return ("if", cond.replace(a, b))
    return (kind, cond)


def not_taken(fs, prefix):
    """the facts say that `prefix(..) == 1` (the 'skip' answer) does not hold here, however the test was written"""
    for k, c in fs:
        if not c.startswith(prefix):
            continue
        if k == "not" and (c.endswith(" == 1") or c.endswith(")")):
            return True
        if k == "if" and (c.endswith(" != 1") or c.endswith(" == 0")):
            return True
    return False


def statements_with_facts(fn):
    """[(stmt, facts)] for every statement of a goto-free function; facts = list of ('if'|'else'|'after-return-if', condition text)"""
    out = []

    def rec(stmt, facts):
        k = stmt.get("kind")
        if k == "CompoundStmt":
            local = list(facts)
            for s in stmt.get("inner", []):
                rec(s, local)
                if s.get("kind") == "IfStmt" and not s.get("hasElse") and always_returns(s["inner"][1]):
                    local = local + [_canon("not", expr_str(s["inner"][0]))]
            return
        if k == "IfStmt":
            kids = stmt["inner"]
            cond = expr_str(kids[0])
            out.append((stmt, facts))
            rec(kids[1], facts + [("if", cond)])
            if stmt.get("hasElse") and len(kids) > 2:
                rec(kids[2], facts + [_canon("not", cond)])
            return
        out.append((stmt, facts))
    b = body_of(fn)
    if b:
        rec(b, [])
    return out


def word_of(n, env):
    """classify an expression as (helper, 'high'|'low'|'whole') following local variable initialisers"""
    n = strip(n)
    k = n.get("kind")
    if k == "CStyleCastExpr":
        inner = word_of(n["inner"][0], env)
        if inner and inner[1] == "whole" and ("32" in str(n.get("type")) or "__u32" == n.get("type")):
            return (inner[0], "low")
        return inner
    if k == "CallExpr":
        callee = strip(n["inner"][0]).get("ref")
        if callee in HELPER_WORDS:
            return (callee, "whole")
        # a helper of the program that returns such a word (`get_current_uid()`): classified by its single return expression
        hf = (env.get("__fns__") or {}).get(callee)
        if hf is not None and len(n["inner"]) == 1:
            rets = [x for x in walk(hf) if x.get("kind") == "ReturnStmt" and x.get("inner")]
            if len(rets) == 1:
                sub = {"__fns__": {k: v for k, v in env["__fns__"].items() if k != callee}}
                return word_of(rets[0]["inner"][0], sub)
        return None
    if k == "DeclRefExpr":
        return env.get(n.get("ref"))
    if k == "BinaryOperator":
        a, b = n["inner"]
        wa = word_of(a, env)
        lit = strip(b)
        if wa and wa[1] == "whole" and lit.get("kind") == "IntegerLiteral":
            v = int(lit.get("value", "0"), 0) if isinstance(lit.get("value"), str) else lit.get("value")
            if n.get("opcode") == ">>" and v == 32:
                return (wa[0], "high")
            if n.get("opcode") == "&" and v in (0xFFFFFFFF,):
                return (wa[0], "low")
        if n.get("opcode") in ("==", "!="):
            return wa or word_of(b, env)
        return None
    if k == "ConditionalOperator":
        # (uid == 0) ? 1 : 0  -> classified by the compared value
        return word_of(n["inner"][0], env)
    return None


FNS = {}


def var_env(fn):
    env = {"__fns__": FNS}
    for n in walk(fn):
        if n.get("kind") == "VarDecl" and n.get("inner"):
            w = word_of(n["inner"][-1], env)
            if w:
                env[n["name"]] = w
    return env


# ---------------------------------------------------------------------------------------- run
def run(F, R, tier):
    R.explanation = (
        "Engine B (clang typed AST and record layouts of the unmodified ebpf_cgroup.c, stub libbpf headers) and Engine C (agreement with the "
        "Rust reader): (R1) every value stored as logon_id / compared for is_root is the LOW word of bpf_get_current_uid_gid() and every "
        "process id the HIGH word of bpf_get_current_pid_tgid() (helper encodings from the UAPI documentation); (R2) in the goto-free hook "
        "functions the destination rewrite is nested in 'policy != NULL' of a policy_map lookup keyed by the connect's own ip/port/protocol, "
        "after the not-skipped outcome of the skip-process check and after the original destination was recorded; audit records are written "
        "only for non-skipped processes under a local_map or policy_map hit, keyed by the socket's local port; (R3) C record layouts equal "
        "4*N and the word order of the [u32; N] types at the Rust aya HashMap::try_from sites opening the map of that name, the #[repr(C)] "
        "mirrors have the same fields in the same order and to_array/from_array put field i in word offset/4, map and program names agree; "
        "(R4) byte-order tags of ports/addresses agree between writer and reader; (R5) the skip map receives std::process::id().")
    for rid, txt in (("C06.R1", "helper word extraction (uid = low word, tgid = high word)"), ("C06.R2", "redirect / audit writes are guarded"),
                     ("C06.R3", "layout, map-name and program-name agreement between C and Rust"), ("C06.R4", "byte order agreement"),
                     ("C06.R5", "the agent's own pid in the skip map is a tgid")):
        R.rule(rid, txt)
    R.not_decided += ["the in-kernel verifier's acceptance", "LRU eviction with more than 200 connections in flight",
                      "races between the two hook points across threads (schedule quantifier)",
                      "kernel struct offsets read with bpf_probe_read (socket.h's sock_common copy is not checked against a kernel)"]
    R.assumptions.append("clang 14 parser and x86-64 record layout (all fields are __u32/__u64, identical on the BPF target); the stub helper "
                         "prototypes in /verif/cstubs; helper encodings as documented in /usr/include/linux/bpf.h")
    E = F.ebpf
    if not E:
        R.fail("C06.R1", "C06.R1:anchor-missing:ebpf_cgroup.c", "-", "anchor-missing=linux-ebpf/ebpf_cgroup.c (no Engine B facts)")
        return
    fns = E["functions"]
    FNS.clear()
    FNS.update(fns)
    for f in fns:
        R.touched("ebpf_cgroup.c::" + f)
    src = "linux-ebpf/ebpf_cgroup.c"

    # the skip-process check by role, whatever it is called: the helper that looks the pid up in skip_process_map
    skip_fns = [fname for fname, fn in fns.items() if fname not in ("connect4", "tcp_v4_connect", "authorize_v4", "trace_v4") and
                any(n.get("kind") == "CallExpr" and strip(n["inner"][0]).get("ref") == "bpf_map_lookup_elem" and len(n["inner"]) > 1 and
                    "skip_process_map" in expr_str(n["inner"][1]) for n in walk(fn))] or ["check_skip_process_map_entry"]
    SKIP = skip_fns[0]
    # ------------------------------------------------------------------ R1
    n_ext = 0
    for fname, fn in fns.items():
        env = var_env(fn)
        for n in walk(fn):
            if n.get("kind") == "BinaryOperator" and n.get("opcode") == "=":
                lhs = strip(n["inner"][0])
                if lhs.get("kind") == "MemberExpr" and lhs.get("name") in ("logon_id", "is_root", "process_id"):
                    fld = lhs["name"]
                    rhs = strip(n["inner"][1])
                    # copies from another record's same field carry no helper extraction
                    if rhs.get("kind") == "MemberExpr":
                        continue
                    w = word_of(rhs, env)
                    want = WANT[fld]
                    n_ext += 1
                    key = "C06.R1:%s:%s" % (fname, fld)
                    ok = w == want
                    R.check(ok, "C06.R1", key, "%s:%s" % (src, n.get("line")),
                            "%s.%s = %s word of %s() [%s]" % (fname, fld, want[1], want[0], HELPER_WORDS[want[0]][want[1]]),
                            "%s: `%s` is the %s word of %s() = %s, but %s must be the %s" % (
                                fname, expr_str(n), (w or ("?", "?"))[1], (w or ("?",))[0],
                                HELPER_WORDS.get((w or ("", ""))[0], {}).get((w or ("", ""))[1], "an unrecognised expression"), fld,
                                HELPER_WORDS[want[0]][want[1]]))
            if n.get("kind") == "CallExpr" and strip(n["inner"][0]).get("ref") == SKIP:
                w = word_of(n["inner"][1], env)
                n_ext += 1
                R.check(w == WANT["skip-pid"], "C06.R1", R.key("C06.R1", fname, "skip-pid"), "%s:%s" % (src, n.get("line")),
                        "%s checks the skip map with the tgid (high word of pid_tgid)" % fname,
                        "%s checks the skip map with %s" % (fname, w))
    R.floor("C06.R1", n_ext, 6, "uid / pid extraction uses in the C program")

    # ------------------------------------------------------------------ R2
    def key_fields(fn, kv):
        out = {}
        for n in walk(fn):
            if n.get("kind") == "BinaryOperator" and n.get("opcode") == "=":
                lhs = expr_str(n["inner"][0])
                if lhs.startswith(kv + "."):
                    out[lhs[len(kv) + 1:]] = expr_str(n["inner"][1])
        return out

    def clean_key(e):
        return expr_str(e).replace("&(", "").replace(")", "").replace("&", "")

    def lookup_wrappers(mapname):
        """static helpers whose only result is `return bpf_map_lookup_elem(&mapname, &key)` with the key's fields assigned from their
        parameters: {helper: ([param names], {key field: expression over the parameters})}"""
        out = {}
        for fname, fn in fns.items():
            rets = [n for n in walk(fn) if n.get("kind") == "ReturnStmt" and n.get("inner")]
            if len(rets) != 1:
                continue
            e = strip(rets[0]["inner"][0])
            if e.get("kind") == "CallExpr" and strip(e["inner"][0]).get("ref") == "bpf_map_lookup_elem" and mapname in expr_str(e["inner"][1]):
                params = [c.get("name") for c in fn.get("inner", []) if c.get("kind") == "ParmVarDecl"]
                out[fname] = (params, key_fields(fn, clean_key(e["inner"][2])))
        return out

    def find_lookup_var(fn, mapname):
        """variables initialised with bpf_map_lookup_elem(&mapname, &key), directly or through a lookup helper -> {var: {key field: value}}"""
        out = {}
        wr = lookup_wrappers(mapname)
        for n in walk(fn):
            if n.get("kind") == "VarDecl" and n.get("inner"):
                init = strip(n["inner"][-1])
                if init.get("kind") != "CallExpr":
                    continue
                callee = strip(init["inner"][0]).get("ref")
                if callee == "bpf_map_lookup_elem":
                    if mapname in expr_str(init["inner"][1]):
                        out[n["name"]] = key_fields(fn, clean_key(init["inner"][2]))
                elif callee in wr:
                    params, kf = wr[callee]
                    args = dict(zip(params, [expr_str(a) for a in init["inner"][1:]]))
                    out[n["name"]] = {f: args.get(v, v) for f, v in kf.items()}
        return out

    av = fns.get("authorize_v4")
    if not av:
        R.fail("C06.R2", "C06.R2:anchor-missing:authorize_v4", "-", "anchor-missing=authorize_v4")
    else:
        pol = find_lookup_var(av, "policy_map")
        sw = statements_with_facts(av)
        writes = []
        for stmt, facts in sw:
            for n in walk(stmt) if stmt.get("kind") != "IfStmt" else []:
                if n.get("kind") == "BinaryOperator" and n.get("opcode") == "=":
                    lhs = strip(n["inner"][0])
                    if lhs.get("kind") == "MemberExpr" and lhs.get("name") in ("user_ip4", "user_port") and expr_str(lhs).startswith("ctx"):
                        writes.append((lhs["name"], n, facts))
        R.floor("C06.R2", len(writes), 2, "destination rewrites in authorize_v4")
        for name, n, facts in writes:
            fs = set(facts)
            pv = [v for v in pol if ("if", "%s != NULL" % v) in fs]
            skipped_ok = not_taken(fs, "update_local_map_entry(")
            src_ok = bool(pv) and expr_str(n["inner"][1]).startswith(pv[0] + "->")
            R.check(bool(pv) and skipped_ok and src_ok, "C06.R2", "C06.R2:authorize_v4:rewrite:%s" % name, "%s:%s" % (src, n.get("line")),
                    "ctx->%s is rewritten only under `policy != NULL` (policy_map hit), after the not-skipped outcome of update_local_map_entry, "
                    "to the policy's value" % name,
                    "ctx->%s rewrite `%s` holds under %s" % (name, expr_str(n), sorted(fs)))
        # the policy key is built from this connect's own destination
        assigned = {}
        for kf in pol.values():
            assigned.update(kf)
        exp = {"destination_ip.ipv4": "ctx->user_ip4", "destination_port": "ctx->user_port", "protocol": "ctx->protocol"}
        R.check(assigned == exp, "C06.R2", "C06.R2:authorize_v4:policy-key", src, "policy key = (ctx->user_ip4, ctx->user_port, ctx->protocol)",
                "policy key fields: %s" % assigned)
    ul = fns.get("update_local_map_entry")
    if ul:
        sw = statements_with_facts(ul)
        upd = [(s, f) for s, f in sw if any(n.get("kind") == "CallExpr" and strip(n["inner"][0]).get("ref") == "bpf_map_update_elem" and "local_map" in expr_str(n["inner"][1]) for n in walk(s))]
        ok = len(upd) == 1 and not_taken(upd[0][1], SKIP + "(")
        R.check(ok, "C06.R2", "C06.R2:update_local_map_entry:not-skipped", src,
                "the original destination is recorded in local_map only after the skip-process check returned 'not skipped'")
        rec = {}
        for n in walk(ul):
            if n.get("kind") == "BinaryOperator" and n.get("opcode") == "=":
                lhs = expr_str(n["inner"][0])
                if "." in lhs and not lhs.startswith("ctx") and "->" not in lhs:
                    rec[lhs.split(".", 1)[1]] = expr_str(n["inner"][1])
        R.check(rec.get("destination_ipv4") == "ctx->user_ip4" and rec.get("destination_port") == "ctx->user_port", "C06.R2",
                "C06.R2:update_local_map_entry:records-original-destination", src,
                "local entry records ctx->user_ip4 / ctx->user_port (called before the rewrite: the original destination)", "local entry: %s" % rec)
    tv = fns.get("trace_v4")
    if not tv:
        R.fail("C06.R2", "C06.R2:anchor-missing:trace_v4", "-", "anchor-missing=trace_v4")
    else:
        sw = statements_with_facts(tv)
        loc = find_lookup_var(tv, "local_map")
        pol = find_lookup_var(tv, "policy_map")
        n_aud = 0
        for stmt, facts in sw:
            if stmt.get("kind") == "IfStmt":
                continue
            for n in walk(stmt):
                if n.get("kind") != "CallExpr":
                    continue
                callee = strip(n["inner"][0]).get("ref")
                is_direct = callee == "bpf_map_update_elem" and "audit_map" in expr_str(n["inner"][1])
                is_helper = callee == "update_audit_map_entry_sk"
                if not (is_direct or is_helper):
                    continue
                n_aud += 1
                fs = set(facts)
                not_skipped = not_taken(fs, SKIP + "(")
                hit = any(("if", "%s != NULL" % v) in fs for v in list(loc) + list(pol))
                R.check(not_skipped and hit, "C06.R2", R.key("C06.R2", "trace_v4", "audit-write"), "%s:%s" % (src, n.get("line")),
                        "audit record written only for a non-skipped process under a local_map / policy_map hit",
                        "audit write `%s` holds under %s" % (expr_str(n)[:60], sorted(fs)))
                if is_helper:
                    R.check(expr_str(n["inner"][1]) == "skc.skc_num", "C06.R2", "C06.R2:trace_v4:key-port-helper", "%s:%s" % (src, n.get("line")),
                            "the audit key's source port is skc.skc_num (local port, host order)")
        R.floor("C06.R2", n_aud, 2, "audit_map writes reachable in trace_v4")
        keyp = [expr_str(n["inner"][1]) for n in walk(tv) if n.get("kind") == "BinaryOperator" and n.get("opcode") == "=" and expr_str(n["inner"][0]).endswith(".source_port")]
        R.check(keyp == ["skc.skc_num"], "C06.R2", "C06.R2:trace_v4:key-port", src, "key.source_port = skc.skc_num", "key.source_port = %s" % keyp)
    ua = fns.get("update_audit_map_entry_sk")
    if ua:
        copies = {}
        for n in walk(ua):
            if n.get("kind") == "BinaryOperator" and n.get("opcode") == "=":
                lhs = expr_str(n["inner"][0])
                if "." in lhs and "->" not in lhs:
                    copies[lhs.split(".", 1)[1]] = expr_str(n["inner"][1])
        exp = {f: "local_entry->" + f for f in ("process_id", "logon_id", "is_root", "destination_ipv4", "destination_port")}
        R.check(all(copies.get(f_) == v_ for f_, v_ in exp.items()), "C06.R2", "C06.R2:update_audit_map_entry_sk:field-copy", src,
                "the audit entry copies each field from the same-named field of the local entry", "copies: %s" % copies)

    # ------------------------------------------------------------------ R6 hand-over slot is per thread
    R.rule("C06.R6", "the connect4 -> tcp_connect hand-over record (local_map) is keyed by the whole pid_tgid (unique per thread)")
    n_lm = 0
    for fname, fn in fns.items():
        env = var_env(fn)
        for n in walk(fn):
            if n.get("kind") == "CallExpr" and strip(n["inner"][0]).get("ref") in ("bpf_map_update_elem", "bpf_map_lookup_elem", "bpf_map_delete_elem") \
                    and len(n["inner"]) > 2 and "local_map" in expr_str(n["inner"][1]):
                keyexpr = strip(n["inner"][2])
                # &var
                kv = strip(keyexpr["inner"][0]) if keyexpr.get("kind") == "UnaryOperator" and keyexpr.get("opcode") == "&" else keyexpr
                w = word_of(kv, env)
                n_lm += 1
                R.check(w == ("bpf_get_current_pid_tgid", "whole"), "C06.R6", R.key("C06.R6", fname, strip(n["inner"][0]).get("ref").replace("bpf_map_", "")),
                        "%s:%s" % (src, n.get("line")),
                        "%s: local_map accessed with the whole 64-bit pid_tgid (one slot per thread)" % fname,
                        "%s: local_map is keyed by `%s` = %s: threads of one process share the hand-over slot, so interleaved connects of two "
                        "threads are attributed to each other" % (fname, expr_str(kv), w))
    R.floor("C06.R6", n_lm, 3, "local_map accesses (update, lookup, delete)")

    # every record the kernel program stores replaces whatever is under that key (flags 0 = BPF_ANY): a record left behind by an earlier
    # connection on the same source port / by an earlier connect of the same thread must never survive a new connect
    n_upd = 0
    for fname, fn in fns.items():
        for n in walk(fn):
            if n.get("kind") == "CallExpr" and strip(n["inner"][0]).get("ref") == "bpf_map_update_elem" and len(n["inner"]) > 4:
                mp = expr_str(n["inner"][1])
                if "audit_map" in mp or "local_map" in mp:
                    n_upd += 1
                    fl = expr_str(n["inner"][4])
                    R.check(fl in ("0", "BPF_ANY"), "C06.R2", R.key("C06.R2", fname, "update-overwrites:%s" % mp.strip("&")), "%s:%s" % (src, n.get("line")),
                            "%s: bpf_map_update_elem(%s, .., flags %s) replaces an existing record" % (fname, mp, fl),
                            "%s stores into %s with flags `%s`: with BPF_NOEXIST a stale record under the same key is kept and the new "
                            "connection is attributed to the previous caller" % (fname, mp, fl))
    R.floor("C06.R2", n_upd, 3, "record stores into audit_map / local_map")

    # a pointer returned by bpf_map_lookup_elem(&M, ..) points INTO the map: it must not be read after bpf_map_delete_elem(&M, ..)
    # later in the same function (another CPU may have re-used the element for a different connection by then)
    n_ptr = 0
    for fname, fn in fns.items():
        ptrs = {}
        for n in walk(fn):
            if n.get("kind") == "VarDecl" and n.get("inner"):
                init = strip(n["inner"][-1])
                if init.get("kind") == "CallExpr" and strip(init["inner"][0]).get("ref") == "bpf_map_lookup_elem":
                    ptrs[n["name"]] = expr_str(init["inner"][1])
        if not ptrs:
            continue

        def later_statements(stmt_list_chain):
            """statements that execute after the delete: following siblings at every nesting level"""
            for stmts, idx in stmt_list_chain:
                for s in stmts[idx + 1:]:
                    yield s

        def rec(stmt, chain):
            k = stmt.get("kind")
            if k == "CompoundStmt":
                kids = stmt.get("inner", [])
                for i, s in enumerate(kids):
                    yield from rec(s, chain + [(kids, i)])
                return
            if k == "IfStmt":
                kids = stmt["inner"]
                # the condition belongs to this statement; branches are nested statements
                for c in kids[1:]:
                    yield from rec(c, chain)
                return
            yield stmt, chain
        b = body_of(fn)
        for stmt, chain in (rec(b, []) if b else []):
            for n in walk(stmt):
                if n.get("kind") == "CallExpr" and strip(n["inner"][0]).get("ref") == "bpf_map_delete_elem":
                    mp = expr_str(n["inner"][1])
                    victims = [v for v, m_ in ptrs.items() if m_ == mp]
                    for v in victims:
                        n_ptr += 1
                        uses = []
                        for s in later_statements(chain):
                            for x in walk(s):
                                if x.get("kind") == "DeclRefExpr" and x.get("ref") == v:
                                    uses.append(x.get("line") or s.get("line"))
                        R.check(not uses, "C06.R2", R.key("C06.R2", fname, "no-use-after-delete:%s" % v), "%s:%s" % (src, n.get("line")),
                                "%s: `%s` (a pointer into %s) is not used after the element is deleted" % (fname, v, mp),
                                "%s: `%s` points into %s and is still used (line(s) %s) after bpf_map_delete_elem(%s): the record written "
                                "from it can be another connection's" % (fname, v, mp, uses, mp))
    R.floor("C06.R2", n_ptr, 1, "map-element pointers live across a delete of their map")

    # the two maps that receive an entry for every protected connect recycle their oldest entries (LRU): left-overs of connects that
    # failed before tcp_connect / records nobody consumed must not fill them up - a full plain hash refuses the update (only logged)
    # and the connect is still diverted, without a record
    for mname in ("audit_map", "local_map"):
        mt = (E.get("maps") or {}).get(mname, {}).get("map_type")
        R.check(mt == 9, "C06.R2", "C06.R2:map-kind:%s" % mname, src,
                "%s is a BPF_MAP_TYPE_LRU_HASH (left-over entries are recycled, an update never fails for lack of space)" % mname,
                "%s has map type %r (9 = LRU hash expected): once it holds max_entries left-overs, new connects are diverted without a record" % (mname, mt))

    # ------------------------------------------------------------------ R3 layouts
    lay = E["layouts"]
    td = E["typedefs"]

    def c_words(tname):
        sname = td.get(tname, tname).replace("struct ", "")
        L = lay.get(sname)
        if not L:
            return None, None
        words = []
        for f in L["fields"]:
            if f["type"] in ("__u32", "unsigned int", "__be32") and f["depth"] in (0,):
                words.append((f["offset"] // 4, f["name"]))
            elif f["type"].startswith("__u32[") and f["depth"] >= 1:
                pass
        return L["size"], words

    map_types = {}   # map name -> (K words, V words) from Rust try_from sites
    for fid, fn in F.fns.items():
        if not fid.startswith(LX):
            continue
        if not any(b["term"]["k"] == "call" and "try_from" in str(b["term"]["f"].get("fn", "")) for b in fn["blocks"]):
            continue
        B = mir.Body(fn, F)
        for bi, w, r, t in B.calls_named("TryFrom::try_from", "try_from"):
            dty = B.locals[t["dest"]["l"]]["ty"]
            m = re.search(r"aya::maps::HashMap<[^,]+, \[u32; (\d+)\], \[u32; (\d+)\]>", dty)
            if not m:
                continue
            names = set()
            for o in B.origins(t["args"][0]):
                if o[0] == "call" and q.ends(o[1], "Ebpf::map", "Ebpf::map_mut"):
                    ct = B.blocks[o[2]]["term"]
                    names |= {x[2] for x in B.origins(ct["args"][1]) if x[0] == "const"}
            for nm in names:
                map_types.setdefault(nm, []).append((int(m.group(1)), int(m.group(2)), q.where(B, bi), fid))
    R.floor("C06.R3", sum(len(v) for v in map_types.values()), 5, "Rust map open sites (try_from)")
    for nm, sites in sorted(map_types.items()):
        cm = E["maps"].get(nm)
        if not cm:
            R.fail("C06.R3", "C06.R3:map-missing:%s" % nm, sites[0][2], "the agent opens map '%s' which the C program does not define" % nm)
            continue
        ks, _ = c_words(cm["key"])
        vs, _ = c_words(cm["value"])
        for kn, vn, where, fid in sites:
            R.check(ks == 4 * kn and vs == 4 * vn, "C06.R3", R.key("C06.R3", fid.replace(LX, ""), "map-size:%s" % nm), where,
                    "map '%s': C key %s = %d bytes = [u32; %d], value %s = %d bytes = [u32; %d]" % (nm, cm["key"], ks or -1, kn, cm["value"], vs or -1, vn),
                    "map '%s': C key %s is %s bytes / value %s is %s bytes, the agent opens it as [u32; %d] / [u32; %d]" % (nm, cm["key"], ks, cm["value"], vs, kn, vn))
    for nm in ("skip_process_map", "policy_map", "audit_map"):
        R.check(nm in map_types, "C06.R3", "C06.R3:map-opened:%s" % nm, "-", "the agent opens map '%s' by that name" % nm)
    # mirrors: field names / order
    mirrors = {"sock_addr_skip_process_entry": "sock_addr_skip_process_entry", "sock_addr_audit_key": "sock_addr_audit_key",
               "sock_addr_audit_entry": "sock_addr_audit_entry", "_destination_entry": "destination_entry"}
    for rname, cname in mirrors.items():
        a = F.adts.get(EO + rname)
        size, words = c_words(cname)
        if not a or words is None:
            R.fail("C06.R3", "C06.R3:mirror-missing:%s" % rname, "-", "anchor-missing=%s / C %s" % (EO + rname, cname))
            continue
        rf = [(f["name"], f["ty"]) for f in a["variants"][0]["fields"]]
        cf = [f for f in lay[td.get(cname, cname).replace("struct ", "")]["fields"] if f["depth"] == 0]
        names_ok = [x[0] for x in rf] == [f["name"] for f in cf]
        widths_ok = all((ty == "u32" and f["type"] == "__u32") or (ty.endswith("_ip_address") and "_ip_address" in f["type"]) for (nmf, ty), f in zip(rf, cf))
        R.check(a["repr_c"] and names_ok and widths_ok, "C06.R3", "C06.R3:mirror:%s" % rname, "%s:%s" % (a["file"], a["line"]),
                "#[repr(C)] %s has the C struct's fields in order: %s" % (rname, [x[0] for x in rf]),
                "Rust %s fields %s vs C %s fields %s (repr(C)=%s)" % (rname, rf, cname, [(f["name"], f["type"], f["offset"]) for f in cf], a["repr_c"]))
        # to_array / from_array word positions
        for conv in ("to_array", "from_array"):
            fn = F.fns.get(EO + rname + "::" + conv)
            if not fn:
                continue
            B = mir.Body(fn, F)
            got = {}
            for blk in B.blocks:
                for s in blk["stmts"]:
                    if s["k"] != "assign":
                        continue
                    if conv == "to_array" and s["rv"]["k"] == "agg" and s["rv"]["ak"] == "array" and s["lhs"]["l"] == 0 or \
                            (conv == "to_array" and s["rv"]["k"] == "agg" and s["rv"]["ak"] == "array" and
                             any(o[0] == "agg" for o in B.origins({"l": 0, "p": []}))):
                        # array literal: [self.a, self.b, ..] - element i is word i
                        for i_, op in enumerate(s["rv"]["ops"]):
                            src_f = [o[2][0] for o in B.origins(op) if o[0] == "param" and o[2]]
                            if src_f:
                                got[i_] = src_f[0]
                        continue
                    if conv == "to_array":
                        idx = [e for e in s["lhs"]["p"] if isinstance(e, dict) and "i" in e]
                        if idx and s["rv"]["k"] == "use":
                            iv = [o[2] for o in B.origins({"k": "copy", "p": {"l": idx[0]["i"], "p": []}}) if o[0] == "const"]
                            src_f = [o[2][0] for o in B.origins(s["rv"]["o"]) if o[0] == "param" and o[2]]
                            if iv and src_f:
                                got[iv[0]] = src_f[0]
                    else:
                        if s["rv"]["k"] == "agg" and s["rv"].get("adt") == EO + rname:
                            for fname_, op in zip(s["rv"]["fields"], s["rv"]["ops"]):
                                if op["k"] in ("copy", "move"):
                                    d = B.single_def(op["p"]["l"])
                                    hops_ = 0
                                    # through plain copies of locals (`let [a, b] = array; S { a, b }` binds, then moves)
                                    while d and d[2] == "assign" and d[3]["rv"]["k"] == "use" and d[3]["rv"]["o"].get("k") in ("copy", "move") \
                                            and not d[3]["rv"]["o"]["p"]["p"] and hops_ < 4:
                                        hops_ += 1
                                        d = B.single_def(d[3]["rv"]["o"]["p"]["l"])
                                    if d and d[2] == "assign" and d[3]["rv"]["k"] == "use":
                                        pl = d[3]["rv"]["o"].get("p", {})
                                        idx = [e for e in pl.get("p", []) if isinstance(e, dict) and "i" in e]
                                        if idx:
                                            iv = [o[2] for o in B.origins({"k": "copy", "p": {"l": idx[0]["i"], "p": []}}) if o[0] == "const"]
                                            if iv:
                                                got[iv[0]] = fname_
                                        # destructuring `let [a, b] = array;`: constant-index projections
                                        cidx = [e for e in pl.get("p", []) if isinstance(e, dict) and "ci" in e and not e.get("from_end")]
                                        if cidx:
                                            got[cidx[0]["ci"]] = fname_
            expw = {w: n for w, n in words}
            if rname == "_destination_entry":
                expw = {4: "destination_port", 5: "protocol"}
                got = {k: v for k, v in got.items() if k >= 4}
            R.check(got == expw, "C06.R3", "C06.R3:%s::%s:word-order" % (rname, conv), "%s:%s" % (fn["file"], fn["line"]),
                    "%s::%s puts field i in word offset/4: %s" % (rname, conv, got), "%s::%s word mapping %s, C layout %s" % (rname, conv, got, expw))
    # program names
    progs = set()
    for fid, fn in F.fns.items():
        if fid.startswith(LX) and any(b["term"]["k"] == "call" and "program_mut" in str(b["term"]["f"].get("fn", "")) for b in fn["blocks"]):
            B = mir.Body(fn, F)
            for bi, w, r, t in B.calls_named("Ebpf::program_mut"):
                for o in B.origins(t["args"][1]):
                    if o[0] == "const":
                        progs.add(o[2])
                    elif o[0] == "call":
                        progs.add("<%s>" % q.base_name(o[1]).rsplit("::", 1)[-1])
    want_secs = {"connect4": "cgroup/connect4", "tcp_v4_connect": "kprobe/tcp_v4_connect"}
    for p, sec in want_secs.items():
        R.check(E["programs"].get(p) == sec, "C06.R3", "C06.R3:program:%s" % p, src, "C program `%s` is in SEC(\"%s\")" % (p, sec),
                "C program %s section = %s" % (p, E["programs"].get(p)))
    lit = {p for p in progs if not p.startswith("<")}
    R.check(lit <= set(E["programs"]) and "tcp_v4_connect" in lit, "C06.R3", "C06.R3:program-names", "-",
            "program names used by the agent (%s; the cgroup program name comes from config) exist in the C file" % sorted(progs),
            "agent loads programs %s, C defines %s" % (sorted(progs), sorted(E["programs"])))
    cfgp = F.consts.get(AP + "common::config::DEFAULT_EBPF_PROGRAM_NAME") or {}
    R.observe("cgroup program name is read from configuration (get_ebpf_program_name)")

    # ------------------------------------------------------------------ R5
    n5 = 0
    for fid, fn in F.fns.items():
        if fn["crate"] != "azure_proxy_agent" or not any(b["term"]["k"] == "call" and "update_skip_process_map" in str(b["term"]["f"].get("fn", "")) for b in fn["blocks"]):
            continue
        B = mir.Body(fn, F)
        for bi, w, r, t in B.calls_named("BpfObject::update_skip_process_map"):
            n5 += 1
            org = B.origins(t["args"][1])
            R.check(org and all(o[0] == "call" and q.ends(o[1], "std::process::id") for o in org), "C06.R5", R.key("C06.R5", fid, "skip-pid"), q.where(B, bi),
                    "the agent registers std::process::id() (a tgid) in skip_process_map", "skip pid origins: %s" % sorted(map(str, org)))
    R.floor("C06.R5", n5, 1, "update_skip_process_map call sites")

    # ------------------------------------------------------------------ R7 roles of what user space writes into policy_map
    R.rule("C06.R7", "policy_map entries written by the agent: key = (protected endpoint ip, its port), value = (proxy ip, listener port)")
    from lib import roles

    def classify(kind, name):
        if kind == "const":
            n = name.rsplit("::", 1)[-1]
            if n in ("WIRE_SERVER_PORT", "IMDS_PORT", "GA_PLUGIN_PORT"):
                return "DEST_PORT"
            if n.endswith("_IP_NETWORK_BYTE_ORDER"):
                return "DEST_IP"
            if n == "PROXY_AGENT_IP":
                return "LOCAL_IP"
            if n == "PROXY_AGENT_PORT":
                return "LOCAL_PORT"
        if kind == "call":
            if name.endswith(("string_to_ip", "to_string", "Deref::deref", "as_str")):
                return "<through>"
            if name.endswith("RedirectorSharedState::get_local_port"):
                return "LOCAL_PORT"
        if kind == "field" and name.endswith("self.local_port"):
            return "LOCAL_PORT"
        return None
    Rl = roles.Roles(F, "azure_proxy_agent", classify)

    def entry_call(B, operand, depth=6):
        """the from_ipv4 call term(s) an [u32;6] operand was built by (through to_array / refs)"""
        out = []
        for o in B.origins(operand):
            if o[0] == "call" and q.ends(o[1], "to_array") and depth > 0:
                out += entry_call(B, B.blocks[o[2]]["term"]["args"][0], depth - 1)
            elif o[0] == "call" and q.ends(o[1], "from_ipv4"):
                out.append(B.blocks[o[2]]["term"])
            else:
                out.append(None)
        return out
    n7 = 0
    for fid, fn in F.fns.items():
        if fn["crate"] != "azure_proxy_agent" or "/redirector" not in fn["file"]:
            continue
        B = mir.Body(fn, F)
        maps = set()
        for bi, w, r, t in B.calls_named("aya::Ebpf::map_mut", "aya::Ebpf::map"):
            maps |= {v for v in q.const_args(B, t, 1)} | {o[2] for o in B.origins(t["args"][1]) if o[0] == "const"}
        if "policy_map" not in {str(m) for m in maps}:
            continue
        if len(maps) != 1:
            R.fail("C06.R7", R.key("C06.R7", fid, "several-maps"), "%s:%s" % (fn["file"], fn["line"]), "function opens several maps %s: roles not attributable" % sorted(map(str, maps)))
            continue
        R.touched(fid)
        for bi, w, r, t in B.calls_named("aya::maps::HashMap::insert", "aya::maps::HashMap::remove", "aya::maps::HashMap::get"):
            op = q.base_name(w).rsplit("::", 1)[-1]
            wants = [(1, ("DEST_IP", "DEST_PORT"), "key")] + ([(2, ("LOCAL_IP", "LOCAL_PORT"), "value")] if op == "insert" else [])
            for ai, (rip, rport), what in wants:
                n7 += 1
                calls = entry_call(B, t["args"][ai])
                ok = bool(calls) and all(c is not None for c in calls)
                got = []
                if ok:
                    for c in calls:
                        a, b_ = Rl.of(fid, c["args"][0]), Rl.of(fid, c["args"][1])
                        got.append((sorted(a), sorted(b_)))
                        if a != {rip} or b_ != {rport}:
                            ok = False
                R.check(ok, "C06.R7", R.key("C06.R7", fid, "%s-%s" % (op, what)), q.where(B, bi),
                        "policy_map.%s %s = from_ipv4(%s, %s) for every caller" % (op, what, rip, rport),
                        "policy_map.%s %s is built from (ip, port) roles %s; expected (%s, %s) - e.g. destination and listener port exchanged "
                        "at a call site" % (op, what, got, rip, rport))
    R.floor("C06.R7", n7, 3, "policy_map key/value operands with resolved roles (at least one insert key, insert value, remove key)")
    # the listener and the redirect target are the same port constant
    for name in ("redirector::Redirector::new", "proxy::proxy_server::ProxyServer::new"):
        sites = Rl.sites(AP + name)
        okp = bool(sites) and all(Rl.of(cid, t_["args"][0]) == {"LOCAL_PORT"} for cid, t_ in sites)
        R.check(okp, "C06.R7", "C06.R7:%s:port" % name, "-", "%s receives constants::PROXY_AGENT_PORT at every call site (%d)" % (name, len(sites)),
                "%s port roles: %s" % (name, [sorted(Rl.of(cid, t_["args"][0])) for cid, t_ in sites]))

    # ------------------------------------------------------------------ R4 byte order [T]
    if tier == "thorough":
        byte_order(F, R, E, fns, src)


def byte_order(F, R, E, fns, src):
    """two-point tag dataflow: every word of every map key/value carries the same byte-order tag on the writer and the reader side"""
    csrc = {"ctx->user_ip4": NET, "ctx->user_port": NET, "skc.skc_daddr": NET, "skc.skc_dport": NET, "skc.skc_num": HOST,
            "local_entry->destination_ipv4": NET, "local_entry->destination_port": NET, "local_port": HOST}
    # C writer side
    cw = {}
    # what each helper parameter stands for at its call sites (a key built in a lookup helper from `ipv4`, `port` arguments)
    argsof = {}
    for fname, fn in fns.items():
        for n in walk(fn):
            if n.get("kind") == "CallExpr":
                callee = strip(n["inner"][0]).get("ref")
                if callee in fns:
                    params = [c.get("name") for c in fns[callee].get("inner", []) if c.get("kind") == "ParmVarDecl"]
                    for pn, a in zip(params, n["inner"][1:]):
                        argsof.setdefault((callee, pn), set()).add(expr_str(a))
    for fname, fn in fns.items():
        for n in walk(fn):
            if n.get("kind") == "BinaryOperator" and n.get("opcode") == "=":
                lhs, rhs = expr_str(n["inner"][0]), expr_str(n["inner"][1])
                for rv in argsof.get((fname, rhs), {rhs}):
                    if rv in csrc:
                        cw.setdefault(lhs.split(".", 1)[-1].split("->")[-1], set()).add(csrc[rv])
    R.tables["C06.c_writer_tags"] = {k: sorted(v) for k, v in cw.items()}
    for fld in ("destination_port", "destination_ipv4", "source_port", "destination_ip.ipv4"):
        tags = cw.get(fld, set())
        R.check(len(tags) == 1, "C06.R4", "C06.R4:c-writer:%s" % fld, src, "C writes %s in %s order at every site" % (fld, sorted(tags)),
                "C writes %s with mixed byte order tags %s" % (fld, sorted(tags)))
    # Rust side: policy key port = port.to_be(); audit key source_port = port as u32 (host); reader swaps destination_port once
    de = F.fns.get(EO + "_destination_entry::from_ipv4")
    if de:
        B = mir.Body(de, F)
        via = set()
        for blk in B.blocks:
            for s in blk["stmts"]:
                if s["k"] == "assign" and s["rv"]["k"] == "agg" and "destination_port" in (s["rv"].get("fields") or []):
                    # struct literal spelling: _destination_entry { destination_port: port.to_be() as u32, .. }
                    op_ = s["rv"]["ops"][s["rv"]["fields"].index("destination_port")]
                    via |= {q.base_name(v).rsplit("::", 1)[-1] for v in B.via(op_)}
                    if any(o[0] == "call" and q.ends(o[1], "to_be", "swap_bytes") for o in B.origins(op_)):
                        via.add("to_be")
                if s["k"] == "assign" and s["lhs"]["p"] and "destination_port" in mir.field_names(s["lhs"]):
                    via |= {q.base_name(v).rsplit("::", 1)[-1] for v in B.via(s["rv"].get("o", {"k": "const"}))}
                    org = B.origins(s["rv"].get("o", {"k": "const"}))
                    if any(o[0] == "call" and q.ends(o[1], "to_be", "swap_bytes") for o in org):
                        via.add("to_be")
        R.check("to_be" in via, "C06.R4", "C06.R4:rust:policy-key-port", "%s:%s" % (de["file"], de["line"]),
                "policy key/value port = port.to_be() (NET), matching ctx->user_port / skc_dport (NET) on the C side", "policy port conversions: %s" % sorted(via))
    ak = F.fns.get(EO + "sock_addr_audit_key::from_source_port")
    if ak:
        B = mir.Body(ak, F)
        swaps = [c for c in B.calls if q.ends(c[2] or c[1] or "", "to_be", "swap_bytes", "from_be")]
        R.check(not swaps, "C06.R4", "C06.R4:rust:audit-key-port", "%s:%s" % (ak["file"], ak["line"]),
                "audit key source_port = port as u32 without swap (HOST), matching skc_num (HOST) on the C side")
    dp = F.fns.get(AP + "redirector::AuditEntry::destination_port_in_host_byte_order")
    if dp:
        B = mir.Body(dp, F)
        swaps = [q.base_name(c[2] or c[1]).rsplit("::", 1)[-1] for c in B.calls if q.ends(c[2] or c[1] or "", "to_be", "swap_bytes", "from_be")]
        R.check(len(swaps) == 1, "C06.R4", "C06.R4:rust:reader-port", "%s:%s" % (dp["file"], dp["line"]),
                "the reader converts the recorded destination port (NET) to host order with exactly one swap (%s)" % swaps,
                "reader port conversions: %s" % swaps)
    di = F.fns.get(AP + "redirector::AuditEntry::destination_ipv4_addr")
    if di:
        B = mir.Body(di, F)
        swaps = [q.base_name(c[2] or c[1]).rsplit("::", 1)[-1] for c in B.calls if q.ends(c[2] or c[1] or "", "to_be", "swap_bytes", "from_be", "from_bits", "Ipv4Addr::from")]
        R.check(1 <= len([s for s in swaps if s in ("to_be", "swap_bytes", "from_be")]) <= 1, "C06.R4", "C06.R4:rust:reader-ip", "%s:%s" % (di["file"], di["line"]),
                "the reader builds the Ipv4Addr from the NET-order word with exactly one swap (%s)" % swaps, "reader ip conversions: %s" % swaps)
