"""C04 Relayed requests carry a valid HMAC over exactly what the host receives (DESIGN §5 C04)."""
from lib import cg, mir, paths, q
from rules.c05 import base_local, header_mutations

PS = "azure_proxy_agent::proxy::proxy_server::ProxyServer::"
HC = "azure_proxy_agent::common::hyper_client::"
HNR = PS + "handle_new_http_request"
HRS = PS + "handle_request_with_signature"
K = "azure_proxy_agent::common::constants::"

REFERENCE_SEQ = ["method", "LF", "body", "LF", "headers", "path", "LF", "params"]


def classify_piece(B, o):
    org = B.origins(o)
    cls = set()
    for x in org:
        if x[0] == "const" and (str(x[1] or "").endswith("::LF") or x[2] == "\n"):
            cls.add("LF")
        elif x[0] == "call" and q.ends(x[1], "headers_to_canonicalized_string"):
            cls.add("headers")
        elif x[0] == "call" and q.ends(x[1], "get_path_and_canonicalized_parameters"):
            cls.add({("0",): "path", ("1",): "params"}.get(tuple(x[3][:1]), "path_para?"))
        elif x[0] == "param" and x[1] == "body":
            cls.add("body")
        elif x[0] == "param" and x[1] == "head" and x[2][:1] == ("method",):
            cls.add("method")
        elif x[0] == "call" and q.ends(x[1], "method_ref"):
            cls.add("method")
        else:
            cls.add("?%s" % (x[1] if len(x) > 1 else x[0]))
    return "|".join(sorted(cls))


def emission_sequence(B, path):
    seq = []
    for b, _ in path:
        t = B.blocks[b]["term"]
        if t["k"] != "call":
            continue
        w, r = mir.callee_of(t)
        if w is None:
            continue
        if q.ends(w, "to_vec") and B.locals[t["dest"]["l"]].get("name") == "data":
            seq.append(classify_piece(B, t["args"][0]))
        elif q.ends(w, "extend", "extend_from_slice", "push", "append", "push_str") and t["args"]:
            recv = base_local(B, t["args"][0])
            if recv is not None and B.locals[recv].get("name") == "data":
                seq.append(classify_piece(B, t["args"][1]))
    return seq


def exemption_predicate(F, R, G, rule):
    """the single predicate behind both the signature exemption (C04.R5) and the large body limit (C15.R1)"""
    # ------------------------------------------------------------------ R5 exemption list
    ss = R.anchor(HC + "should_skip_sig", rule)
    if ss:
        B = mir.Body(ss, F)
        expected = [("http::Method::PUT", "/vmagentlog"), ("http::Method::POST", "/machine/?comp=telemetrydata")]
        ps = paths.enumerate_paths(B)
        seen = set()
        for p in ps:
            atoms = paths.path_atoms(B, F, p)
            if not paths.feasible(atoms):
                continue
            res = paths.returned_variant(B, p)
            pos = [a[0] for a in atoms if a[1] is True]
            verdict = None
            # result value of the path
            lastb = None
            for b_, _ in p:
                for s in B.blocks[b_]["stmts"]:
                    if s["k"] == "assign" and s["lhs"]["l"] == 0 and s["rv"]["k"] == "use" and s["rv"]["o"]["k"] == "const":
                        verdict = bool(s["rv"]["o"].get("val"))
                t = B.blocks[b_]["term"]
                if t["k"] == "call" and t["dest"]["l"] == 0:
                    w, r = mir.callee_of(t)
                    if q.ends(w, "eq"):
                        pos = pos + ["eq(%s, %s)" % tuple(paths.describe_origin(B, x) for x in t["args"])]
                        verdict = True  # "may be true": accepted iff this final comparison holds
                    else:
                        verdict = "unknown:%s" % w
            if verdict is True:
                match = None
                for m, u in expected:
                    if any(("const:" + m) in a for a in pos) and any(("const:%r" % u) in a for a in pos):
                        match = (m, u)
                if match:
                    seen.add(match)
                R.check(match is not None, rule, R.key(rule, ss["id"], "accepting-path"), "%s:%s" % (ss["file"], ss["line"]),
                        "accepting path requires %s" % (match,), "an accepting path of should_skip_sig is not one of the two documented pairs: %s" % pos)
            elif verdict not in (False, None):
                R.fail(rule, R.key(rule, ss["id"], "unknown-result"), "-", "result of should_skip_sig not analysable: %s" % verdict)
        R.check(seen == set(expected), rule, rule + ":%s:both-pairs" % ss["id"], "-", "both documented exemptions are accepted on some path",
                "accepted pairs: %s" % sorted(seen))
        # url is lower-cased before comparison
        lowered = True
        for bi, w, r, t in B.calls_named("eq"):
            for arg in t["args"]:
                org = B.origins(arg)
                if any(x[0] == "param" and x[1] == "relative_uri" for x in org):
                    if not any(q.ends(v, "to_lowercase", "to_ascii_lowercase") for v in B.via(arg)):
                        lowered = False
        R.check(lowered, rule, rule + ":%s:case-folded" % ss["id"], "-", "the URL operand of every comparison passed through to_lowercase()")
        # single predicate behind both the limit and the skip branch
        callers = {c for c in G.callers(ss["id"])}
        R.check(callers == {"azure_proxy_agent::proxy::proxy_connection::HttpConnectionContext::should_skip_sig",
                            PS + "handle_new_tcp_connection::{closure#0}::{closure#0}::{closure#0}"} or
                all("proxy_connection::HttpConnectionContext::should_skip_sig" in c or "handle_new_tcp_connection" in c for c in callers),
                rule, rule + ":%s:callers" % ss["id"], "-",
                "should_skip_sig is the single predicate behind the body limit (service closure) and the skip branch: %s" % sorted(callers))



def send_chain_untouched(F, R, G, rule):
    """shared by C04.R1 (sign what you send) and C14.R1 (transparency)"""
    # the send chain below the signing route must hand the request on untouched: HttpConnectionContext::send_request ->
    # TcpConnectionContext::send_request -> Client::send_request -> hyper's SendRequest::send_request
    PCX = "azure_proxy_agent::proxy::proxy_connection::"
    chain = [f for f in G.reachable([PCX + "HttpConnectionContext::send_request"]) if f in F.fns and F.fns[f]["crate"] == "azure_proxy_agent"
             and "logger" not in f]
    n_chain, final = 0, []
    for fid in sorted(chain):
        Bc = mir.Body(F.fns[fid], F)
        if not any("Request<" in str(l.get("ty", "")) for l in Bc.locals):
            continue
        n_chain += 1
        R.touched(fid)
        muts = [(bi, q.base_name(w).rsplit("::", 1)[-1]) for bi, w, r, t_ in Bc.calls if w != mir.POLL and
                q.base_name(w or "").startswith("http::Request::") and q.base_name(w).endswith(("_mut", "into_parts", "into_body", "map"))]
        muts += [(bi, "HeaderMap::" + m) for bi, m, mo, t_ in header_mutations(Bc)]
        muts += [(c[0], "Request::" + q.base_name(c[1]).rsplit("::", 1)[-1]) for c in Bc.calls_named("Request::from_parts", "Request::new", "Builder::body")]
        R.check(not muts, rule, "%s:%s:send-chain-untouched" % (rule, fid), "%s:%s" % (F.fns[fid]["file"], F.fns[fid]["line"]),
                "%s hands the signed request on without touching it" % fid.replace(PCX, ""),
                "%s modifies the request after it was signed: %s" % (fid.replace(PCX, ""), [(m, q.where(Bc, b)) for b, m in muts]))
        for bi, w, r, t_ in Bc.calls_named("SendRequest::send_request", "http1::SendRequest::<B>::send_request"):
            org = Bc.origins(t_["args"][1])
            final.append(bool(org) and all(o[0] == "param" and not o[2] for o in org))
    R.check(n_chain >= 3 and final == [True], rule, "%s:send-chain:request-is-parameter" % rule, "proxy_agent/src/proxy/proxy_connection.rs",
            "the value given to hyper's SendRequest::send_request is the chain's request parameter itself (%d chain functions)" % n_chain,
            "send chain functions with a Request: %d; hyper send sites with the parameter as argument: %s" % (n_chain, final))



def run(F, R, tier):
    # body readers / `&mut Request` helpers are recognised by their own contracts (reader_is_sound, inline.with_request_helpers)
    from lib import facts as _facts
    F = R.F = _facts.raw_view(F)
    R.explanation = (
        "Provenance, sibling-agreement and table rules on the signing routes: (R1) the signing route signs the head "
        "and body it forwards (same into_parts()/collect() results) and nothing mutates the forwarded request between "
        "signing and send except insert(AUTHORIZATION_HEADER); (R2) the header value is format('{} {} {}', "
        "AUTHORIZATION_SCHEME, key id, Ok(compute_signature)); (R3) as_sig_input and request_to_sign_input emit the "
        "same piece sequence; (R4) compute_signature is hex(HMAC(hex::decode(key)).update(input).finalize()); (R5) "
        "the exemption predicate accepts exactly the two documented (method, lower-cased url) pairs; (R6) table of "
        "the agent's own host calls with their key arguments; (R7) no request item is lost from the canonical string "
        "through an overwriting keyed insert.")
    for rid, txt in (("C04.R1", "sign what you send"), ("C04.R2", "authorization header format and provenance"),
                     ("C04.R3", "the two signing routes emit the same canonical piece sequence"),
                     ("C04.R4", "the MAC is HMAC(hex::decode(key)) over the input, hex-encoded"),
                     ("C04.R5", "exemption list is exactly PUT /vmagentlog and POST /machine/?comp=telemetrydata, case-folded"),
                     ("C04.R6", "the agent's own host calls: signed vs unsigned table"),
                     ("C04.R7", "canonicalisers do not drop request items by overwriting keyed inserts")):
        R.rule(rid, txt)
    R.not_decided += ["SHA-256/HMAC arithmetic (library)",
                      "whether the host's canonicaliser trims, lower-cases and orders exactly like this one (host not in the repository)",
                      "header bytes hyper itself adds on the wire (host, framing)"]
    G = cg.get(F)

    # ------------------------------------------------------------------ R1
    hrs = R.anchor(HRS, "C04.R1")
    if hrs:
        from lib import inline
        B = mir.Body(inline.with_request_helpers(F, hrs), F)
        sig = B.calls_named("hyper_client::as_sig_input")
        fp = B.calls_named("Request::<T>::from_parts")
        snd = B.calls_named("HttpConnectionContext::send_request")
        R.floor("C04.R1", len(sig), 1, "as_sig_input call in the signing route")
        if sig and fp and snd:
            st, ft = sig[0][3], fp[0][3]

            def head_ok(o):
                org = B.origins(o)
                return org and all(x[0] == "call" and q.ends(x[1], "into_parts") and tuple(x[3][:1]) == ("0",) for x in org), org
            ok1, o1 = head_ok(st["args"][0])
            ok2, o2 = head_ok(ft["args"][0])
            same = {x[2] for x in o1} == {x[2] for x in o2}
            R.check(ok1 and ok2 and same, "C04.R1", "C04.R1:%s:same-head" % HRS, q.where(B, sig[0][0]),
                    "the head signed and the head forwarded are the same into_parts() result (.0) of the incoming request",
                    "signed head origins %s vs forwarded head origins %s" % (sorted(map(str, o1)), sorted(map(str, o2))))
            # into_parts receiver is the request parameter
            for x in o1:
                t = B.blocks[x[2]]["term"]
                ro = B.origins(t["args"][0])
                R.check(ro == {("param", "request", ())}, "C04.R1", "C04.R1:%s:head-of-incoming-request" % HRS, q.where(B, x[2]),
                        "into_parts() is taken of the request handed over by the handler (after the proxy headers were inserted)",
                        "into_parts receiver origins %s" % sorted(map(str, ro)))
            bo = B.origins(st["args"][1])
            fo = set()
            for x in B.origins(ft["args"][1]):
                if x[0] == "call" and q.ends(x[1], "Full::<D>::new", "Full::new"):
                    fo |= B.origins(B.blocks[x[2]]["term"]["args"][0])
                else:
                    fo.add(x)
            from rules.c15 import is_whole_body
            okb = bo and bo == fo and is_whole_body(B, F, bo)
            R.check(okb, "C04.R1", "C04.R1:%s:same-body" % HRS, q.where(B, fp[0][0]),
                    "the body signed and the body forwarded are the same collected Bytes",
                    "signed body origins %s vs forwarded %s" % (sorted(map(str, bo)), sorted(map(str, fo))))
            # the sent request is the from_parts result
            sent_local = base_local(B, snd[0][3]["args"][1])
            all_sent = {base_local(B, c[3]["args"][1]) for c in snd}
            R.check(all_sent == {fp[0][3]["dest"]["l"]} and len(B.defs[sent_local]) == 1 and len(fp) == 1, "C04.R1",
                    "C04.R1:%s:sent-is-rebuilt" % HRS, q.where(B, snd[0][0]),
                    "every send (%d site(s)) forwards the single from_parts(head, Full(body)) value (never reassigned, built once)" % len(snd),
                    "the signing route sends request objects %s; expected only the one from_parts(signed head, body) value" % sorted(map(str, all_sent)))
            # no other mutation of the sent request
            muts = []
            for bi, w, r, t in B.calls:
                b = q.base_name(w or "")
                if b.startswith("http::Request::") and b.endswith("_mut") and t["args"] and base_local(B, t["args"][0]) == sent_local:
                    muts.append((bi, b.rsplit("::", 1)[-1]))
            bad = [m for m in muts if m[1] != "headers_mut"]
            R.check(not bad, "C04.R1", "C04.R1:%s:no-other-mutation" % HRS, "-",
                    "between from_parts and send the request is touched only through headers_mut() (%d site(s); its consumers are "
                    "checked to be insert(AUTHORIZATION_HEADER) only by C05.R4 logic below)" % len(muts),
                    "forwarded request mutated via %s" % bad)
            for bi, m, mo, t in header_mutations(B):
                names = q.const_args(B, B.blocks[[o for o in B.origins(t["args"][1]) if o[0] == "call"][0][2]]["term"], 0) \
                    if len(t["args"]) > 1 and any(o[0] == "call" for o in B.origins(t["args"][1])) else set()
                R.check(m == "insert" and names == {K + "AUTHORIZATION_HEADER"}, "C04.R1", R.key("C04.R1", HRS, "header-mutation"),
                        q.where(B, bi), "only header mutation after signing input is fixed: insert(AUTHORIZATION_HEADER) "
                        "(the one header the canonical string skips)", "HeaderMap::%s(%s) after the signing input was fixed" % (m, sorted(names)))
            # as_sig_input precedes? it must be on every path from key-present to the insert (C05.R3) – here: sig input feeds compute_signature
            cs = B.calls_named("helpers::compute_signature")
            for bi, w, r, t in cs:
                io = B.origins(t["args"][1])
                R.check(io and all(x[0] == "call" and q.ends(x[1], "as_sig_input") for x in io), "C04.R1",
                        R.key("C04.R1", HRS, "mac-input"), q.where(B, bi), "compute_signature's input is the as_sig_input(head, body) value",
                        "MAC input origins %s" % sorted(map(str, io)))
            # R2 header value
            for bi, m, mo, t in header_mutations(B):
                if m != "insert":
                    continue
                for x in B.origins(t["args"][2]):
                    if x[0] == "call" and q.ends(x[1], "HeaderValue::from_str"):
                        fmt = q.format_of(B, B.blocks[x[2]]["term"]["args"][0])
                        check_auth_format(B, R, fmt, HRS, q.where(B, bi),
                                          lambda o: o[0] == "call" and "KeyKeeperSharedState::get_current_key" in q.base_name(o[1]),
                                          "C04.R2")

            # "while a key is latched": the key is read after the (client-paced) body has been read, so that between the snapshot and the
            # send only the agent's own steps remain
            from rules.c15 import body_sources
            reads = [c[0] for c in B.calls if c[1] != mir.POLL and "KeyKeeperSharedState::get_current_key" in q.base_name(c[2] or c[1] or "")]
            bs = [b for b, c in body_sources(B, F)]
            okk = bool(reads) and bool(bs) and B.path([0], reads, cut_blocks=bs) is None
            R.check(okk, "C04.R2", "C04.R2:%s:key-read-after-body" % HRS, q.where(B, reads[0]) if reads else "-",
                    "the latched key is read after the request body was collected (no client-paced wait between the key snapshot and the send)",
                    "the key snapshot is taken before the request body has been read: a slow upload keeps signing with a key that may have been "
                    "rotated or first latched meanwhile")

    send_chain_untouched(F, R, G, "C04.R1")

    # HNR: claims/date inserts dominate the HRS call (signed request already carries the proxy headers)
    hnr = R.anchor(HNR, "C04.R1")
    if hnr:
        from lib import inline
        B = mir.Body(inline.with_request_helpers(F, hnr), F)
        ins = [m[0] for m in header_mutations(B) if m[1] == "insert"]
        hc = [c[0] for c in B.calls_named("ProxyServer::handle_request_with_signature")]
        okd = True
        for ib in ins:
            if B.path([0], hc, cut_blocks=[ib]) is not None:
                okd = False
        R.check(okd and len(ins) >= 2 and hc, "C04.R1", "C04.R1:%s:proxy-headers-before-signing" % HNR, "-",
                "both proxy-owned header inserts dominate the call of the signing route (they are part of what is signed)")

    # ------------------------------------------------------------------ R2 build_request
    br = R.anchor(HC + "build_request", "C04.R2")
    if br:
        B = mir.Body(br, F)
        found = 0
        for bi, w, r, t in B.calls_named("Builder::header"):
            names = q.const_args(B, t, 1)
            if K + "AUTHORIZATION_HEADER" not in names:
                continue
            found += 1
            fmt = q.format_of(B, t["args"][2])
            check_auth_format(B, R, fmt, HC + "build_request", q.where(B, bi),
                              lambda o: o[0] == "param" and o[1] == "key_guid", "C04.R2")
        R.floor("C04.R2", found, 1, "authorization header construction in build_request")
        # sign input comes from request_to_sign_input(builder so far, body)
        for bi, w, r, t in B.calls_named("helpers::compute_signature"):
            io = B.origins(t["args"][1])
            R.check(io and all(x[0] == "call" and q.ends(x[1], "request_to_sign_input") for x in io), "C04.R2",
                    R.key("C04.R2", HC + "build_request", "mac-input"), q.where(B, bi),
                    "build_request signs request_to_sign_input(builder, body)")
            ko = B.origins(t["args"][0])
            R.check(ko and all(x[0] == "param" and x[1] == "key" for x in ko), "C04.R2",
                    R.key("C04.R2", HC + "build_request", "mac-key"), q.where(B, bi), "the MAC key is build_request's `key` parameter")
        # no header is added after signing other than the authorization header
        rts = [c[0] for c in B.calls_named("request_to_sign_input")]
        if rts:
            after = B.reach([rts[0]])
            late = []
            for bi, w, r, t in B.calls_named("Builder::header", "Builder::method", "Builder::uri"):
                if bi in after and bi != rts[0]:
                    names = q.const_args(B, t, 1) if len(t["args"]) > 1 else set()
                    if names != {K + "AUTHORIZATION_HEADER"}:
                        late.append((bi, names))
            R.check(not late, "C04.R2", "C04.R2:%s:nothing-added-after-signing" % (HC + "build_request"), "-",
                    "after request_to_sign_input only the authorization header is added to the builder",
                    "builder modified after signing: %s" % late)

    # ------------------------------------------------------------------ R3 sibling agreement
    a = R.anchor(HC + "as_sig_input", "C04.R3")
    b = R.anchor(HC + "request_to_sign_input", "C04.R3")
    if a and b:
        BA, BB = mir.Body(a, F), mir.Body(b, F)
        pa = paths.enumerate_paths(BA, allow_loops=True)
        seqs_a = {tuple(emission_sequence(BA, p)) for p in pa}
        R.check(seqs_a == {tuple(REFERENCE_SEQ)}, "C04.R3", "C04.R3:%s:sequence" % a["id"], "%s:%s" % (a["file"], a["line"]),
                "as_sig_input emits %s" % REFERENCE_SEQ, "as_sig_input emits %s" % sorted(seqs_a))
        allowed = set()
        for drop_body in (False, True):
            for hdr_lf in (False, True):
                s = list(REFERENCE_SEQ)
                if hdr_lf:
                    s[4] = "LF"
                if drop_body:
                    del s[2]
                allowed.add(tuple(s))
        pb = paths.enumerate_paths(BB, allow_loops=True)
        n_ok = 0
        full_seen = False
        for p in pb:
            res = paths.returned_variant(BB, p)
            if res != "Ok":
                continue
            s = tuple(emission_sequence(BB, p))
            n_ok += 1
            full_seen |= s == tuple(REFERENCE_SEQ)
            R.check(s in allowed, "C04.R3", R.key("C04.R3", b["id"], "ok-path"), "%s:%s" % (b["file"], b["line"]),
                    "request_to_sign_input Ok-path emits %s (reference modulo absent body / absent header map)" % list(s),
                    "request_to_sign_input Ok-path emits %s, reference is %s" % (list(s), REFERENCE_SEQ))
        R.check(full_seen, "C04.R3", "C04.R3:%s:full-sequence" % b["id"], "-", "the all-present path emits exactly the reference sequence")
        # both call the same two helpers
        for helper in ("headers_to_canonicalized_string", "get_path_and_canonicalized_parameters"):
            R.check(BA.calls_named(helper) and BB.calls_named(helper), "C04.R3", "C04.R3:shared-helper:%s" % helper, "-",
                    "both routes canonicalise through %s" % helper)

    # ------------------------------------------------------------------ R4 the MAC
    cs = R.anchor("azure_proxy_agent::common::helpers::compute_signature", "C04.R4")
    if cs:
        B = mir.Body(cs, F)
        ok_assign = []
        for bi, blk in enumerate(B.blocks):
            for s in blk["stmts"]:
                if s["k"] == "assign" and s["lhs"]["l"] == 0 and s["rv"]["k"] == "agg" and s["rv"].get("variant") == "Ok":
                    ok_assign.append((bi, s))
        good = len(ok_assign) == 1
        detail = "compute_signature: "
        if good:
            bi, s = ok_assign[0]
            o = B.origins(s["rv"]["ops"][0])
            enc = [x for x in o if x[0] == "call" and q.ends(x[1], "hex::encode")]
            good &= len(enc) == 1 and len(o) == 1
            if good:
                fo = B.origins(B.blocks[enc[0][2]]["term"]["args"][0])
                fin = [x for x in fo if x[0] == "call" and q.ends(x[1], "HMAC::finalize")]
                good &= len(fin) == 1 and len(fo) == 1
                if good:
                    mo = B.origins(B.blocks[fin[0][2]]["term"]["args"][0])
                    new = [x for x in mo if x[0] == "call" and q.ends(x[1], "HMAC::new")]
                    good &= len(new) == 1 and len(mo) == 1
                    if good:
                        ko = B.origins(B.blocks[new[0][2]]["term"]["args"][0])
                        dec = [x for x in ko if x[0] == "call" and q.ends(x[1], "hex::decode")]
                        good &= len(dec) == 1 and len(ko) == 1
                        if good:
                            do = B.origins(B.blocks[dec[0][2]]["term"]["args"][0])
                            good &= do == {("param", "hex_encoded_key", ())}
                        up = B.calls_named("HMAC::update")
                        good &= len(up) == 1
                        if good:
                            uo = B.origins(up[0][3]["args"][1])
                            good &= uo == {("param", "input_to_sign", ())}
                            recv = base_local(B, up[0][3]["args"][0])
                            good &= recv == B.blocks[new[0][2]]["term"]["dest"]["l"]
                            p = B.path([new[0][2]], [fin[0][2]], cut_blocks=[up[0][0]])
                            good &= p is None
        R.check(good, "C04.R4", "C04.R4:%s:hmac-chain" % cs["id"], "%s:%s" % (cs["file"], cs["line"]),
                "the only Ok value is hex::encode(HMAC::new(hex::decode(hex_encoded_key)).update(input_to_sign).finalize())",
                "the Ok value of compute_signature is not the expected HMAC chain")

    exemption_predicate(F, R, G, "C04.R5")

    # ------------------------------------------------------------------ R6 own host calls
    table = {
        "get_goalstate": "signed", "get_shared_config": "signed", "get_imds_instance_info": "signed", "attest_key": "signed",
        "get_status": "unsigned: asks the host for the key status before any key exists",
        "acquire_key": "unsigned: requests the key itself",
        "send_telemetry_data": "unsigned: telemetry upload is one of the two signature-exempt endpoints",
        "get_current_provision_status": "unsigned: loopback query to the agent's own listener (127.0.0.1), never a host call",
    }
    n_sites = 0
    for fid, fn in F.fns.items():
        if fn["crate"] != "azure_proxy_agent":
            continue
        Bf = None
        for callee, (gi, ki) in (("hyper_client::build_request", (4, 5)), ("hyper_client::get", (2, 3))):
            if not any(callee.split("::")[-1] in str(b["term"].get("f", {}).get("fn", "")) for b in fn["blocks"] if b["term"]["k"] == "call"):
                continue
            Bf = Bf or mir.Body(fn, F)
            for bi, w, r, t in Bf.calls_named(callee):
                if fid.startswith(HC):
                    continue
                n_sites += 1
                kinds = []
                for i in (gi, ki):
                    v = q.operand_variant(Bf, t["args"][i])
                    kinds.append("None" if (v and v[1] == "None") else "Some/var")
                signed = kinds == ["Some/var", "Some/var"]
                owner = fid.split("::{closure")[0].rsplit("::", 1)[-1]
                exp = table.get(owner)
                ok = exp is not None and (exp == "signed") == signed and kinds[0] == kinds[1]
                R.check(ok, "C04.R6", R.key("C04.R6", fid, callee.split("::")[-1]), q.where(Bf, bi),
                        "%s: key args %s – table: %s" % (owner, kinds, exp),
                        "host call in %s passes key args %s; table says %s (a new unsigned host call must be reviewed)" % (owner, kinds, exp))
                if signed and owner != "attest_key":
                    # "under the latched key": id and secret are read from the key keeper for this very request, not remembered
                    fresh = True
                    seen_o = []
                    for i in (gi, ki):
                        org = Bf.origins(t["args"][i])
                        seen_o.append(sorted(map(str, org)))
                        if not org or not all(o[0] == "call" and "KeyKeeperSharedState::get_current_key" in q.base_name(o[1]) for o in org):
                            fresh = False
                    R.check(fresh, "C04.R6", R.key("C04.R6", fid, "latched-key-read-per-request"), q.where(Bf, bi),
                            "%s signs with the key read from the key keeper in this call (no remembered key)" % owner,
                            "%s signs with a key that is not (only) the key keeper's current key read for this request: %s" % (owner, seen_o))
                elif signed:
                    # attestation signs with the key being attested (the parameter), by construction not yet the latched one
                    okp = True
                    for i in (gi, ki):
                        org = Bf.origins(t["args"][i], deep=True)
                        if not org or not all(o[0] == "param" and o[1] == "key" for o in org if o[0] != "agg"):
                            okp = False
                    R.check(okp, "C04.R6", R.key("C04.R6", fid, "attest-signs-with-attested-key"), q.where(Bf, bi),
                            "attest_key signs with the id and value of the key it attests (its `key` parameter)")
    R.floor("C04.R6", n_sites, 7, "build_request/get call sites outside hyper_client")

    canonical_form_table(F, R)
    query_pairs_contract(F, R)

    # ------------------------------------------------------------------ R7 overwriting keyed inserts
    for name in ("headers_to_canonicalized_string", "get_path_and_canonicalized_parameters"):
        fn = R.anchor(HC + name, "C04.R7")
        if not fn:
            continue
        B = mir.Body(fn, F)
        for bi, w, r, t in B.calls_named("Vec::dedup", "Vec::dedup_by", "Vec::dedup_by_key", "HashSet::insert", "BTreeSet::insert",
                                         "Vec::truncate", "Vec::pop", "Vec::remove", "Vec::swap_remove", "Vec::retain", "Vec::drain",
                                         "Iterator::take", "Iterator::skip", "Iterator::filter", "Iterator::step_by", "Itertools::unique",
                                         "Itertools::dedup", "HashMap::remove", "HashMap::retain"):
            R.fail("C04.R7", R.key("C04.R7", fn["id"], "item-dropping-call"), q.where(B, bi),
                   "canonicaliser calls %s, which can drop request items from the signed string" % q.base_name(w))
        for bi, w, r, t in B.calls_named("HashMap::insert", "BTreeMap::insert"):
            uses = [u for u in B.uses_of(t["dest"]["l"])]
            key = "C04.R7:%s:overwriting-insert:%d" % (fn["id"], len([i for i in R.instances if i["key"].startswith("C04.R7:%s:" % fn["id"])]))
            R.check(bool(uses), "C04.R7", key, q.where(B, bi),
                    "keyed insert whose displaced value is inspected",
                    "request items are accumulated with an overwriting HashMap::insert (displaced value discarded): repeated %s "
                    "collapse to one in the signed string while the host receives all of them"
                    % ("header names" if "headers" in name else "query pairs with equal key+value concatenation"))


def query_pairs_contract(F, R):
    """helper contract (C04.R7): query_pairs() keeps every `name[=value]` item of the query; the only item it may skip is one with an
    empty name. Both canonicalisation (C04) and rule matching (C02) read the request's query through it."""
    fn = R.anchor(HC + "query_pairs", "C04.R7")
    if not fn:
        return
    B = mir.Body(fn, F)
    pushes = [c[0] for c in B.calls_named("Vec::push")]
    nexts = [c for c in B.calls_named("Iterator::next") if "Split<" in str(B.locals[c[3]["args"][0]["p"]["l"]]["ty"]) and
             "SplitN" not in str(B.locals[c[3]["args"][0]["p"]["l"]]["ty"])]
    seps = set()
    for bi, w, r, t in B.calls_named("str::split", "split", "str::splitn", "splitn"):
        for a in t["args"][1:]:
            if a["k"] == "const":
                seps.add((q.base_name(w).rsplit("::", 1)[-1], a.get("val")))
    ok_sep = seps == {("split", ord("&")), ("splitn", 2), ("splitn", ord("="))}
    ok_iter = False
    detail = "pushes %d, outer next() %d" % (len(pushes), len(nexts))
    if len(pushes) == 1 and len(nexts) == 1:
        nb = nexts[0][0]
        dl = nexts[0][3]["dest"]["l"]
        some_edges = set()
        for sb in B.switch_blocks():
            e = B.cond(sb)
            if e[0] == "discr" and e[1]["l"] == dl and not e[1]["p"]:
                some_edges |= {(sb, tg) for tg, lab in B.succ(sb) if lab == mir.STD_VARIANTS["Some"]}
        empties = [(tr, fa) for sb, tr, fa, cb, args in q.bool_call_edges(B, ["is_empty"])]
        hdr = q.outer_loop_header(B, pushes[0])
        if some_edges and len(empties) == 1 and hdr is not None:
            starts = [e[1] for e in some_edges]
            p = B.path(starts, [hdr], cut_blocks=pushes, cut_edges=[empties[0][0]])
            ok_iter = p is None
            detail = "an iteration can skip the push without the empty-name test" if p else "ok"
    R.check(ok_sep and ok_iter, "C04.R7", "C04.R7:%s:contract" % fn["id"], "%s:%s" % (fn["file"], fn["line"]),
            "query_pairs: items split at '&', name/value at the first '=', every item with a non-empty name is pushed",
            "query_pairs changed: separators %s; %s" % (sorted(map(str, seps)), detail))
    for bi, w, r, t in B.calls_named("Vec::dedup", "Vec::dedup_by", "Vec::dedup_by_key", "Vec::truncate", "Vec::pop", "Vec::remove", "Vec::swap_remove",
                                     "Vec::retain", "Vec::drain", "Iterator::take", "Iterator::skip", "Iterator::filter", "Iterator::step_by",
                                     "Itertools::unique", "Itertools::dedup", "HashMap::insert", "BTreeMap::insert"):
        R.fail("C04.R7", R.key("C04.R7", fn["id"], "item-dropping-call"), q.where(B, bi),
               "query_pairs calls %s, which can drop query items" % q.base_name(w))


def canonical_form_table(F, R):
    """C04.R8: the canonical string's construction (sort key, pair/line templates, case folding, skip of the authorization header) is a
    protocol with the host, reviewed once and frozen; any change of these semantic elements needs the host side to change with it"""
    R.rule("C04.R8", "canonical form table: sort key, templates, case folding and skipped header are the reviewed ones")
    gp = F.fns.get(HC + "get_path_and_canonicalized_parameters")
    if gp:
        # the function and its closures: the construction may be spelled as loops or as an iterator chain
        from rules.c02 import descendants
        family = [gp] + descendants(F, gp["id"])
        # ... and new functions it hands to an iterator as a function item (`.map(CanonicalParameter::render)`)
        newf = set((getattr(F, "new_helpers", None) or {}).get("new", []))
        for f in list(family):
            Bx = mir.Body(f, F)
            for bi, w, r, t in Bx.calls:
                for a in t["args"]:
                    for o in Bx.origins(a):
                        if o[0] == "fnitem" and o[1] in F.fns and o[1] in newf and F.fns[o[1]] not in family:
                            family.append(F.fns[o[1]])
                            family += descendants(F, o[1])
        tmpls, sorts, n_lower, amp = [], [], 0, []
        for f in family:
            B = mir.Body(f, F)
            R.touched(f["id"])
            lowers_here = len(B.calls_named("str::to_lowercase", "to_lowercase"))
            n_lower += lowers_here
            for bi, w, r, t in B.calls_named("fmt::format"):
                fmt = q.format_of(B, {"k": "copy", "p": {"l": t["dest"]["l"], "p": []}})
                if fmt:
                    lowered = [any(q.ends(v, "to_lowercase", "to_ascii_lowercase") for v in B.via(a["operand"])) for a in fmt["args"]]
                    # where the name is folded in an earlier stage of a chain the template's own body has no folding call to relate to
                    tmpls.append((q.template_text(fmt), tuple(lowered), B.line(bi), lowers_here > 0))
            sorts += B.calls_named("slice::sort", "sort", "Itertools::sorted", "sorted", "sort_unstable")
            amp += [c for c in B.calls_named("String::push") if c[3]["args"][1]["k"] == "const" and c[3]["args"][1].get("val") == ord("&")]
            amp += [c for c in B.calls_named("Itertools::join", "slice::join", "join")
                    if len(c[3]["args"]) == 2 and any(o[0] == "const" and o[2] == "&" for o in B.origins(c[3]["args"][1]))]
        texts = sorted(x[0] for x in tmpls)
        sortkey = [x for x in tmpls if x[0] == "{}{}"]
        pair = [x for x in tmpls if x[0] == "{}={}"]
        ok = len(sortkey) == 1 and (sortkey[0][1][0] is True or not sortkey[0][3]) and len(pair) == 1 and len(sorts) >= 1 and n_lower >= 1
        R.check(ok, "C04.R8", "C04.R8:%s:query-canonical-form" % gp["id"], "%s:%s" % (gp["file"], gp["line"]),
                "query parameters: sort key = lower(name)+value (\"{}{}\"), emitted as lower(name)=value joined by '&', sorted ascending",
                "the canonical form of query parameters changed (format templates now %s, %d sort call(s)): the host recomputes the MAC with the "
                "reviewed form (sort by the concatenation lower(name)+value), so signatures stop verifying for some queries" % (texts, len(sorts)))
        R.check(len(amp) == 1, "C04.R8", "C04.R8:%s:separator" % gp["id"], "-", "pairs are joined with '&'")
    hc = F.fns.get(HC + "headers_to_canonicalized_string")
    if hc:
        B = mir.Body(hc, F)
        tm = []
        for bi, w, r, t in B.calls_named("fmt::format"):
            fmt = q.format_of(B, {"k": "copy", "p": {"l": t["dest"]["l"], "p": []}})
            if fmt:
                trimmed = [any(q.ends(v, "trim") for v in B.via(a["operand"])) or any(o[0] == "call" and q.ends(o[1], "trim") for o in a["origins"]) for a in fmt["args"]]
                tm.append((q.template_text(fmt), tuple(trimmed)))
        line = [x for x in tm if x[0] == "{}:{}{}"]
        lower = bool(B.calls_named("str::to_lowercase", "to_lowercase"))
        srt = bool(B.calls_named("Itertools::sorted", "sorted", "sort"))
        skip = [c for c in B.calls_named("eq_ignore_ascii_case") if K + "AUTHORIZATION_HEADER" in q.const_args(B, c[3], 1)]
        R.check(len(line) == 1 and line[0][1][1] is True and lower and srt and len(skip) == 1, "C04.R8", "C04.R8:%s:header-canonical-form" % hc["id"],
                "%s:%s" % (hc["file"], hc["line"]),
                "headers: lower-cased names, sorted, one line \"name:trim(value)LF\" each, authorization header skipped",
                "the canonical form of headers changed: templates %s lower=%s sorted=%s skip=%d" % (tm, lower, srt, len(skip)))


def check_auth_format(B, R, fmt, fid, where, guid_pred, rule):
    key = R.key(rule, fid, "authorization-format")
    if not fmt or len(fmt["args"]) != 3:
        R.fail(rule, key, where, "authorization value is not a 3-argument format string")
        return
    a0, a1, a2 = fmt["args"]
    c0 = set()
    for o in a0["origins"]:
        if o[0] == "promoted":
            c0 |= {c[0] for c in q.promoted_consts(B.fn, o[1])}
        elif o[0] == "const":
            c0.add(o[1])
    ok0 = c0 == {K + "AUTHORIZATION_SCHEME"}
    ok1 = a1["origins"] and all(guid_pred(o) for o in a1["origins"])
    ok2 = a2["origins"] and all(o[0] == "call" and q.ends(o[1], "compute_signature") for o in a2["origins"])
    tmpl = q.template_text(fmt)
    okt = tmpl == "{} {} {}"
    R.check(ok0 and ok1 and ok2 and okt, rule, key, where,
            "authorization value = format(%r; AUTHORIZATION_SCHEME, key id, Ok(compute_signature))" % tmpl,
            "authorization header format %r args: %s / %s / %s" % (tmpl, sorted(map(str, c0)), sorted(map(str, a1["origins"])),
                                                                     sorted(map(str, a2["origins"]))))
