"""C18 Telemetry: delivered at most once, well-formed, bounded batches – decided clauses (DESIGN §5 C18)."""
from lib import cg, mir, q

AP = "azure_proxy_agent::"
TE = AP + "telemetry::telemetry_event::"
ER = AP + "telemetry::event_reader::EventReader::"
XE = AP + "common::helpers::xml_escape"


def for_loops(B):
    out = []
    for sb in B.switch_blocks():
        t = B.blocks[sb]["term"]
        e = B.cond(sb)
        if t.get("exp") and "ForLoop" in t["exp"] and e[0] == "discr":
            out.append((sb, (sb, B.switch_target(sb, 1)), (sb, B.switch_target(sb, 0))))
    return out


def run(F, R, tier):
    R.explanation = (
        "Decided clauses (XML well-formedness for every Unicode text, termination and host-side duplicates are NOT decided): (R1) sanitiser "
        "coverage - every string-typed format argument of to_xml_event is the direct result of helpers::xml_escape, integer arguments are "
        "exempt; (R2) xml_escape replaces & ' \" < > with '&' first (so ']]>' cannot appear in the CDATA section and entities are not "
        "re-escaped); (R3) bounded batch - after each add_event the size test against MAX_MESSAGE_SIZE (64 KiB) lies on every path to the "
        "upload, its true edge removes the last event, the put-back is control-dependent on a non-empty batch, the drop on an empty one; "
        "(R4) consume once, always clean - every loop iteration over event files reaches clean_files on all paths, events are taken by pop; "
        "(R5) single uploader with a constant retry bound.")
    for rid, txt in (("C18.R1", "escape coverage of every string parameter"), ("C18.R2", "the escaper covers & ' \" < > with & first"),
                     ("C18.R3", "bounded batch with put-back / drop"), ("C18.R4", "consume once, always clean"), ("C18.R5", "single uploader, bounded retries")):
        R.rule(rid, txt)
    R.not_decided += ["XML well-formedness for every Unicode text", "termination (progress: each outer iteration removes >= 1 event - argued from R3's shape, not proved)",
                      "duplicates caused by a host that received a batch and failed to answer"]
    G = cg.get(F)

    # ------------------------------------------------------------------ R1
    tx = R.anchor(TE + "TelemetryEvent::to_xml_event", "C18.R1")
    if tx:
        B = mir.Body(tx, F)
        esc, num, bad = 0, 0, []
        for bi, w, r, t in B.calls_named("fmt::format"):
            fmt = q.format_of(B, {"k": "copy", "p": {"l": t["dest"]["l"], "p": []}})
            if not fmt:
                continue
            for a in fmt["args"]:
                ty = (a["ty"] or "").lstrip("&")
                if ty in ("u8", "u16", "u32", "u64", "u128", "usize", "i8", "i16", "i32", "i64", "i128", "isize", "bool"):
                    num += 1
                    continue
                ok = a["origins"] and all(o[0] == "call" and q.ends(o[1], "helpers::xml_escape") for o in a["origins"])
                # a literal of the program that contains no markup character needs no escaping (attribute names of a param helper)
                lit = a["origins"] and all(o[0] == "const" and isinstance(o[2], str) and not (set(o[2]) & set("&<>\"'")) for o in a["origins"])
                if ok:
                    esc += 1
                elif lit:
                    num += 1
                else:
                    bad.append((B.line(bi), ty, sorted(map(str, a["origins"]))))
        R.check(not bad, "C18.R1", "C18.R1:%s:all-strings-escaped" % tx["id"], "%s:%s" % (tx["file"], tx["line"]),
                "every string-typed format argument of to_xml_event is xml_escape(..) (%d escaped, %d numeric)" % (esc, num),
                "string parameter(s) formatted without xml_escape: %s" % bad)
        R.floor("C18.R1", esc, 18, "escaped string parameters")
        R.floor("C18.R1", num, 5, "numeric parameters")
        # xml_escape receives this event's own fields
        for bi, w, r, t in B.calls_named("helpers::xml_escape"):
            org = B.origins(t["args"][0])
            if not (org and all(o[0] == "param" and o[1] == "self" for o in org)):
                R.fail("C18.R1", R.key("C18.R1", tx["id"], "escape-arg"), q.where(B, bi), "xml_escape argument is not a field of the event: %s" % sorted(map(str, org)))
        # literal pushes: only push_str of constants or formatted strings
        callers = G.callers(tx["id"])
        R.check(callers == {TE + "TelemetryData::to_xml"}, "C18.R1", "C18.R1:callers:to_xml_event", "-", "to_xml_event is used only by TelemetryData::to_xml")

    # ------------------------------------------------------------------ R2
    xe = R.anchor(XE, "C18.R2")
    if xe:
        B = mir.Body(xe, F)
        seq = []
        cur = 0
        seen = set()
        while cur is not None and cur not in seen:
            seen.add(cur)
            t = B.blocks[cur]["term"]
            if t["k"] == "call":
                w, r = mir.callee_of(t)
                if q.ends(w, "str::replace", "replace"):
                    pat, rep = t["args"][1], t["args"][2]
                    def cval(o):
                        if o["k"] == "const":
                            return o.get("val")
                        vs = [x[2] for x in B.origins(o) if x[0] == "const"]
                        return vs[0] if len(vs) == 1 else None
                    pv, rv = cval(pat), cval(rep)
                    seq.append((chr(pv) if isinstance(pv, int) else pv, rv))
            nxt = [tg for tg, _ in B.succ(cur)]
            cur = nxt[0] if len(nxt) == 1 else None
        chars = [s[0] for s in seq]
        need = {"&", "<", ">", '"', "'"}
        ok = need <= set(chars) and chars and chars[0] == "&" and all(isinstance(s[1], str) and s[1].startswith("&") and s[1].endswith(";") for s in seq)
        R.check(ok, "C18.R2", "C18.R2:%s:sequence" % xe["id"], "%s:%s" % (xe["file"], xe["line"]),
                "xml_escape replaces %s in this order ('&' first), each by an entity" % chars, "xml_escape replace sequence: %s" % seq)
        # the result is the last replace
        R.check(len(seq) >= 5, "C18.R2", "C18.R2:%s:count" % xe["id"], "-", "%d replacements" % len(seq))

    # ------------------------------------------------------------------ R3
    mx = F.consts.get(ER + "MAX_MESSAGE_SIZE")
    R.check(mx and mx["val"] == 64 * 1024, "C18.R3", "C18.R3:const:MAX_MESSAGE_SIZE", "proxy_agent/src/telemetry/event_reader.rs",
            "MAX_MESSAGE_SIZE == 65536", "MAX_MESSAGE_SIZE = %r" % (mx and mx["val"]))
    se = R.anchor(ER + "send_events", "C18.R3")
    if se:
        B = mir.Body(se, F)
        add = [c[0] for c in B.calls_named("TelemetryData::add_event")]
        send = [c[0] for c in B.calls_named("EventReader::send_data_to_wire_server")]
        rem = [c[0] for c in B.calls_named("TelemetryData::remove_last_event")]
        push = [c[0] for c in B.calls_named("Vec::push")]
        pop = [c[0] for c in B.calls_named("Vec::pop")]
        size_tests = []
        for sb in B.switch_blocks():
            e, tr, fa = B.truth_edges(sb)
            if e[0] == "bin" and e[1] in ("Ge", "Gt", "Lt", "Le"):
                a = {q.base_name(o[1]).rsplit("::", 1)[-1] if o[0] == "call" else (o[1] or "").rsplit("::", 1)[-1] if o[0] == "const" else o[0] for o in B.origins(e[2])}
                b = {q.base_name(o[1]).rsplit("::", 1)[-1] if o[0] == "call" else (o[1] or "").rsplit("::", 1)[-1] if o[0] == "const" else o[0] for o in B.origins(e[3])}
                # the overflow edge is the one on which get_size() >= MAX_MESSAGE_SIZE, however the comparison is spelled
                if "get_size" in a and "MAX_MESSAGE_SIZE" in b and e[1] == "Ge":
                    size_tests.append((sb, tr, fa))
                elif "get_size" in a and "MAX_MESSAGE_SIZE" in b and e[1] == "Lt":
                    size_tests.append((sb, fa, tr))
                elif "get_size" in b and "MAX_MESSAGE_SIZE" in a and e[1] == "Le":
                    size_tests.append((sb, tr, fa))
                elif "get_size" in b and "MAX_MESSAGE_SIZE" in a and e[1] == "Gt":
                    size_tests.append((sb, fa, tr))
        ok = len(add) == 1 and len(send) == 1 and len(size_tests) == 1 and len(rem) == 1
        if ok:
            sb, tr, fa = size_tests[0]
            # every path from add_event to the upload passes the size test
            ok1 = B.path([tg for tg, _ in B.succ(add[0])], send, cut_blocks=[sb]) is None
            # remove_last_event exactly on the overflow edge
            ok2 = rem[0] in B.reach([tr[1]]) and B.path([0], rem, cut_edges=[tr]) is None
            R.check(ok1 and ok2, "C18.R3", "C18.R3:%s:size-test-after-add" % se["id"], q.where(B, sb),
                    "after add_event the test get_size() >= MAX_MESSAGE_SIZE is on every path to the upload; its true edge removes the last event")
            # put-back vs drop on event_count()
            cnt = []
            for sb2 in B.switch_blocks():
                e2, tr2, fa2 = B.truth_edges(sb2)
                if e2[0] == "bin" and e2[1] in ("Eq", "Ne", "Gt"):
                    a = {q.base_name(o[1]).rsplit("::", 1)[-1] for o in B.origins(e2[2]) if o[0] == "call"}
                    zero = e2[3]["k"] == "const" and e2[3].get("val") == 0
                    if "event_count" in a and zero:
                        # == 0 / != 0 / > 0
                        empty_edge, nonempty_edge = (tr2, fa2) if e2[1] == "Eq" else (fa2, tr2)
                        cnt.append((sb2, empty_edge, nonempty_edge))
            okc = len(cnt) == 1 and len(push) == 1
            if okc:
                sb2, empty_edge, nonempty_edge = cnt[0]
                okc = B.path([0], push, cut_edges=[nonempty_edge]) is None and push[0] not in B.reach([empty_edge[1]], cut_blocks=[sb2, sb])
                # the pushed value is the popped event
                po = B.origins(B.blocks[push[0]]["term"]["args"][1])
                okc = okc and po and all(o[0] == "call" and q.ends(o[1], "Vec::pop") for o in po)
            # the emptiness test looks at the batch WITHOUT the overflowing event: remove_last_event() lies on every path from the
            # overflow edge to the event_count() call (otherwise an event that overflows alone is put back for ever)
            cntc = [c[0] for c in B.calls_named("TelemetryData::event_count") if c[0] in B.reach([tr[1]])]
            oko = bool(cntc) and B.path([tr[1]], cntc, cut_blocks=rem) is None
            R.check(oko, "C18.R3", "C18.R3:%s:remove-before-emptiness-test" % se["id"], q.where(B, rem[0]),
                    "on the overflow edge remove_last_event() precedes the event_count() == 0 test",
                    "the batch is tested for emptiness while it still holds the overflowing event: an event too large for any batch is never "
                    "dropped, it is put back and retried for ever")
            R.check(okc, "C18.R3", "C18.R3:%s:put-back-or-drop" % se["id"], "-",
                    "the overflowing event is pushed back only when the batch is non-empty (event_count() != 0) and dropped when it alone overflows")
        else:
            R.fail("C18.R3", "C18.R3:%s:shape" % se["id"], "-", "send_events shape changed: add_event=%d send=%d size tests=%d remove_last=%d" % (
                len(add), len(send), len(size_tests), len(rem)))
        R.check(len(pop) == 1, "C18.R4", "C18.R4:%s:taken-by-pop" % se["id"], "-", "events are taken from the vector by pop() (moved, one place)")

    # ------------------------------------------------------------------ R4
    pe = R.anchor(ER + "process_events_and_clean", "C18.R4")
    if pe:
        B = mir.Body(pe, F)
        fl = for_loops(B)
        cl = [c[0] for c in B.calls_named("EventReader::clean_files")]
        rd = B.calls_named("misc_helpers::json_read_from_file")
        ok = len(fl) == 1 and len(cl) == 1 and len(rd) == 1
        if ok:
            sb, some_edge, none_edge = fl[0]
            # from the element edge, every path back to the loop test passes clean_files
            # ... nor can the iteration leave the loop / the function around it (a `break` that keeps the file re-uploads what the host
            # already accepted from it)
            p = B.path([some_edge[1]], [sb] + B.return_blocks(), cut_blocks=cl)
            ok = p is None
            # the file cleaned is the file read
            ro = B.origins(rd[0][3]["args"][0])
            co = B.origins(B.blocks[cl[0]]["term"]["args"][0])
            same = ro and co and {o[:3] if o[0] != "call" else (o[0], q.base_name(o[1])) for o in ro} == {o[:3] if o[0] != "call" else (o[0], q.base_name(o[1])) for o in co}
            R.check(ok and same, "C18.R4", "C18.R4:%s:always-clean" % pe["id"], q.where(B, cl[0]),
                    "every iteration over the event files reaches clean_files(file) on all paths (read error included), for the file that was read",
                    witness={"path_lines": B.path_lines(p)} if p else None)
        else:
            R.fail("C18.R4", "C18.R4:%s:shape" % pe["id"], "-", "process_events_and_clean shape changed: loops=%d clean=%d read=%d" % (len(fl), len(cl), len(rd)))

    # ------------------------------------------------------------------ R5
    if tier == "thorough":
        st = AP + "host_clients::wire_server_client::WireServerClient::send_telemetry_data"
        cs = G.callers(st)
        R.check(cs == {ER + "send_data_to_wire_server::{closure#0}"}, "C18.R5", "C18.R5:callers:send_telemetry_data", "-",
                "send_telemetry_data is called only from send_data_to_wire_server", "callers: %s" % sorted(cs))
        sd = F.fns.get(ER + "send_data_to_wire_server::{closure#0}")
        if sd:
            B = mir.Body(sd, F)
            reps = []
            for blk in B.blocks:
                for s in blk["stmts"]:
                    if s["k"] == "assign" and s["rv"]["k"] == "repeat":
                        reps.append(B.locals[s["lhs"]["l"]]["ty"])
            R.check(any(x.endswith("; 5]") for x in reps), "C18.R5", "C18.R5:%s:retry-bound" % sd["id"], "-",
                    "the upload retry loop iterates a constant 5-element array: %s" % reps)
        cs2 = G.callers(ER + "send_data_to_wire_server")
        R.check(cs2 == {ER + "send_events::{closure#0}"}, "C18.R5", "C18.R5:callers:send_data_to_wire_server", "-", "batches are uploaded only from send_events")
