"""Per-property manifest metadata (claimed level text, trusted base, technique). MANIFEST.json is generated from this."""
META = {}
NOT_APPLICABLE = {}


def claim(pid, technique, text, note, design_ref):
    META[pid] = {"technique": technique, "text": text, "note": note, "design_ref": design_ref}


claim("C01",
      "MIR edge-dominance (must-pass-through) + call-graph who-may-call + provenance",
      "Static all-paths decision on the handler's pre-lowering MIR: each of the five guards edge-dominates every "
      "upstream send site, each refusing edge reaches no send and always answers with the documented status, the "
      "decision inputs come from the connection context, and only the two handler routes can reach an upstream write. "
      "Discharges the request/identity/policy quantifier by 'every CFG path'; right level because the property is a "
      "shape-of-code property of one function plus a who-may-call inventory. Helper contract: the traversal guard is path(url).contains(\"..\").",
      "Trusts rustc MIR + the fact extractor; hyper invoking the service fn per request; kernel attribution (C06) and "
      "authorize() semantics (C02/C03) are separate properties; TCP handshake at accept time is not 'payload'.",
      "DESIGN.md §5 C01")

claim("C03",
      "MIR guard-first dominance + path-predicate dispatch tables + constant agreement",
      "Decides, for every rule set / mode / URL at once, that WireServer and HostGAPlugin authorizers cannot produce a "
      "non-Forbidden result nor consult the rules without crossing the runAsElevated=true edge, that the self-destination "
      "authorizer is constant Forbidden, and that the (ip,port)->authorizer/rule-getter dispatch tables and the "
      "listener/redirector port constants agree. The rule-set quantifier is discharged because the rules are provably not "
      "read before the elevation test. Helper contract: runAsElevated = (kernel record's is_admin == 1), identity fields from the same record, every Ok result built from this call's record (no cache).",
      "Trusts rustc MIR + extractor; that runAsElevated reflects the caller is C06; Forbidden => 403/no relay is C01.",
      "DESIGN.md §5 C03")

claim("C05",
      "resolved-callee header-mutation inventory + edge dominance + provenance of header values",
      "Decides for every multiset of client headers that the claims, date and authorization headers reaching the host are the "
      "proxy's: they are written with HeaderMap::insert (replace-all, case-insensitive) on the very request object that is "
      "forwarded, the inserts dominate every send, their values derive from the connection's attested claims / the proxy clock / "
      "the computed signature, and no other mutator touches that header map. Helper contract: the date helper renders OffsetDateTime::now_utc() in the RFC 1123 description. Helpers receiving &mut of the request are analysed in place (MIR inlining).",
      "Trusts http::HeaderMap::insert semantics (documented), rustc MIR + extractor.",
      "DESIGN.md §5 C05")

claim("C04",
      "provenance (sign-what-you-send), sibling agreement of the two canonicalisers, path-predicate tables, overwrite lint",
      "Decides the structural clauses of the signing property: the head/body signed are the head/body forwarded and nothing but the "
      "authorization insert happens after signing; header value format and provenance; both signing routes emit the same piece "
      "sequence through the same helpers; compute_signature is the HMAC chain; the exemption predicate accepts exactly the two "
      "documented pairs; the agent's own host calls are signed per a reviewed table and each signed one reads key id and value from "
      "the key keeper in that very call (no remembered key); the canonical form (sort key, templates, case folding) is a frozen table; "
      "canonicalisers must not drop request items by overwriting keyed inserts. Does not decide agreement with the host's canonicaliser or the hash arithmetic.",
      "Trusts hmac_sha256/hex crates, rustc MIR + extractor; the host's canonicaliser is not in the repository.",
      "DESIGN.md §5 C04")

claim("C07",
      "MIR post-dominance (consume-on-accept) + sibling agreement + field-write / type inventory",
      "Decides that the audit record is consumed on every path following a successful lookup (same port value, same map, same key "
      "constructor), that the identity fields of the per-connection context are written only by its single constructor site in the "
      "per-connection task, that each request receives a clone of that object, and that no static or long-lived type can hold a "
      "caller identity. Schedule-independence follows from the absence of shared identity state, not from exploring interleavings. The consume step's failure sources are an inventory (eBPF object/map gone, kernel delete error) and its mutex is taken with a blocking lock().",
      "Trusts rustc MIR + extractor; behaviour when remove_audit itself fails, kernel-side reuse races and hyper's per-request "
      "service invocation are not decided.",
      "DESIGN.md §5 C07")

claim("C10",
      "single-snapshot provenance (def-use) at every signing site + actor state shape",
      "Decides for every interleaving that the key id and the MAC key of each authorization header come from one read of the "
      "shared key state: both operands at each signing site must derive from one actor round-trip (or one &Key parameter). This "
      "removes the interleaving point instead of exploring schedules; with it the pairing is schedule-independent by construction. The hand-written Clone of Key is field-faithful.",
      "Trusts tokio mpsc/oneshot delivering the value sent, immutability of a read Key value, rustc MIR + extractor.",
      "DESIGN.md §5 C10")

claim("C14",
      "mutation inventory (resolved callees, field writes) + provenance of rebuilt request/response + identity-mapper allow-list",
      "Decides only necessary structural conditions of transparency: this repository's own code touches the forwarded request only by "
      "inserting the three proxy-owned headers and rebuilds it from the original head and collected body; the response is rebuilt from "
      "the upstream head with only the marker header inserted and no status mutation; the per-byte frame mapper is an identity; every "
      "upstream send happens under the per-connection mutex on the one upstream connection. Byte-for-byte transparency through hyper, "
      "framing, chunking, sizes and pipelining are runtime properties and are NOT decided. The send chain below the handler hands the request on untouched; the connection's mutex guard is held until the awaited response arrived.",
      "Trusts hyper/http-body-util codec behaviour (not analysed), rustc MIR + extractor.",
      "DESIGN.md §5 C14")

claim("C15",
      "evaluated constants + path-restricted provenance of the chosen limit layer + collect-before-send dominance",
      "Decides that the 100 KiB / 100 MiB constants are what the layers are built from, that the per-request service picks LARGE exactly "
      "on the true edge of should_skip_sig and LOW otherwise and wraps the handler (whose body type is Limited<Incoming>), and that on "
      "both routes every upstream send is dominated by a successful collect() of the limited body while the failing outcome answers "
      "400 and reaches no send: no part of an over-limit body can be relayed. The limit is chosen per request by the exemption predicate, whose table (exactly the two documented uploads) is shared with C04.R5; a workspace body reader is accepted only if no Err outcome of frame()/collect() reaches its Ok result.",
      "Trusts tower_http::limit::RequestBodyLimitLayer / Limited semantics (413 on declared length, error after limit bytes read; "
      "exactly-the-limit passes) – boundary behaviour is the library's.",
      "DESIGN.md §5 C15")

claim("C11",
      "path-predicate mode tables + sibling agreement + exactly-one event counting by reachability + actor-arm shape",
      "Decides per request, for every rule set and mode: the three endpoint authorizers implement the same four-row mode table "
      "(None->Ok, allowed->Ok, denied+Audit->OkWithAudit, denied->Forbidden); in the handler every result != Ok path passes exactly one "
      "authorize-failed record and the Ok path none; the record routine routes the flag to the failed-summary actor message; that actor "
      "arm inserts count=1 or increments by one, keyed by the whole (unshortened) user/ip/port/process/cmdline/status string, in a "
      "task-local map (single writer), delivered by an awaited send; after the decision audited and allowed requests share one "
      "forwarding path; the summary is published in the aggregate status. Totals over histories (24h reset) are not decided.",
      "Trusts rustc MIR + extractor, tokio channel delivery; Forbidden=>403/no relay is C01; disabled-mode shortcut is C02.R4.",
      "DESIGN.md §5 C11")

claim("C12",
      "modular secret flow: summary-based interprocedural access-path taint + reader inventory + impl facts + ordering dominance",
      "Decides, for flows inside the two agent crates, that no value derived from a read of Key::key (or from the raw key response body) "
      "reaches an observable output (log, console, event, status message, file, header, response body, serialisation) other than the "
      "key file written by store_local_key; that the readers of the secret field are the reviewed ones; that Key cannot be formatted or "
      "serialised elsewhere; and that the key directory is chown root / chmod 0700 before the poll loop that may store a key. Quantifier "
      "over histories/faults is discharged because the analysis covers every path, including all error paths.",
      "Trusts declared library semantics (comparisons/len/HMAC::finalize declassify; rendering calls propagate), rustc MIR + extractor; "
      "OS file modes, swap/core dumps and flows inside dependencies are not decided.",
      "DESIGN.md §5 C12")

claim("C13",
      "panic-site inventory armed by summary-based interprocedural external-data taint + reviewed SAFE table + idiom recognition",
      "Decides for the workspace's own code that no panic-capable construct (explicit panic, unwrap/expect, Index on str/String/Vec/map, "
      "MIR bounds/division asserts, std APIs documented to panic, byte-offset string truncation without a char-boundary idiom, unsigned "
      "subtraction feeding a sleep) is reachable from the service entry with an operand derived from a client request, the caller's "
      "names/command line, a host reply, deserialised data or files read back - including data that travels through format!, error values, "
      "awaits, closures and the actors' channels; text rendered from the clock arms byte-offset sinks as well (its length depends on the "
      "value). Every armed site is in a reviewed SAFE table with its reason, accepted by a recognised idiom, or reported. For the liveness "
      "clause it decides one structural condition: the start of the status tasks and the provisioning deadline are not behind the host poll.",
      "Trusts the declared taint propagation for external callees; panics inside dependencies, memory/stack exhaustion and debug-only "
      "overflow checks are not decided.",
      "DESIGN.md §5 C13")

claim("C08",
      "ordering by MIR edge dominance across awaits + path predicates of the read-back + atomic-replace shape + sibling file naming",
      "Decides the ordering clauses that discharge the crash-point quantifier: in every iteration attest_key is reachable only after "
      "store_key and the read-back check_key succeeded on the very key returned by acquire_key, the in-memory publication only after "
      "attest_key succeeded, acquire_key is unreachable when the local fetch succeeded, the read-back compares guid and key of the file "
      "named by the key's guid, store and fetch name the same file, and json_write_to_file writes a temp sibling then renames it onto the "
      "final name on every Ok path and never opens the final name for writing.",
      "Trusts rename(2) atomicity and page-cache survival of a killed process (OS), host protocol behaviour, rustc MIR + extractor.",
      "DESIGN.md §5 C08")

claim("C09",
      "failed-poll reachability within a loop iteration + sibling agreement over wireserver|imds|hostga + control-dependence edges",
      "Decides explicit sentences of the statement and the pairings it presupposes (NOT convergence over arbitrary histories): a failed "
      "status poll reaches no state setter in its iteration and every post-poll setter is behind the Ok edge; get_status validates before "
      "Ok; each endpoint's rule id, rules, mode, actor variable, actor message and redirect constants are wired to the same endpoint "
      "(declared exception: HostGA mode = WireServer mode); redirect updates and clear_key hang on the state-changed edge and the "
      "change detector reads every status field the redirect decisions read; the key block is entered iff the host names no key or a different one. Actor cells (key, channel state) are written only by their Set message, unconditionally, and read back by their Get message; update_current_secure_channel_state reports 'updated' exactly when the stored state differs and stores the new one.",
      "Trusts rustc MIR + extractor; convergence after arbitrary histories and faults is not decided.",
      "DESIGN.md §5 C09")

claim("C16",
      "actor-arm mutation inventory (OR / AND-NOT only) + who-may-call and constant pairing + guard dominance + rename-target provenance",
      "Decides the schedule-independent clauses: the readiness flags are one actor-task local mutated only by |= and &= ! with the "
      "post-value returned (no lost update in any arrival order); each reporter passes its own flag from its own module, ALL_READY is "
      "the OR of the three single bits, the error text names a module exactly on its flag's missing edge; finished is set only behind "
      "contains(ALL_READY) of the value returned by the same round-trip, in the deadline handler, or from a reset's returned value; "
      "status.tag is only ever the target of a rename from the freshly written temp file. Tick comparisons under arbitrary tick "
      "sequences are not decided. The error text is get_provision_failed_state_message() on every path; latched = state not in {disabled, unknown}; the finished tick is 0 or the clock at SetProvisionFinished(true); deadline handling and status-task start are not behind the host poll.",
      "Trusts tokio channel semantics, fs::rename atomicity (OS), bitflags-generated operators, rustc MIR + extractor.",
      "DESIGN.md §5 C16")

claim("C02",
      "case-folding symmetry (provenance), loop-exit shape, overwrite lint on name-keyed flattening, exhaustive attribute pairing",
      "Decides only necessary conditions named in the statement (NOT the equivalence with the specification): every URL comparison in "
      "Privilege::is_match folds both operands; inside the iteration is_allowed can only return true and the matched flag is monotone, so "
      "the result is an existential over the iteration, independent of map order; host-supplied lists must not be flattened into "
      "name-keyed maps with silent last-wins; disabled mode short-circuits before any rule is consulted; every optional attribute of "
      "Identity/Privilege is tested against its paired claim; dangling names never reach the flattened assignments. Hand-written Clone impls of the rule document types are content-blind and field-faithful (or derived).",
      "Trusts rustc MIR + extractor; prefix semantics, query parsing and everything outside these shapes are not decided.",
      "DESIGN.md §5 C02")

claim("C18",
      "sanitiser coverage over format arguments + escaper table + guard shapes (dominance) of batching and cleanup",
      "Decides: every string parameter of the telemetry XML is the direct result of xml_escape (integers exempt); xml_escape replaces "
      "& ' \" < > with & first (so no CDATA terminator or raw markup can come from event text); after each add_event the 64 KiB size test "
      "lies on every path to the upload, its overflow edge removes the last event, the put-back happens only for a non-empty batch and an "
      "event that alone overflows is dropped; every iteration over event files reaches clean_files on all paths; single uploader with a "
      "constant retry bound. XML well-formedness for every text, termination and host-side duplicates are not decided. On the overflow edge the last event is removed before the emptiness test.",
      "Trusts str::replace / format! semantics, rustc MIR + extractor.",
      "DESIGN.md §5 C18")

claim("C19",
      "guards-before-writes dominance + deletion-loop provenance (sorted listing, cap test) + constant provenance of limits",
      "Decides only necessary conditions (the numeric file-count/size bounds over histories are NOT decided): every rolling-logger write is "
      "dominated by roll_if_needed, which archives exactly on len >= max size; deletions in archive_file and in the rule-dump writer take "
      "entries of the ascending-sorted listing and are guarded by count >= cap; the rule-dump deletion precedes the new write; on the "
      "event-file cap edge nothing is written in that iteration and the counted directory is the written one; loggers and the dump writer "
      "are configured from MAX_LOG_FILE_SIZE / MAX_LOG_FILE_COUNT. Listings (get_files / search_files) keep every (matching) regular file; the log file is opened after the roll.",
      "Trusts rustc MIR + extractor; off-by-one arithmetic of the deletion loops and restart behaviour are not decided.",
      "DESIGN.md §5 C19")

claim("C20",
      "interval / finite-string abstract interpretation of update_state with input partitioning + who-may-write facts + path-predicate table",
      "Decides the health automaton for every history: a forward abstract interpretation (intervals for the two counters, finite set of "
      "named constants for the state string, branch refinement, 72 partition cells) computes the full transition relation of update_state and "
      "checks it: counters saturate at 10000 and reset on the opposite observation; ERROR is entered only from TRANSITIONING on a failure "
      "with >= 20 consecutive failures and never on a success; one success leaves ERROR; a success from SUCCESS/TRANSITIONING yields SUCCESS; "
      "saturation does not wedge. Threshold/constants/field writers are fixed by who-may-write facts, so the relation is the whole "
      "behaviour. The notifier's emit/suppress table is checked by path predicates; 'at most once per 120' is argued from that table. Every observation reporter of the monitor loop performs exactly one update_state() on every path (helpers included).",
      "Trusts rustc MIR + extractor and the abstract transfer functions of lib/absint.py (String/str calls modelled: as_str, to_string, eq, clone).",
      "DESIGN.md §5 C20")

claim("C17",
      "symbolic path evaluation + fs/spawn effect inventory (interprocedural) + table agreement + ordering dominance per command arm",
      "Decides per command, for the Linux build: backup copies exactly the three installed files to Backup/Package/<name> and the unit "
      "file to Backup/; copy_files is the inverse map rooted at its source folder; delete removes the same three paths; restore/install "
      "feed them the backup / packaged folder and take the unit file from Backup/ resp. the tool's directory; in main stop_service "
      "precedes the copy and setup_service (unit -> enable -> start) follows, restore is behind the backup-exists test, purge removes only "
      "the backup folder, uninstall deletes files only in package mode; every fs effect and process spawn reachable from main targets the "
      "four system locations, the backup folder, the tool's log, systemctl or the packaged agent's --version; every copy/delete of the tables is attempted on "
      "every path of the table functions and primitives (no skip on destination state); the extension runs backup before install, restore only on Error, purge only on Success. Failure sources that abort uninstall before the files are deleted are an inventory (spawn failure only); each copy's destination folder exists when the copy runs; a backup 'exists' iff the backed-up executable exists.",
      "Trusts fs::copy fidelity, systemctl, rustc MIR + extractor; Windows code paths are not compiled here; arbitrary command sequences "
      "beyond the per-command tables are not decided.",
      "DESIGN.md §5 C17")

claim("C06",
      "clang typed AST guard analysis + helper-encoding table + C record layout vs Rust [u32;N]/repr(C) agreement + byte-order tags",
      "Decides on the unmodified C source (never built by the test suite) and its Rust reader: the recorded user id / is_root use the low "
      "word of bpf_get_current_uid_gid and process ids the high word of bpf_get_current_pid_tgid (UAPI encodings); the destination rewrite "
      "happens only under a policy_map hit keyed by the connect's own destination, after the not-skipped check and after the original "
      "destination was recorded; audit records are written only for non-skipped processes under a local/policy hit and keyed by the local "
      "port; every map's key/value size and word order equals the [u32; N] types and #[repr(C)] mirrors the agent opens that map with, "
      "to_array/from_array keep field i in word offset/4, map and program names agree, byte-order tags match, the skip map gets a tgid, the "
      "hand-over slot is keyed per thread, and every policy_map entry the agent writes has key = (endpoint ip, endpoint port) and value = "
      "(proxy ip, listener port) at every call site (interprocedural role provenance). Record stores use flags 0 (overwrite); a pointer into a map element is not used after the element's delete.",
      "Trusts clang 14 parsing/layout (x86-64 = BPF layout for __u32/__u64 fields), the stub libbpf headers in /verif/cstubs, the UAPI helper "
      "documentation; verifier acceptance, LRU capacity, cross-thread races and kernel struct offsets are not decided.",
      "DESIGN.md §5 C06")


# ----------------------------------------------------------------------------------------
# clauses added by the later seeded rounds (DESIGN §13.6-§13.10); appended so that the claim text lists every rule family that is armed
def _also(pid, extra):
    META[pid]["text"] += " Also decided: " + extra


_also("C01", "the rule / redirect-state lookups hand the actor's answer through unchanged, a dead actor channel is an error and never "
             "'no rules' (C01.R7), and the wrappers are reliable awaited round trips.")
_also("C02", "whichever way the iteration over privileges / assignments is spelled (loops or iterator chains), no call in is_allowed or its "
             "closures selects by position (find/next/take .. on a hash map's order); a selecting call is accepted only when nothing but "
             "the presence of its result is used. The computed privileges / assignments maps only grow while the rule set is computed "
             "(no retain / remove / clear / drain on them, no selecting adaptor in the chain collected into the privileges map): is_allowed tells 'a declared privilege matches, nobody assigned' from 'nothing "
             "declared matches' only if every declared privilege is present.")
_also("C03", "the claims every authorizer sees are built from this connection's kernel record (no cache, field-to-field mapping table).")
_also("C04", "each signed agent call reads key id and value from the key keeper in that very call; query_pairs keeps every item with a "
             "non-empty name; the canonical form is looked for in the function and its closures (loop or iterator-chain spelling).")
_also("C05", "every upstream send carries the three inserts on its own path (not only the first send); nothing on the send chain below "
             "the handler (HttpConnectionContext / TcpConnectionContext / Client::send_request) touches the request again.")
_also("C06", "the hand-over and audit maps are LRU hash maps on both sides; policy lookups done through a C helper are resolved with "
             "parameter substitution (key fields and byte-order tags).")
_also("C07", "lookup and remove open the same map type; remove_audit takes the eBPF object's mutex with a blocking lock() and its failure "
             "sources are inventoried through helpers and closures; 'no static identity state' covers proxy::Process (the resolved "
             "caller process) as well as Claims / AuditEntry / TcpConnectionContext.")
_also("C08", "the key file name is the guid verbatim at store, read-back and restart lookup; the stored text is parsed as stored (no "
             "lossy repair of damaged bytes).")
_also("C09", "the 13 actor wrappers the loop relies on are reliable awaited round trips; an iteration that runs one endpoint's rule-id "
             "update runs the other two (no short-circuit between endpoints); set_*_rules is called on every path of its updated edge.")
_also("C10", "the authorization header replaces whatever the client sent under that name; the snapshot getters derive everything they "
             "return from one get_key() round trip, whatever std computation (zip/unzip/map) is applied to it.")
_also("C11", "the host's mode string maps to Disabled/Audit/Enforce by a case-folded table; the summary maps are modified only in the "
             "Add* arms and the periodic clear (reading or publishing never consumes the records); the entry-API spelling of "
             "'vacant -> 1, occupied -> += 1' is accepted.")
_also("C12", "the key text can reach an error value only on the Err outcome of hex::decode of that very text (pins the input class of the "
             "recorded findings). A whole Key handed to a serialiser (json_write_to_file::<Key>, serde_json::to_*::<Key>) is a source "
             "too, and the flow is followed through the shared file writer and through serialisation: what they hand back (rendered "
             "text, an error text quoting the content) must not reach a log / status / event output.")
_also("C13", "the boundary helpers return a borrowed prefix of their argument; an offset chosen by "
             "find(|i| s.is_char_boundary(i)).unwrap_or(0) is an accepted idiom.")
_also("C16", "the five provision wrappers are reliable awaited round trips; the deadline and the start of the status tasks do not wait for "
             "the host.")
_also("C19", "get_log_files selects by name, never by position in the directory listing (take_while/skip/take/truncate ..), so archives "
             "of a shared log folder are always candidates for deletion.")
for _p in list(META):
    META[_p]["note"] += (" Before the rules run the tree is normalised against the confirmed tree (renamed functions recognised by "
                         "signature, new helpers and local closures analysed in place, Option/Result combinators written out, loops over "
                         "array literals / constant tables unrolled; DESIGN §7) - these passes are trusted to preserve meaning and do "
                         "nothing on the unchanged tree.")
