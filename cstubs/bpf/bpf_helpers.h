/* Stand-in for libbpf's <bpf/bpf_helpers.h> (not installed in this sandbox): only what
 * linux-ebpf/ebpf_cgroup.c uses. Prototypes follow the helper documentation in
 * /usr/include/linux/bpf.h. Used by the static checker for parsing only. */
#ifndef __GPA_VERIF_BPF_HELPERS_H
#define __GPA_VERIF_BPF_HELPERS_H
#ifndef NULL
#define NULL ((void *)0)
#endif
#define SEC(name) __attribute__((section(name), used))
#define __uint(name, val) int (*name)[val]
#define __type(name, val) typeof(val) *name
#ifndef __always_inline
#define __always_inline inline __attribute__((always_inline))
#endif
void *bpf_map_lookup_elem(void *map, const void *key);
long bpf_map_update_elem(void *map, const void *key, const void *value, __u64 flags);
long bpf_map_delete_elem(void *map, const void *key);
__u64 bpf_get_current_pid_tgid(void);   /* tgid << 32 | pid  (UAPI doc) */
__u64 bpf_get_current_uid_gid(void);    /* gid  << 32 | uid  (UAPI doc) */
__u64 bpf_get_socket_cookie(void *ctx);
long bpf_probe_read(void *dst, __u32 size, const void *unsafe_ptr);
long bpf_trace_printk(const char *fmt, __u32 fmt_size, ...);
#define bpf_printk(fmt, ...) bpf_trace_printk(fmt, sizeof(fmt), ##__VA_ARGS__)
#endif
