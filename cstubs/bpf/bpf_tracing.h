/* Stand-in for libbpf's <bpf/bpf_tracing.h>: BPF_KPROBE declares the program entry with a ctx and the probed arguments. */
#ifndef __GPA_VERIF_BPF_TRACING_H
#define __GPA_VERIF_BPF_TRACING_H
struct pt_regs;
#define BPF_KPROBE(name, args...) name(struct pt_regs *ctx, ##args)
#endif
