/* empty stand-in: the checker does not need register layouts */
