"""P-PRED: bounded enumeration of acyclic paths with normalised branch atoms."""
import re

from . import mir, q


class TooManyPaths(Exception):
    pass


class HasLoop(Exception):
    pass


def enumerate_paths(B, start=0, stops=None, max_paths=4096, allow_loops=False):
    """All paths from `start` to a Return block (or a block in `stops`), as lists of (block, label_taken).
    Loops: a back edge raises HasLoop unless allow_loops (then each block is visited at most once per path)."""
    stops = set(stops or ())
    out = []
    stack = [(start, [], frozenset([start]))]
    while stack:
        b, path, onpath = stack.pop()
        t = B.blocks[b]["term"]
        if t["k"] == "return" or b in stops:
            out.append(path + [(b, None)])
            if len(out) > max_paths:
                raise TooManyPaths(B.id)
            continue
        succ = B.succ(b)
        if not succ:
            continue  # diverges (panic / unreachable)
        seen_t = set()
        for tg, lab in succ:
            if (tg, lab) in seen_t:
                continue
            seen_t.add((tg, lab))
            if tg in onpath:
                if allow_loops:
                    continue
                raise HasLoop("%s: back edge bb%d->bb%d" % (B.id, b, tg))
            stack.append((tg, path + [(b, lab)], onpath | {tg}))
    return out


def describe_origin(B, x, restrict=None, discr=False):
    """canonical, position-free description of where a value comes from (optionally path-restricted). discr: only the variant of the
    value matters (the Some-ness of `opt.map(f)` is that of `opt`, whatever f returns)"""
    parts = []
    for o in sorted(B.origins(x, restrict=restrict, path0=("<discr>",) if discr else ()), key=str):
        if discr:
            o = tuple(tuple(y for y in f if y != "<discr>") if isinstance(f, tuple) else f for f in o)
        if o[0] == "param":
            parts.append("param:%s%s" % (o[1], "".join("." + f for f in o[2])))
        elif o[0] == "const":
            parts.append("const:%s" % (o[1] if o[1] else repr(o[2])))
        elif o[0] == "call":
            parts.append("call:%s%s" % (q.base_name(o[1]), "".join("." + f for f in o[3])))
        elif o[0] == "promoted":
            v = q.promoted_variant(B.fn, o[1])
            cs = q.promoted_consts(B.fn, o[1])
            if v:
                parts.append("variant:%s::%s" % v)
            elif cs:
                parts.append("const:%s" % (cs[0][0] if cs[0][0] else repr(cs[0][1])))
            else:
                parts.append("promoted")
        elif o[0] == "agg":
            parts.append("agg:%s" % o[1])
        else:
            parts.append(str(o[0]))
    return "|".join(parts)


def type_variants(F, B, place):
    """variant names of the enum type of a local (no projections) if known"""
    if place["p"]:
        # type of last field projection
        last = place["p"][-1]
        ty = last.get("ty") if isinstance(last, dict) else None
    else:
        ty = B.locals[place["l"]]["ty"]
    if ty is None:
        return None
    t = ty.lstrip("&").replace("mut ", "")
    if t.startswith("std::option::Option<") or t.startswith("core::option::Option<"):
        return ["None", "Some"]
    if t.startswith("std::result::Result<") or t.startswith("core::result::Result<"):
        return ["Ok", "Err"]
    if t.startswith("std::ops::ControlFlow<") or t.startswith("core::ops::ControlFlow<"):
        return ["Continue", "Break"]
    if t.startswith("std::task::Poll<") or t.startswith("core::task::Poll<"):
        return ["Ready", "Pending"]
    head = t.split("<")[0]
    a = F.adts.get(head)
    if a:
        return [v["name"] for v in a["variants"]]
    return None


def atom(B, F, sb, label, restrict=None):
    """(description, outcome) of taking edge `label` out of switch block sb"""
    D = lambda x: describe_origin(B, x, restrict)
    e = B.cond(sb)
    neg = False
    while e[0] == "not":
        e = e[1]
        neg = not neg
    t = B.blocks[sb]["term"]
    is_bool = all(v == 0 for v, _ in t["targets"]) or e[0] in ("call", "bin")

    def truth():
        if label == "otherwise":
            val = not any(v == 1 for v, _ in t["targets"]) if all(v == 0 for v, _ in t["targets"]) else None
        else:
            val = bool(label)
        if val is None:
            return None
        return (not val) if neg else val

    if e[0] == "discr":
        names = type_variants(F, B, e[1])
        if label == "otherwise":
            listed = {v for v, _ in t["targets"]}
            if names:
                rest = [n for i, n in enumerate(names) if i not in listed]
                out = "|".join(rest)
            else:
                out = "otherwise"
        else:
            out = names[label] if names and label < len(names) else str(label)
        return ("discr(%s)" % describe_origin(B, e[1], restrict, discr=True), out)
    if e[0] == "call":
        callee = q.base_name(e[1])
        args = [D(a) for a in e[2]]
        short = callee.rsplit("::", 1)[-1]
        if short in ("eq", "ne") and len(args) == 2:
            tv = truth()
            if short == "ne" and tv is not None:
                tv = not tv
            return ("eq(%s, %s)" % tuple(args), tv)
        return ("call %s(%s)" % (callee, ", ".join(args)), truth())
    if e[0] == "bin":
        a, b = D(e[2]), D(e[3])
        op = e[1]
        tv = truth()
        if op == "Ne":
            op, tv = "Eq", (not tv if tv is not None else None)
        elif op == "Ge":
            op, tv = "Lt", (not tv if tv is not None else None)
        elif op == "Le":
            op, tv = "Gt", (not tv if tv is not None else None)
        return ("%s(%s, %s)" % (op, a, b), tv)
    # plain operand: a bool that is, on this path, the result of one call reads like a test of that call
    if is_bool and e[1].get("k") in ("copy", "move") and restrict is not None:
        org = B.origins(e[1], restrict=restrict)
        if len(org) == 1:
            o = next(iter(org))
            if o[0] == "call" and not o[3] and str(B.locals[B.blocks[o[2]]["term"]["dest"]["l"]].get("ty")) == "bool":
                tb = B.blocks[o[2]]["term"]
                return _call_atom(B, o[1], tb["args"], truth(), restrict)
    return ("val(%s)" % D(e[1]), truth() if is_bool else label)


def feasible(atoms):
    """no atom contradicts a constant it tests (`val(const:0)` taken as true)"""
    for d, v in atoms:
        c = _const_truth(d)
        if c is not None and isinstance(v, bool) and v != c:
            return False
    return True


def path_atoms(B, F, path):
    out = []
    prefix = []
    for b, lab in path:
        prefix.append(b)
        if B.blocks[b]["term"]["k"] == "switch":
            t = B.blocks[b]["term"]
            if t.get("exp") and "Await" in t["exp"]:
                continue
            out.append(atom(B, F, b, lab, restrict=list(prefix)))
    return out


def returned_variant(B, path):
    """variant/aggregate head last assigned to _0 along the path; a plain local-to-local move (`_0 = move _7`, as left behind by an
    inlined helper's return) hands on what that local last received on this path"""
    vals = {}
    for b, _ in path:
        for s in B.blocks[b]["stmts"]:
            if s["k"] == "assign" and not s["lhs"]["p"]:
                rv = s["rv"]
                l = s["lhs"]["l"]
                if rv["k"] == "agg":
                    vals[l] = rv.get("variant") or rv.get("adt") or rv["ak"]
                elif rv["k"] == "use":
                    o = rv["o"]
                    if o["k"] in ("copy", "move") and not o["p"]["p"] and o["p"]["l"] in vals:
                        vals[l] = vals[o["p"]["l"]]
                    else:
                        vals[l] = ("use", o)
                else:
                    vals.pop(l, None)
        t = B.blocks[b]["term"]
        if t["k"] == "call" and not t["dest"]["p"]:
            vals[t["dest"]["l"]] = ("call", q.base_name(mir.callee_of(t)[1]), b)
    return vals.get(0)


# ----------------------------------------------------------------------------------------
# decision tables with one-level-at-a-time inlining of workspace helpers

def _const_truth(desc):
    """truth value of an atom description that became constant after parameter substitution, else None"""
    import re
    m = re.fullmatch(r"val\(const:(True|False|1|0)\)", desc)
    if m:
        return m.group(1) in ("True", "1")
    return None


# ----------------------------------------------------------------------------------------
# std combinators that take a closure and return bool: `opt.is_none_or(|x| ..)` is `match opt { None => true, Some(x) => .. }`
# spelled differently.  (value on the empty variant, empty variant, variant whose payload the closure receives)
COMB = {
    "Option::<T>::is_some_and": (False, "None", "Some"),
    "Option::<T>::is_none_or": (True, "None", "Some"),
    "Result::<T, E>::is_ok_and": (False, "Err", "Ok"),
    "Result::<T, E>::is_err_and": (False, "Ok", "Err"),
    # map_or(default, f): the value on the empty variant is the (constant) first argument
    "Option::<T>::map_or": ("arg", "None", "Some"),
    "Result::<T, E>::map_or": ("arg", "Err", "Ok"),
}


def _comb_of(B, sb, restrict):
    """(table key, call block, required truth of the call's result for the edge) if sb switches on a COMB call's result"""
    e = B.cond(sb)
    neg = False
    while e[0] == "not":
        e = e[1]
        neg = not neg
    callee = blk = None
    if e[0] == "call":
        callee, blk = e[1], e[3]
    elif e[0] == "op" and e[1]["k"] in ("copy", "move"):
        # the tested value is (a copy / a tuple field of a tuple built from) the result of one call
        o, hops = e[1], 0
        while o is not None and o["k"] in ("copy", "move") and hops < 8:
            hops += 1
            pl = o["p"]
            d = B.single_def(pl["l"])
            if d is None:
                break
            if d[2] == "call" and not pl["p"]:
                w_, r_ = mir.callee_of(d[3])
                callee, blk = r_ or w_, d[0]
                break
            if d[2] != "assign":
                break
            rv = d[3]["rv"]
            if rv["k"] == "use" and not pl["p"]:
                o = rv["o"]
            elif rv["k"] == "agg" and rv["ak"] == "tuple" and len(pl["p"]) == 1 and isinstance(pl["p"][0], dict) and "f" in pl["p"][0] \
                    and pl["p"][0]["f"] < len(rv["ops"]):
                o = rv["ops"][pl["p"][0]["f"]]
            else:
                break
    if callee is None:
        return None
    for k in COMB:
        if q.base_name(callee).endswith(k) or callee.endswith(k):
            return k, blk, neg
    return None


def _edge_truth(B, sb, label, neg):
    t = B.blocks[sb]["term"]
    if label == "otherwise":
        val = not any(v == 1 for v, _ in t["targets"]) if all(v == 0 for v, _ in t["targets"]) else None
    else:
        val = bool(label)
    if val is None:
        return None
    return (not val) if neg else val


def _call_atom(B, callee, args, tv, restrict=None):
    D = lambda x: describe_origin(B, x, restrict)
    name = q.base_name(callee)
    a = [D(x) for x in args]
    short = name.rsplit("::", 1)[-1]
    if short in ("eq", "ne") and len(a) == 2:
        if short == "ne" and tv is not None:
            tv = not tv
        return ("eq(%s, %s)" % tuple(a), tv)
    return ("call %s(%s)" % (name, ", ".join(a)), tv)


def comb_alternatives(F, B, key, blk, tv, restrict):
    """atom lists under which the combinator call at blk yields tv; None when the closure cannot be read"""
    if tv is None:
        return None
    t = B.blocks[blk]["term"]
    empty_val, empty_var, full_var = COMB[key]
    if empty_val == "arg":
        if len(t["args"]) != 3:
            return None
        d = t["args"][1]
        if d["k"] != "const" or d.get("ty") != "bool" or d.get("val") is None:
            return None
        empty_val = bool(d["val"])
    elif len(t["args"]) != 2:
        return None
    recv, clo = t["args"][0], t["args"][-1]
    rdesc = describe_origin(B, recv, restrict)
    cids = [(o[1], o[2]) for o in B.origins(clo, restrict=restrict) if o[0] == "agg" and o[1] in F.fns]
    if len(cids) != 1:
        return None
    cid, ablk = cids[0]
    cfn = F.fns[cid]
    if cfn["kind"] != "Closure":
        return None
    Bc = mir.Body(cfn, F)
    subst = {}
    if len(Bc.locals) > 2:
        subst["param:" + (Bc.locals[2].get("name") or "2")] = "%s.@%s.0" % (rdesc, full_var)
    for s in B.blocks[ablk]["stmts"]:
        if s["k"] == "assign" and s["rv"]["k"] == "agg" and s["rv"].get("def") == cid:
            for i, op in enumerate(s["rv"]["ops"]):
                if i in Bc.upvar:
                    subst["param:" + Bc.upvar[i]] = describe_origin(B, op, restrict)
    alts = []
    if empty_val == tv:
        alts.append([("discr(%s)" % rdesc, empty_var)])
    try:
        crow = []
        for pth in enumerate_paths(Bc, allow_loops=True):
            crow.append((path_atoms(Bc, F, pth), returned_variant(Bc, pth)))
    except TooManyPaths:
        return None
    for catoms, cres in crow:
        extra = None
        if isinstance(cres, tuple) and cres[0] == "use":
            o = cres[1]
            if o["k"] == "const" and o.get("val") is not None and not isinstance(o.get("val"), dict):
                if bool(o["val"]) != tv:
                    continue
                extra = []
            else:
                extra = [("val(%s)" % describe_origin(Bc, o), tv)]
        elif isinstance(cres, tuple) and cres[0] == "call":
            ct = Bc.blocks[cres[2]]["term"]
            w, r = mir.callee_of(ct)
            extra = [_call_atom(Bc, r or w, ct["args"], tv)]
        else:
            return None
        new, feasible = [("discr(%s)" % rdesc, full_var)], True
        for d, v in catoms + extra:
            for k in sorted(subst, key=len, reverse=True):
                d = _subst_param(d, k, subst[k])
            c = _const_truth(d)
            if c is not None:
                if v is not None and v != c:
                    feasible = False
                    break
                continue
            new.append((d, v))
        if feasible:
            alts.append(new)
    return alts


def _prune(atoms):
    """drop repeated atoms; None if two atoms over the same call-free description disagree (infeasible combination)"""
    seen, out = {}, []
    for d, v in atoms:
        if "call" not in d and d in seen:
            if seen[d] != v:
                return None
            continue
        seen.setdefault(d, v)
        out.append((d, v))
    return out


def path_atom_alternatives(B, F, path):
    """like path_atoms, but a branch on the result of a closure-taking std combinator is replaced by the cases under which the
    combinator has that result; returns a list of atom lists (their disjunction describes the path)"""
    alts = [([], False)]
    prefix = []
    for b, lab in path:
        prefix.append(b)
        t = B.blocks[b]["term"]
        if t["k"] != "switch" or (t.get("exp") and "Await" in t["exp"]):
            continue
        c = _comb_of(B, b, list(prefix))
        ex = None
        if c is not None:
            ex = comb_alternatives(F, B, c[0], c[1], _edge_truth(B, b, lab, c[2]), list(prefix))
        if ex is None:
            a = atom(B, F, b, lab, restrict=list(prefix))
            alts = [(x + [a], e) for x, e in alts]
        else:
            alts = [(x + y, True) for x, e in alts for y in ex]
    out = []
    for x, expanded in alts:
        if expanded:
            x = _prune(x)
            if x is None:
                continue
        out.append(x)
    return out


def decision_rows(F, fid, depth=2, _memo=None):
    """[(atoms, result)] over all acyclic paths of fid; a path that returns the result of a workspace helper is expanded with the
    helper's rows, helper parameters substituted by the caller's argument descriptions and constant-bound atoms evaluated
    (infeasible rows dropped). result = variant name / ('use', ..) / ('call', callee, block)."""
    _memo = _memo if _memo is not None else {}
    if fid in _memo:
        return _memo[fid]
    fn = F.fns.get(fid)
    if fn is None:
        return []
    B = mir.Body(fn, F)
    rows = []
    for p, atoms in ((p, a) for p in enumerate_paths(B, allow_loops=True) for a in path_atom_alternatives(B, F, p)):
        # a branch on a constant (a helper's flag parameter after the helper was analysed in place) is decided; so is the test of a
        # value that was built as one variant on this very path (`mode = None` in the arm of a written-out combinator); and two tests
        # of the same unmodified parameter cannot disagree
        kept, feasible, seen_ = [], True, {}
        for d_, v_ in atoms:
            c_ = _const_truth(d_)
            if c_ is not None and isinstance(v_, bool):
                if v_ != c_:
                    feasible = False
                    break
                continue
            m_ = re.fullmatch(r"discr\(agg:([A-Za-z0-9_:]*)::(\w+)\)", d_)
            if m_ and isinstance(v_, (str, int)):
                outs = str(v_).split("|")
                names_ = [x["name"] for x in (F.adts.get(m_.group(1)) or {}).get("variants", [])]
                same = m_.group(2) in outs or (m_.group(2) in names_ and str(names_.index(m_.group(2))) in outs)
                if not same and (names_ or not all(x.isdigit() for x in outs)):
                    feasible = False
                    break
                if same:
                    continue
            if d_.startswith(("discr(param:", "val(param:")) and "call" not in d_:
                if d_ in seen_:
                    if seen_[d_] != v_:
                        feasible = False
                        break
                    continue
                seen_[d_] = v_
            kept.append((d_, v_))
        if not feasible:
            continue
        atoms = kept
        ret = returned_variant(B, p)
        if isinstance(ret, tuple) and ret[0] == "call" and depth > 0:
            t = B.blocks[ret[2]]["term"]
            w, r = mir.callee_of(t)
            callee = r or w
            cfn = F.fns.get(callee)
            if cfn is not None and cfn["kind"] in ("Fn", "AssocFn"):
                Bc = mir.Body(cfn, F)
                prefix = []
                for b, _ in p:
                    prefix.append(b)
                    if b == ret[2]:
                        break
                subst = {}
                for i, a in enumerate(t["args"]):
                    nm = Bc.locals[i + 1].get("name") or str(i + 1)
                    if a["k"] == "const" and a.get("val") is not None and not isinstance(a.get("val"), dict):
                        v = a["val"]
                        subst["param:" + nm] = "const:%s" % (bool(v) if a.get("ty") == "bool" else v)
                    else:
                        subst["param:" + nm] = describe_origin(B, a, prefix)
                for satoms, sret in decision_rows(F, callee, depth - 1, _memo):
                    new, feasible = [], True
                    for d, v in satoms:
                        for k in sorted(subst, key=len, reverse=True):
                            d = _subst_param(d, k, subst[k])
                        tv = _const_truth(d)
                        if tv is not None:
                            if v is not None and v != tv:
                                feasible = False
                                break
                            continue
                        new.append((d, v))
                    if feasible:
                        rows.append((atoms + new, sret))
                continue
        rows.append((atoms, ret))
    _memo[fid] = rows
    return rows


def _subst_param(desc, key, val):
    """replace `key` (param:name) when followed by a non-identifier char; field paths are appended to param-valued substitutions"""
    import re

    def rep(m):
        tail = m.group(1) or ""
        if val.startswith("param:") or val.startswith("call:"):
            return val + tail
        return val if not tail else val + tail
    return re.sub(re.escape(key) + r"((?:\.[A-Za-z0-9_@+]+)*)(?![A-Za-z0-9_])", rep, desc)
