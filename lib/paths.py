"""P-PRED: bounded enumeration of acyclic paths with normalised branch atoms."""
from . import mir, q


class TooManyPaths(Exception):
    pass


class HasLoop(Exception):
    pass


def enumerate_paths(B, start=0, stops=None, max_paths=4096, allow_loops=False):
    """All paths from `start` to a Return block (or a block in `stops`), as lists of (block, label_taken).
    Loops: a back edge raises HasLoop unless allow_loops (then each block is visited at most once per path)."""
    stops = set(stops or ())
    out = []
    stack = [(start, [], frozenset([start]))]
    while stack:
        b, path, onpath = stack.pop()
        t = B.blocks[b]["term"]
        if t["k"] == "return" or b in stops:
            out.append(path + [(b, None)])
            if len(out) > max_paths:
                raise TooManyPaths(B.id)
            continue
        succ = B.succ(b)
        if not succ:
            continue  # diverges (panic / unreachable)
        seen_t = set()
        for tg, lab in succ:
            if (tg, lab) in seen_t:
                continue
            seen_t.add((tg, lab))
            if tg in onpath:
                if allow_loops:
                    continue
                raise HasLoop("%s: back edge bb%d->bb%d" % (B.id, b, tg))
            stack.append((tg, path + [(b, lab)], onpath | {tg}))
    return out


def describe_origin(B, x):
    """canonical, position-free description of where a value comes from"""
    parts = []
    for o in sorted(B.origins(x), key=str):
        if o[0] == "param":
            parts.append("param:%s%s" % (o[1], "".join("." + f for f in o[2])))
        elif o[0] == "const":
            parts.append("const:%s" % (o[1] if o[1] else repr(o[2])))
        elif o[0] == "call":
            parts.append("call:%s%s" % (q.base_name(o[1]), "".join("." + f for f in o[3])))
        elif o[0] == "promoted":
            v = q.promoted_variant(B.fn, o[1])
            cs = q.promoted_consts(B.fn, o[1])
            if v:
                parts.append("variant:%s::%s" % v)
            elif cs:
                parts.append("const:%s" % (cs[0][0] if cs[0][0] else repr(cs[0][1])))
            else:
                parts.append("promoted")
        elif o[0] == "agg":
            parts.append("agg:%s" % o[1])
        else:
            parts.append(str(o[0]))
    return "|".join(parts)


def type_variants(F, B, place):
    """variant names of the enum type of a local (no projections) if known"""
    if place["p"]:
        # type of last field projection
        last = place["p"][-1]
        ty = last.get("ty") if isinstance(last, dict) else None
    else:
        ty = B.locals[place["l"]]["ty"]
    if ty is None:
        return None
    t = ty.lstrip("&").replace("mut ", "")
    if t.startswith("std::option::Option<") or t.startswith("core::option::Option<"):
        return ["None", "Some"]
    if t.startswith("std::result::Result<") or t.startswith("core::result::Result<"):
        return ["Ok", "Err"]
    if t.startswith("std::ops::ControlFlow<") or t.startswith("core::ops::ControlFlow<"):
        return ["Continue", "Break"]
    if t.startswith("std::task::Poll<") or t.startswith("core::task::Poll<"):
        return ["Ready", "Pending"]
    head = t.split("<")[0]
    a = F.adts.get(head)
    if a:
        return [v["name"] for v in a["variants"]]
    return None


def atom(B, F, sb, label):
    """(description, outcome) of taking edge `label` out of switch block sb"""
    e = B.cond(sb)
    neg = False
    while e[0] == "not":
        e = e[1]
        neg = not neg
    t = B.blocks[sb]["term"]
    is_bool = all(v == 0 for v, _ in t["targets"]) or e[0] in ("call", "bin")

    def truth():
        if label == "otherwise":
            val = not any(v == 1 for v, _ in t["targets"]) if all(v == 0 for v, _ in t["targets"]) else None
        else:
            val = bool(label)
        if val is None:
            return None
        return (not val) if neg else val

    if e[0] == "discr":
        names = type_variants(F, B, e[1])
        if label == "otherwise":
            listed = {v for v, _ in t["targets"]}
            if names:
                rest = [n for i, n in enumerate(names) if i not in listed]
                out = "|".join(rest)
            else:
                out = "otherwise"
        else:
            out = names[label] if names and label < len(names) else str(label)
        return ("discr(%s)" % describe_origin(B, e[1]), out)
    if e[0] == "call":
        callee = q.base_name(e[1])
        args = [describe_origin(B, a) for a in e[2]]
        short = callee.rsplit("::", 1)[-1]
        if short in ("eq", "ne") and len(args) == 2:
            tv = truth()
            if short == "ne" and tv is not None:
                tv = not tv
            return ("eq(%s, %s)" % tuple(args), tv)
        return ("call %s(%s)" % (callee, ", ".join(args)), truth())
    if e[0] == "bin":
        a, b = describe_origin(B, e[2]), describe_origin(B, e[3])
        op = e[1]
        tv = truth()
        if op == "Ne":
            op, tv = "Eq", (not tv if tv is not None else None)
        elif op == "Ge":
            op, tv = "Lt", (not tv if tv is not None else None)
        elif op == "Le":
            op, tv = "Gt", (not tv if tv is not None else None)
        return ("%s(%s, %s)" % (op, a, b), tv)
    # plain operand
    return ("val(%s)" % describe_origin(B, e[1]), truth() if is_bool else label)


def path_atoms(B, F, path):
    out = []
    for b, lab in path:
        if B.blocks[b]["term"]["k"] == "switch":
            t = B.blocks[b]["term"]
            if t.get("exp") and "Await" in t["exp"]:
                continue
            out.append(atom(B, F, b, lab))
    return out


def returned_variant(B, path):
    """variant/aggregate head last assigned to _0 along the path"""
    last = None
    for b, _ in path:
        for s in B.blocks[b]["stmts"]:
            if s["k"] == "assign" and s["lhs"]["l"] == 0 and not s["lhs"]["p"]:
                rv = s["rv"]
                if rv["k"] == "agg":
                    last = rv.get("variant") or rv.get("adt") or rv["ak"]
                elif rv["k"] == "use":
                    last = ("use", rv["o"])
        t = B.blocks[b]["term"]
        if t["k"] == "call" and t["dest"]["l"] == 0 and not t["dest"]["p"]:
            last = ("call", q.base_name(mir.callee_of(t)[1]), b)
    return last
