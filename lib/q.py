"""Reusable queries built on mir.Body: outcome edges of Option/Result/enum tests, events, helpers."""
from . import mir

AP = "azure_proxy_agent::"


def base_name(c):
    """callee path without trailing generic args"""
    return mir.norm(c)


def ends(c, *names):
    b = base_name(c)
    for n in names:
        n = mir.norm(n)
        if b == n or b.endswith("::" + n):
            return True
    return False


def promoted_variant(fn, n):
    """(adt, variant) of the enum value a promoted constant refers to, else None"""
    try:
        p = fn["promoted"][n]
    except (IndexError, KeyError):
        return None
    for b in p["blocks"]:
        for s in b["stmts"]:
            if s["k"] == "assign" and s["rv"]["k"] == "agg" and s["rv"]["ak"] == "adt":
                return s["rv"]["adt"], s["rv"]["variant"]
    return None


def promoted_consts(fn, n):
    """constants (def, val) appearing in a promoted body"""
    out = []
    try:
        p = fn["promoted"][n]
    except (IndexError, KeyError):
        return out
    for b in p["blocks"]:
        for s in b["stmts"]:
            if s["k"] == "assign":
                for o in _ops(s["rv"]):
                    if o["k"] == "const":
                        out.append((o.get("def"), o.get("val")))
    return out


def _ops(rv):
    k = rv["k"]
    if k in ("use", "cast", "repeat"):
        yield rv["o"]
    elif k == "agg":
        yield from rv["ops"]
    elif k == "bin":
        yield rv["a"]
        yield rv["b"]
    elif k == "un":
        yield rv["a"]


def operand_variant(B, o):
    """if operand is (a reference to) a constant enum variant, return (adt, variant)"""
    for org in B.origins(o):
        if org[0] == "promoted":
            v = promoted_variant(B.fn, org[1])
            if v:
                return v
        if org[0] == "agg" and "::" in str(org[1]):
            adt, var = org[1].rsplit("::", 1)
            return adt, var
    return None


def variant_index(F, adt, variant):
    a = F.adts.get(adt)
    if a is None:
        return mir.STD_VARIANTS.get(variant)
    for i, v in enumerate(a["variants"]):
        if v["name"] == variant:
            return i
    return None


def _is_branch_local(B, place):
    d = B.single_def(place["l"])
    if d and d[2] == "call":
        w, r = mir.callee_of(d[3])
        return bool(w and w.endswith("::branch"))
    return False


def outcome_edges(B, subject_pred, outcome):
    """Edges on which `subject` (an Option/Result-like value chosen by subject_pred(origins, place_or_operand))
    is known to have `outcome` ('Some'|'None'|'Ok'|'Err'), and edges on which it is known not to.
    Returns (implying, refuting, tests) with edges as (src_block, tgt_block)."""
    positive = outcome in ("Some", "Ok")
    implying, refuting, tests = set(), set(), []
    for sb in B.switch_blocks():
        e = B.cond(sb)
        neg = False
        while e[0] == "not":
            e = e[1]
            neg = not neg
        t = B.blocks[sb]["term"]
        if e[0] == "discr":
            place = e[1]
            if not subject_pred(B.origins(place), place):
                continue
            if _is_branch_local(B, place):
                want = 0 if positive else 1
            else:
                want = mir.STD_VARIANTS[outcome]
            tests.append(sb)
            seen_t = set()
            for tg, lab in B.succ(sb):
                val = lab
                if lab == "otherwise":
                    listed = {v for v, _ in t["targets"]}
                    is_want = want not in listed
                else:
                    is_want = (val == want)
                (implying if is_want else refuting).add((sb, tg))
        elif e[0] == "call" and ends(e[1], "is_some", "is_none", "is_ok", "is_err") and e[2]:
            arg = e[2][0]
            if not subject_pred(B.origins(arg), arg):
                continue
            tests.append(sb)
            tr, fa = B.bool_edges(sb)
            if neg:
                tr, fa = fa, tr
            call_positive = ends(e[1], "is_some", "is_ok")
            pos_edge, neg_edge = ((sb, tr), (sb, fa)) if call_positive else ((sb, fa), (sb, tr))
            if positive:
                implying.add(pos_edge)
                refuting.add(neg_edge)
            else:
                implying.add(neg_edge)
                refuting.add(pos_edge)
    # an edge that is both (same target for both outcomes) proves nothing
    both = implying & refuting
    return implying - both, refuting - both, tests


def bool_call_edges(B, callee_names, subject_pred=None):
    """switches on the bool result of a call to one of callee_names: [(sw_block, true_edge, false_edge, call_block, args)]"""
    out = []
    for sb in B.switch_blocks():
        e, tr, fa = B.truth_edges(sb)
        if e[0] == "call" and ends(e[1], *callee_names):
            if subject_pred and not subject_pred(e):
                continue
            out.append((sb, tr, fa, e[3], e[2]))
    return out


def enum_value_edges(B, F, subject_pred, adt, variant):
    """Edges on which the enum-typed subject is known == variant (equal) or known != variant (differ).
    Handles PartialEq::eq/ne against constant variants and direct discriminant switches."""
    equal, differ, tests = set(), set(), []
    want_idx = variant_index(F, adt, variant)
    for sb in B.switch_blocks():
        e, tr, fa = B.truth_edges(sb)
        t = B.blocks[sb]["term"]
        if e[0] == "call" and ends(e[1], "eq", "ne") and len(e[2]) == 2:
            a, b = e[2]
            va, vb = operand_variant(B, a), operand_variant(B, b)
            subj, const = None, None
            if vb and subject_pred(B.origins(a), a):
                subj, const = a, vb
            elif va and subject_pred(B.origins(b), b):
                subj, const = b, va
            if subj is None or const[0] != adt:
                continue
            tests.append(sb)
            is_eq = ends(e[1], "eq")
            eq_edge, ne_edge = (tr, fa) if is_eq else (fa, tr)
            if const[1] == variant:
                equal.add(eq_edge)
                differ.add(ne_edge)
            else:
                # == other variant  => differs from `variant`; != other variant proves nothing
                differ.add(eq_edge)
        elif e[0] == "discr":
            place = e[1]
            if not subject_pred(B.origins(place), place):
                continue
            lt = B.locals[place["l"]]
            tests.append(sb)
            listed = {v for v, _ in t["targets"]}
            for tg, lab in B.succ(sb):
                if lab == "otherwise":
                    if want_idx in listed:
                        differ.add((sb, tg))
                    # otherwise may include the variant: proves nothing
                elif lab == want_idx:
                    equal.add((sb, tg))
                else:
                    differ.add((sb, tg))
    both = equal & differ
    return equal - both, differ - both, tests


def has_origin(origins, kind, pred):
    return any(o[0] == kind and pred(o) for o in origins)


def from_param_field(name, *fields, exact=True):
    """subject predicate: value derives from parameter/capture `name` with exactly (or starting with) this field path"""
    def pred(origins, _x=None):
        hit = False
        for o in origins:
            if o[0] in ("const", "promoted"):
                continue
            if o[0] == "param" and o[1] == name and ((tuple(o[2]) == tuple(fields)) if exact else (tuple(o[2][: len(fields)]) == tuple(fields))):
                hit = True
            else:
                return False
        return hit
    return pred


def from_call(*callees, whole=True):
    """subject predicate: the value IS the result of one of these calls (whole=True: not a field/payload of it)"""
    def pred(origins, _x=None):
        hit = False
        for o in origins:
            if o[0] in ("const", "promoted"):
                continue
            if o[0] == "call" and ends(o[1], *callees) and (not whole or not o[3]):
                hit = True
            else:
                return False   # the value can also come from somewhere else: a test of it proves nothing about the call
        return hit
    return pred


def only_from(origins, allowed):
    """every origin satisfies one of the allowed predicates (constants are ignored)"""
    for o in origins:
        if o[0] in ("const", "promoted", "fnitem"):
            continue
        if not any(a(o) for a in allowed):
            return False
    return True


def where(B, block):
    t = B.blocks[block]["term"]
    return "%s:%s" % (t.get("file") or B.fn["file"], t["line"])


def const_args(B, call_term, idx):
    """named-constant defs reaching argument idx of a call"""
    out = set()
    for o in B.origins(call_term["args"][idx]):
        if o[0] == "const" and o[1]:
            out.add(o[1])
    return out


def immediate_await(B, call_block):
    """poll block of the await that consumes the future created at call_block, or None"""
    r = B.await_of(call_block)
    return r[0] if r else None


# ----------------------------------------------------------------------------------------
# format_args! reconstruction (this nightly: one byte template + [fmt::rt::Argument; N])

def decode_template(bs):
    """-> list of pieces: ('lit', str) | ('arg', index, has_options)"""
    out = []
    i = 0
    nxt = 0
    while i < len(bs):
        n = bs[i]
        i += 1
        if n == 0:
            break
        if n < 0x80:
            out.append(("lit", bytes(bs[i:i + n]).decode("utf-8", "replace")))
            i += n
        elif n == 0x80:
            ln = bs[i] | (bs[i + 1] << 8)
            i += 2
            out.append(("lit", bytes(bs[i:i + ln]).decode("utf-8", "replace")))
            i += ln
        else:
            idx = nxt
            if n & 1:
                i += 4
            if n & 2:
                i += 2
            if n & 4:
                i += 2
            if n & 8:
                idx = bs[i] | (bs[i + 1] << 8)
                i += 2
            out.append(("arg", idx, n != 0xC0))
            nxt = idx + 1
    return out


def _follow_single(B, o, through=("use", "ref", "cast")):
    """follow an operand through single-definition copies/refs to the defining (kind, payload, block)"""
    seen = 0
    while o["k"] in ("copy", "move") and seen < 20:
        seen += 1
        l = o["p"]["l"]
        pr = o["p"]["p"]
        # payload of a wrapper built in this body: `(x as Some).0` after `x = Some(v)` (also through whole-value moves of x and
        # when x has another definition building the other variant) is v
        if len(pr) >= 2 and isinstance(pr[0], dict) and "d" in pr[0] and isinstance(pr[1], dict) and "f" in pr[1]:
            cands, moves = [], []
            for (bi_, si_, kind_, pl_) in B.defs.get(l, []):
                if kind_ != "assign" or pl_["lhs"]["p"]:
                    cands.append(None)
                    continue
                rv_ = pl_["rv"]
                if rv_["k"] == "agg" and rv_["ak"] == "adt":
                    if rv_.get("variant") == pr[0]["d"] and pr[1]["f"] < len(rv_["ops"]):
                        cands.append(rv_["ops"][pr[1]["f"]])
                elif rv_["k"] == "use" and rv_["o"]["k"] in ("copy", "move"):
                    moves.append(rv_["o"])
                else:
                    cands.append(None)
            if len(cands) == 1 and cands[0] is not None and not moves:
                nxt = cands[0]
                o = nxt if len(pr) == 2 or nxt["k"] not in ("copy", "move") else {"k": nxt["k"], "p": {"l": nxt["p"]["l"], "p": nxt["p"]["p"] + pr[2:]}}
                continue
            if not cands and len(moves) == 1:
                m = moves[0]
                o = {"k": m["k"], "p": {"l": m["p"]["l"], "p": m["p"]["p"] + pr}}
                continue
        # a field of a tuple / struct built in this body: `t.1` after `t = (a, b)` is b
        if pr and isinstance(pr[0], dict) and "f" in pr[0] and "d" not in pr[0]:
            d_ = B.single_def(l)
            if d_ and d_[2] == "assign" and not d_[3]["lhs"]["p"] and d_[3]["rv"]["k"] == "agg" and d_[3]["rv"]["ak"] in ("tuple", "adt") \
                    and not d_[3]["rv"].get("variant_idx") and pr[0]["f"] < len(d_[3]["rv"]["ops"]):
                nxt = d_[3]["rv"]["ops"][pr[0]["f"]]
                if nxt["k"] in ("copy", "move"):
                    o = {"k": nxt["k"], "p": {"l": nxt["p"]["l"], "p": nxt["p"]["p"] + pr[1:]}}
                    continue
                if len(pr) == 1:
                    o = nxt
                    continue
        d = B.single_def(l)
        if d is None:
            return None
        bi, si, kind, payload = d
        if kind == "assign" and payload["rv"]["k"] in through and not payload["lhs"]["p"]:
            rv = payload["rv"]
            if rv["k"] in ("use", "cast"):
                o = rv["o"]
            else:
                o = {"k": "copy", "p": rv["p"]}
                if rv["p"]["p"] and any(e != "*" for e in rv["p"]["p"]):
                    return ("place", rv["p"], bi)
            continue
        return (kind, payload, bi)
    if o["k"] == "const":
        return ("const", o, None)
    return None


def format_of(B, o):
    """If operand `o` is a String built by format!/format_args!, return
         {'pieces': [...], 'args': [{'kind': 'display'|'debug'|.., 'origins': set, 'ty': str}], 'block': bi}
       else None."""
    cur = o
    for _ in range(10):
        d = _follow_single(B, cur)
        if d is None or d[0] != "call":
            return None
        t = d[1]
        w, r = mir.callee_of(t)
        if w is None:
            return None
        if ends(w, "must_use", "format", "deref", "as_str", "as_ref", "borrow", "clone", "to_string", "to_owned") \
                or w in ("std::fmt::format", "alloc::fmt::format"):
            cur = t["args"][0]
            continue
        if base_name(w).endswith("fmt::Arguments::<'a>::new") or ends(w, "Arguments::new", "Arguments::<'a>::new"):
            tmpl = _follow_single(B, t["args"][0])
            pieces = None
            if tmpl and tmpl[0] == "const" and isinstance(tmpl[1].get("val"), dict):
                pieces = decode_template(tmpl[1]["val"]["bytes"])
            arr = _follow_single(B, t["args"][1])
            args = []
            if arr and arr[0] == "assign" and arr[1]["rv"]["k"] == "agg" and arr[1]["rv"]["ak"] == "array":
                for el in arr[1]["rv"]["ops"]:
                    a = _follow_single(B, el)
                    if a and a[0] == "call":
                        aw, ar = mir.callee_of(a[1])
                        kind = base_name(aw).rsplit("::new_", 1)[-1] if "::new_" in (aw or "") else "?"
                        tys = [g.get("ty") for g in a[1]["f"].get("fnargs", []) if "ty" in g]
                        args.append({"kind": kind, "origins": B.origins(a[1]["args"][0]), "ty": tys[0] if tys else None,
                                     "operand": a[1]["args"][0]})
                    else:
                        args.append({"kind": "?", "origins": B.origins(el), "ty": None, "operand": el})
            return {"pieces": pieces, "args": args, "block": d[2]}
        if ends(w, "Arguments::from_str", "Arguments::<'a>::from_str", "Arguments::new_const"):
            return {"pieces": None, "args": [], "block": d[2]}
        return None
    return None


def template_text(fmt):
    if not fmt or fmt["pieces"] is None:
        return None
    return "".join(p[1] if p[0] == "lit" else "{}" for p in fmt["pieces"])


# ----------------------------------------------------------------------------------------
# actor message arms

def actor_arms(B, F, action_adt):
    """{variant name: (switch block, entry block of the arm, set of blocks of the arm)} for the message loop of an actor task"""
    a = F.adts.get(action_adt)
    if a is None:
        return {}
    names = [v["name"] for v in a["variants"]]
    out = {}
    for sb in B.switch_blocks():
        e = B.cond(sb)
        if e[0] != "discr":
            continue
        place = e[1]
        if place["p"]:
            last = place["p"][-1]
            ty = last.get("ty") if isinstance(last, dict) else None
        else:
            ty = B.locals[place["l"]]["ty"]
        if not ty or ty.split("<")[0] != action_adt:
            continue
        t = B.blocks[sb]["term"]
        listed = {v: tg for v, tg in t["targets"]}
        for i, n in enumerate(names):
            tg = listed.get(i)
            if tg is None:
                if len(listed) == len(names) - 1:
                    tg = t["otherwise"]
                else:
                    continue
            if tg in B.dead:
                continue
            region = B.reach([tg], cut_blocks=[sb])
            out[n] = (sb, tg, region)
    return out


def loop_headers(B):
    """targets of back edges (DFS) in the live, non-cleanup CFG"""
    heads = set()
    color = {}
    stack = [(0, iter(B.succ(0)))]
    color[0] = 1
    while stack:
        b, it = stack[-1]
        adv = False
        for tg, _ in it:
            c = color.get(tg, 0)
            if c == 0:
                color[tg] = 1
                stack.append((tg, iter(B.succ(tg))))
                adv = True
                break
            elif c == 1:
                heads.add(tg)
        if not adv:
            color[b] = 2
            stack.pop()
    return heads


def outer_loop_header(B, block):
    """the loop header that dominates `block` and is closest to the entry (outermost enclosing loop)"""
    cands = []
    for h in loop_headers(B):
        if h != block and B.path([0], [block], cut_blocks=[h]) is None and block in B.reach([h]) and h in B.reach([block]):
            cands.append(h)
    best = None
    for h in cands:
        # outermost = not dominated by another candidate
        if all(h == o or B.path([0], [h], cut_blocks=[o]) is not None for o in cands):
            best = h
    return best


# value-changing calls that provenance (mir.Body.origins) deliberately looks through; identity rules must exclude them
LOSSY = ("to_lowercase", "to_uppercase", "to_ascii_lowercase", "to_ascii_uppercase", "trim", "trim_start", "trim_end", "trim_matches",
         "unwrap_or", "unwrap_or_default", "unwrap_or_else", "ok", "first", "last", "next", "to_string_lossy", "take", "skip", "filter",
         "filter_map", "find", "rev", "get_mut", "into_boxed_str", "from_utf8_lossy", "from_utf8_unchecked", "to_ascii_lowercase", "replace", "replacen")


def lossy_via(B, o):
    """names of value-changing calls on the way from the operand to its origins (empty = carried over verbatim)"""
    return sorted({base_name(v).rsplit("::", 1)[-1] for v in B.via(o) if base_name(v).rsplit("::", 1)[-1] in LOSSY})
