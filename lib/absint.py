"""P-INT: interval / finite-string abstract interpretation of one loop-free MIR body with input partitioning.

Domain per abstract location (a local, or a field of `*self`):
   ('int', lo, hi) | ('bool', frozenset{True, False}) | ('str', frozenset{literal strings or 'OTHER'})
   | ('ref', key) | ('tuple', (v0, v1)) | ('top',)
It is a forward dataflow over the CFG in topological order (the body must be loop free), joining at merge points,
with branch refinement on comparisons of a freshly loaded field with a constant / another field.
No path is executed: every block is visited once with the join of its predecessors' abstract states.
"""
from . import mir, q

U32MAX = 2 ** 32 - 1
TOP = ("top",)


class NotAnalysable(Exception):
    pass


def join_val(a, b):
    if a == b:
        return a
    if a is None:
        return b
    if b is None:
        return a
    if a[0] == b[0] == "int":
        return ("int", min(a[1], b[1]), max(a[2], b[2]))
    if a[0] == b[0] == "bool":
        return ("bool", a[1] | b[1])
    if a[0] == b[0] == "str":
        return ("str", a[1] | b[1])
    if a[0] == b[0] == "tuple" and len(a[1]) == len(b[1]):
        return ("tuple", tuple(join_val(x, y) for x, y in zip(a[1], b[1])))
    return TOP


def join_state(a, b):
    if a is None:
        return dict(b)
    out = {}
    for k in set(a) | set(b):
        if k in a and k in b:
            out[k] = join_val(a[k], b[k])
        else:
            out[k] = TOP
    # comparison provenance survives only if identical
    return out


class Interp:
    def __init__(self, B, self_local=1):
        self.B = B
        self.self_local = self_local
        self.order = self._topo()
        self.notes = []

    def _topo(self):
        B = self.B
        live = B.live_blocks()
        indeg = {b: 0 for b in live}
        for b in live:
            for tg, _ in B.succ(b):
                if tg in indeg:
                    indeg[tg] += 1
        order, ready = [], [b for b in live if indeg[b] == 0]
        while ready:
            b = ready.pop()
            order.append(b)
            for tg, _ in B.succ(b):
                if tg in indeg:
                    indeg[tg] -= 1
                    if indeg[tg] == 0:
                        ready.append(tg)
        if len(order) != len(live):
            raise NotAnalysable("%s has a loop: outside the analysable fragment" % B.id)
        return order

    # ------------------------------------------------------------------ places
    def key_of(self, st, place):
        """abstract location named by a place, or None"""
        l = place["l"]
        proj = place["p"]
        if not proj:
            return ("l", l)
        # (*self).field
        if l == self.self_local and len(proj) == 2 and proj[0] == "*" and isinstance(proj[1], dict) and "f" in proj[1]:
            return ("f", proj[1]["n"])
        # (*self) itself (re-borrowed for a helper that takes &mut self and is analysed in place)
        if proj == ["*"] and l == self.self_local:
            return ("self",)
        # (*ref_local)  where ref_local holds ('ref', key)
        if proj == ["*"]:
            v = st.get(("l", l))
            if v and v[0] == "ref":
                return v[1]
            return None
        # (*r).field where r is a re-borrow of self
        if len(proj) == 2 and proj[0] == "*" and isinstance(proj[1], dict) and "f" in proj[1]:
            v = st.get(("l", l))
            if v and v[0] == "ref" and v[1] == ("self",):
                return ("f", proj[1]["n"])
            return None
        # tuple field of a local
        if len(proj) == 1 and isinstance(proj[0], dict) and "f" in proj[0]:
            return ("t", l, proj[0]["f"])
        return None

    def read(self, st, place):
        k = self.key_of(st, place)
        if k is None:
            return TOP
        if k[0] == "t":
            v = st.get(("l", k[1]))
            if v and v[0] == "tuple" and k[2] < len(v[1]):
                return v[1][k[2]]
            return TOP
        return st.get(k, TOP)

    def operand(self, st, o):
        if o["k"] in ("copy", "move"):
            return self.read(st, o["p"])
        v = o.get("val")
        ty = o.get("ty", "")
        if isinstance(v, bool):
            return ("bool", frozenset([v]))
        if ty == "bool" and isinstance(v, int):
            return ("bool", frozenset([bool(v)]))
        if isinstance(v, int):
            return ("int", v, v)
        if isinstance(v, str) and "str" in ty:
            return ("str", frozenset([v]))
        return TOP

    # ------------------------------------------------------------------ transfer
    def run(self, init):
        B = self.B
        states = {0: dict(init)}
        exits = []
        self.prov = {}  # bool local -> (op, key_a, operand_b) for refinement
        for b in self.order:
            st = states.get(b)
            if st is None:
                continue  # unreachable under this partition cell
            st = dict(st)
            blk = B.blocks[b]
            for s in blk["stmts"]:
                if s["k"] == "assign":
                    self.assign(st, s)
            t = blk["term"]
            k = t["k"]
            succs = []
            if k == "return":
                exits.append(st)
            elif k == "switch":
                succs = self.switch(st, b, t)
            elif k == "call":
                self.call(st, t)
                if t["target"] is not None:
                    succs = [(t["target"], st)]
            elif k == "assert":
                c = self.operand(st, t["cond"])
                if c[0] == "bool" and (not t["expected"]) in c[1] or c == TOP:
                    self.notes.append("possible %s panic at line %s" % (t["msg"], t["line"]))
                succs = [(t["target"], st)]
            elif k in ("goto", "drop", "falseedge", "falseunwind"):
                succs = [(t["target"], st)]
            elif k == "unreachable":
                pass
            else:
                raise NotAnalysable("%s: terminator %s outside the analysable fragment" % (B.id, k))
            for tg, s2 in succs:
                if tg in B.dead:
                    continue
                states[tg] = join_state(states.get(tg), s2)
        out = None
        for e in exits:
            out = join_state(out, e)
        return out

    def assign(self, st, s):
        lhs, rv = s["lhs"], s["rv"]
        k = rv["k"]
        val = TOP
        loaded = None
        if k == "use":
            val = self.operand(st, rv["o"])
            if rv["o"]["k"] in ("copy", "move"):
                loaded = self.key_of(st, rv["o"]["p"])
        elif k == "ref":
            key = self.key_of(st, rv["p"])
            val = ("ref", key) if key is not None else TOP
            if key is None and rv["p"]["p"] == ["*"]:
                # &(*x) where x is a &str value: re-borrow keeps the value
                val = st.get(("l", rv["p"]["l"]), TOP)
        elif k == "bin":
            a, b = self.operand(st, rv["a"]), self.operand(st, rv["b"])
            op = rv["op"]
            if op in ("Lt", "Le", "Gt", "Ge", "Eq", "Ne"):
                val = cmp_vals(op, a, b)
                ka = self._loaded_key(st, rv["a"])
                if lhs["p"] == []:
                    self.prov[lhs["l"]] = (op, ka, b, self._loaded_key(st, rv["b"]))
            elif op in ("AddWithOverflow", "Add", "AddUnchecked") and a[0] == "int" and b[0] == "int":
                lo, hi = a[1] + b[1], a[2] + b[2]
                ovf = frozenset([False]) if hi <= U32MAX else (frozenset([True]) if lo > U32MAX else frozenset([True, False]))
                iv = ("int", min(lo, U32MAX), min(hi, U32MAX))
                val = ("tuple", (iv, ("bool", ovf))) if op == "AddWithOverflow" else iv
            elif op in ("SubWithOverflow", "Sub") and a[0] == "int" and b[0] == "int":
                lo, hi = a[1] - b[2], a[2] - b[1]
                ovf = frozenset([False]) if lo >= 0 else (frozenset([True]) if hi < 0 else frozenset([True, False]))
                iv = ("int", max(lo, 0), max(hi, 0))
                val = ("tuple", (iv, ("bool", ovf))) if op == "SubWithOverflow" else iv
        elif k == "agg" and rv.get("ak") == "tuple":
            # arguments of a local closure call travel as a tuple
            val = ("tuple", tuple(self.operand(st, o) for o in rv["ops"]))
        elif k == "un" and rv["op"] == "Not":
            a = self.operand(st, rv["a"])
            if a[0] == "bool":
                val = ("bool", frozenset(not x for x in a[1]))
        key = self.key_of(st, lhs)
        if key is None:
            return
        if key[0] == "t":
            return
        st[key] = val
        if key[0] == "l":
            self.loaded = getattr(self, "loaded", {})
            self.loaded[key[1]] = loaded
        # a write to a field invalidates what was loaded from it
        if key[0] == "f":
            for l, kk in list(getattr(self, "loaded", {}).items()):
                if kk == key:
                    self.loaded[l] = None

    def _loaded_key(self, st, o):
        if o["k"] not in ("copy", "move"):
            return None
        k = self.key_of(st, o["p"])
        if k is None:
            return None
        if k[0] == "f":
            return k
        if k[0] == "l":
            return getattr(self, "loaded", {}).get(k[1])
        return None

    def call(self, st, t):
        w, r = mir.callee_of(t)
        name = q.base_name(r or w or "")
        dest = self.key_of(st, t["dest"])
        args = [self.operand(st, a) for a in t["args"]]
        val = TOP

        def deref(v):
            while v and v[0] == "ref":
                v = st.get(v[1], TOP)
            return v
        if q.ends(name, "String::as_str", "Deref::deref", "deref", "as_ref", "borrow", "String::clone", "Clone::clone", "clone", "to_owned", "String::from", "From::from", "from"):
            val = deref(args[0]) if args else TOP
        elif q.ends(name, "ToString::to_string", "to_string"):
            val = deref(args[0]) if args else TOP
        elif name.endswith("PartialEq for str>::eq") or q.ends(name, "PartialEq::eq", "eq"):
            a, b = deref(args[0]), deref(args[1])
            if a[0] == "str" and b[0] == "str" and len(b[1]) == 1:
                lit = next(iter(b[1]))
                if a[1] == frozenset([lit]):
                    val = ("bool", frozenset([True]))
                elif lit not in a[1]:
                    val = ("bool", frozenset([False]))
                else:
                    val = ("bool", frozenset([True, False]))
                if t["dest"]["p"] == []:
                    self.prov[t["dest"]["l"]] = ("StrEq", self._str_key(st, t["args"][0]), b, None)
            else:
                val = ("bool", frozenset([True, False]))
        else:
            self.notes.append("call to %s treated as unknown" % name)
        if dest is not None and dest[0] != "t":
            st[dest] = val

    def _str_key(self, st, o):
        """the field a &str operand was borrowed from (through as_str / reborrows)"""
        B = self.B
        seen = 0
        while o["k"] in ("copy", "move") and seen < 8:
            seen += 1
            d = B.single_def(o["p"]["l"])
            if d is None:
                return None
            if d[2] == "assign" and d[3]["rv"]["k"] == "ref":
                p = d[3]["rv"]["p"]
                k = self.key_of(st, p)
                if k and k[0] == "f":
                    return k
                o = {"k": "copy", "p": {"l": p["l"], "p": []}}
                continue
            if d[2] == "assign" and d[3]["rv"]["k"] == "use":
                o = d[3]["rv"]["o"]
                continue
            if d[2] == "call":
                o = d[3]["args"][0]
                continue
            return None
        return None

    def switch(self, st, b, t):
        B = self.B
        d = t["d"]
        v = self.operand(st, d)
        out = []
        prov = self.prov.get(d["p"]["l"]) if d["k"] in ("copy", "move") and not d["p"]["p"] else None
        tr_t, fa_t = B.bool_edges(b)
        is_bool = all(val == 0 for val, _ in t["targets"])
        if not is_bool:
            raise NotAnalysable("%s: non-boolean switch at line %s outside the analysable fragment" % (B.id, t["line"]))
        for truth, tg in ((True, tr_t), (False, fa_t)):
            if v[0] == "bool" and truth not in v[1]:
                continue
            s2 = dict(st)
            if prov:
                self.refine(s2, prov, truth)
            out.append((tg, s2))
        return out

    def refine(self, st, prov, truth):
        op, ka, b, kb = prov
        if op == "StrEq":
            if ka is not None and st.get(ka, TOP)[0] == "str" and b[0] == "str" and len(b[1]) == 1:
                lit = next(iter(b[1]))
                cur = st[ka][1]
                st[ka] = ("str", frozenset([lit]) if truth else cur - frozenset([lit]))
            return
        if ka is None or st.get(ka, TOP)[0] != "int" or b[0] != "int":
            return
        if not truth:
            op = {"Lt": "Ge", "Ge": "Lt", "Le": "Gt", "Gt": "Le", "Eq": "Ne", "Ne": "Eq"}[op]
        _, lo, hi = st[ka]
        blo, bhi = b[1], b[2]
        if op == "Lt":
            hi = min(hi, bhi - 1)
        elif op == "Le":
            hi = min(hi, bhi)
        elif op == "Gt":
            lo = max(lo, blo + 1)
        elif op == "Ge":
            lo = max(lo, blo)
        elif op == "Eq":
            lo, hi = max(lo, blo), min(hi, bhi)
        if lo <= hi:
            st[ka] = ("int", lo, hi)


def cmp_vals(op, a, b):
    if a[0] != "int" or b[0] != "int":
        return ("bool", frozenset([True, False]))
    alo, ahi, blo, bhi = a[1], a[2], b[1], b[2]
    res = set()
    if op == "Lt":
        if alo < bhi:
            res.add(True)
        if ahi >= blo:
            res.add(False)
    elif op == "Le":
        if alo <= bhi:
            res.add(True)
        if ahi > blo:
            res.add(False)
    elif op == "Gt":
        if ahi > blo:
            res.add(True)
        if alo <= bhi:
            res.add(False)
    elif op == "Ge":
        if ahi >= blo:
            res.add(True)
        if alo < bhi:
            res.add(False)
    elif op == "Eq":
        if not (ahi < blo or bhi < alo):
            res.add(True)
        if not (alo == ahi == blo == bhi):
            res.add(False)
    elif op == "Ne":
        if not (alo == ahi == blo == bhi):
            res.add(True)
        if not (ahi < blo or bhi < alo):
            res.add(False)
    return ("bool", frozenset(res))
