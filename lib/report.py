"""Rule-instance collector, known-finding matching, evidence writer, exit codes."""
import json
import os
import time

from . import build

KNOWN = os.path.join(build.VERIF, "known_findings.jsonl")
EVID = os.environ.get("GPA_EVIDENCE_DIR") or os.path.join(build.VERIF, "evidence")


class BrokenChecker(Exception):
    """The checker (not the repository) is at fault: a positive fixture stopped matching."""


def load_known():
    out = {}
    fixed = {}
    if os.path.exists(KNOWN):
        for line in open(KNOWN):
            line = line.strip()
            if not line or line.startswith("#"):
                continue
            e = json.loads(line)
            if e.get("status") == "finding":
                out[e["key"]] = e
            else:
                fixed[e["key"]] = e
    return out, fixed


class Report:
    def __init__(self, prop, tier, F):
        self.prop = prop
        self.tier = tier
        self.F = F
        self.t0 = time.time()
        self.instances = []   # dicts
        self.observations = []
        self.not_decided = []
        self.assumptions = []
        self.rules = {}       # rule id -> description
        self.functions = set()
        self.tables = {}
        self.explanation = ""
        self._ord = {}

    # -- declaring
    def rule(self, rid, text):
        self.rules[rid] = text

    def touched(self, *fids):
        for f in fids:
            if f:
                self.functions.add(f)

    def key(self, rule, fn, construct):
        base = "%s:%s:%s" % (rule, fn, construct)
        n = self._ord.get(base, 0)
        self._ord[base] = n + 1
        return "%s:%d" % (base, n)

    def ok(self, rule, key, where, detail, nontrivial=True, witness=None):
        self.instances.append({"rule": rule, "key": key, "ok": True, "where": where, "detail": detail,
                               "nontrivial": nontrivial, "witness": witness})

    def fail(self, rule, key, where, detail, witness=None):
        self.instances.append({"rule": rule, "key": key, "ok": False, "where": where, "detail": detail,
                               "nontrivial": True, "witness": witness})

    def check(self, cond, rule, key, where, detail_ok, detail_fail=None, witness=None):
        if cond:
            self.ok(rule, key, where, detail_ok, witness=witness)
        else:
            self.fail(rule, key, where, detail_fail or ("NOT: " + detail_ok), witness=witness)
        return cond

    def anchor(self, fid, rule):
        """fetch a function (body for async fns) or record anchor-missing"""
        f = self.F.body_of(fid)
        if f is None:
            self.fail(rule, "%s:anchor-missing:%s" % (rule, fid), "-", "anchor-missing=%s: the mechanism the "
                      "property relies on is no longer where it was; refusing to pass vacuously" % fid)
            return None
        self.functions.add(f["id"])
        return f

    def floor(self, rule, found, expected, what):
        n = len(found) if not isinstance(found, int) else found
        if n < expected:
            self.fail(rule + ".floor", "%s.floor:%s" % (rule, what), "-",
                      "floor: expected>=%d found=%d (%s)" % (expected, n, what))
        else:
            self.ok(rule + ".floor", "%s.floor:%s" % (rule, what), "-",
                    "%d instance(s) of %s (reviewed reference: %d)" % (n, what, expected), nontrivial=False)

    def observe(self, text):
        self.observations.append(text)

    # -- finishing
    def finish(self):
        known, fixed = load_known()
        viol = []
        kf = []
        for i in self.instances:
            if i["ok"]:
                continue
            if i["key"] in known and known[i["key"]].get("property") == self.prop:
                i["known"] = True
                kf.append(i)
            else:
                viol.append(i)
        os.makedirs(os.path.join(EVID, "replay"), exist_ok=True)
        # stale replay files of this property
        for f in os.listdir(os.path.join(EVID, "replay")):
            if f.startswith(self.prop + "-"):
                os.unlink(os.path.join(EVID, "replay", f))
        lines = []
        for i in kf:
            lines.append("KNOWN-FINDING: property=%s %s %s (%s)" % (self.prop, i["key"], i["detail"], i["where"]))
        for n, i in enumerate(viol):
            rp = os.path.join(EVID, "replay", "%s-%d.json" % (self.prop, n))
            with open(rp, "w") as f:
                json.dump({"property": self.prop, "rule": i["rule"], "rule_text": self.rules.get(i["rule"].split(".floor")[0], ""),
                           "key": i["key"], "where": i["where"], "detail": i["detail"], "witness": i["witness"],
                           "replay": "cd /verif && ./verif check %s --tier %s" % (self.prop, self.tier)}, f, indent=1)
            lines.append("VIOLATION property=%s replay=%s" % (self.prop, rp))
            lines.append("  rule=%s key=%s at %s: %s" % (i["rule"], i["key"], i["where"], i["detail"]))
            if i["witness"]:
                lines.append("  witness: %s" % (i["witness"],))
        evaluated = len(self.instances)
        distinct = len({i["key"] for i in self.instances if i["nontrivial"]})
        samples = []
        per_rule = {}
        for i in self.instances:
            per_rule.setdefault(i["rule"], []).append(i)
        for r, lst in sorted(per_rule.items()):
            for i in lst[:3]:
                samples.append({"rule": r, "key": i["key"], "where": i["where"],
                                "verdict": "holds" if i["ok"] else ("known-finding" if i.get("known") else "VIOLATION"),
                                "detail": i["detail"], "witness": i["witness"]})
        ev = {
            "property_id": self.prop,
            "tier": self.tier,
            "seed": int(os.environ.get("VERIF_SEED", "0") or 0),
            "level": "other",
            "coverage": {
                "explanation": self.explanation,
                "evaluations": evaluated,
                "distinct_nontrivial": distinct,
                "rule": "one evaluation = one rule instance (function x call site / path / table row / obligation) "
                        "decided on the facts extracted from /repo's current working tree; an instance is "
                        "non-trivial when it carries a path, provenance chain or table-row obligation (floors and "
                        "fixture sanity rows are counted as trivial); distinct = distinct instance keys",
                "samples": samples,
                "rules": self.rules,
                "instances_per_rule": {r: len(l) for r, l in sorted(per_rule.items())},
                "all_instances": [{"key": i["key"], "where": i["where"], "ok": i["ok"], "detail": i["detail"]}
                                  for i in self.instances],
                "functions_analysed": sorted(self.functions),
                "tables": self.tables,
                "observations": self.observations,
                "not_decided": self.not_decided,
                "known_findings_matched": [i["key"] for i in kf],
                "facts": os.path.basename(self.F.dir),
                "exhaustive": True,
            },
            "assumptions": self.assumptions,
            "wall_s": round(time.time() - self.t0, 3),
            "violations": len(viol),
        }
        with open(os.path.join(EVID, self.prop + ".json"), "w") as f:
            json.dump(ev, f, indent=1)
        for l in lines:
            print(l)
        print("%s [%s]: %d rule instances over %d functions; %d violation(s), %d known finding(s); %.1fs" % (
            self.prop, self.tier, evaluated, len(self.functions), len(viol), len(kf), time.time() - self.t0))
        return 1 if viol else 0
