"""Engine B: clang typed AST + record layouts of linux-ebpf/ebpf_cgroup.c -> <facts>/ebpf.json.

The unmodified C file is parsed with three small stand-in headers (cstubs/) for the libbpf headers that are not installed;
<linux/bpf.h> is the real UAPI header. Nothing is compiled to BPF and nothing is executed.
"""
import json
import os
import re
import subprocess

HERE = os.path.dirname(os.path.dirname(os.path.abspath(__file__)))
KEEP = ("kind", "name", "opcode", "value", "isArrow", "castKind", "valueCategory", "isPostfix", "tagUsed")


def simplify(node):
    out = {k: node[k] for k in KEEP if k in node}
    if "type" in node and isinstance(node["type"], dict):
        out["type"] = node["type"].get("qualType")
    if "referencedDecl" in node:
        out["ref"] = node["referencedDecl"].get("name")
        out["refKind"] = node["referencedDecl"].get("kind")
    if "referencedMemberDecl" in node:
        out["member_id"] = node["referencedMemberDecl"]
    rng = node.get("range", {}).get("begin", {})
    line = rng.get("line") or rng.get("spellingLoc", {}).get("line") or rng.get("expansionLoc", {}).get("line")
    if line:
        out["line"] = line
    if node.get("kind") == "IfStmt":
        out["hasElse"] = bool(node.get("hasElse"))
    inner = [simplify(c) for c in node.get("inner", []) if isinstance(c, dict) and c.get("kind")]
    if inner:
        out["inner"] = inner
    return out


def fix_lines(node, cur=None):
    """clang's JSON omits `line` when unchanged from the previous node: propagate"""
    if "line" in node:
        cur = node["line"]
    elif cur is not None:
        node["line"] = cur
    for c in node.get("inner", []):
        cur = fix_lines(c, cur) or cur
    return cur


def extract(repo, fdir):
    src = os.path.join(repo, "linux-ebpf", "ebpf_cgroup.c")
    if not os.path.exists(src):
        return
    base = ["clang", "-fsyntax-only", "-w", "-I" + os.path.join(HERE, "cstubs"), "-I/usr/include/x86_64-linux-gnu", src]
    r = subprocess.run(base + ["-Xclang", "-ast-dump=json"], stdout=subprocess.PIPE, stderr=subprocess.PIPE)
    if r.returncode != 0:
        raise RuntimeError("clang failed on ebpf_cgroup.c:\n" + r.stderr.decode(errors="replace")[-3000:])
    ast = json.loads(r.stdout.decode())
    r2 = subprocess.run(base + ["-Xclang", "-fdump-record-layouts"], stdout=subprocess.PIPE, stderr=subprocess.PIPE)
    layouts = parse_layouts(r2.stdout.decode(errors="replace"))
    funcs, maps, programs, typedefs = {}, {}, {}, {}
    in_repo = False
    cur_file = None
    for d in ast.get("inner", []):
        loc = d.get("loc", {})
        f = loc.get("file") or loc.get("spellingLoc", {}).get("file") or loc.get("expansionLoc", {}).get("file")
        if f:
            cur_file = f
        inc = loc.get("includedFrom", {}).get("file")
        here = cur_file and ("linux-ebpf" in cur_file)
        if d.get("kind") == "TypedefDecl" and here:
            typedefs[d["name"]] = d.get("type", {}).get("qualType")
        if d.get("kind") == "FunctionDecl" and here and any(c.get("kind") == "CompoundStmt" for c in d.get("inner", [])):
            s = simplify(d)
            fix_lines(s)
            sec = [c for c in d.get("inner", []) if c.get("kind") == "SectionAttr"]
            funcs[d["name"]] = s
            if sec:
                programs[d["name"]] = section_of(src, d)
        if d.get("kind") == "VarDecl" and here:
            sec = [c for c in d.get("inner", []) if c.get("kind") == "SectionAttr"]
            if sec and d.get("name") != "_license":
                maps[d["name"]] = {"type": d.get("type", {}).get("qualType")}
    # map definitions: anonymous records declared just before the VarDecl
    recs = [d for d in ast.get("inner", []) if d.get("kind") == "RecordDecl"]
    anon = {}
    for d in recs:
        flds = {c["name"]: c.get("type", {}).get("qualType") for c in d.get("inner", []) if c.get("kind") == "FieldDecl" and "name" in c}
        if set(flds) >= {"type", "key", "value", "max_entries"}:
            anon[d["id"]] = flds
    # pair by order: the i-th such record belongs to the i-th map variable
    for (name, m), flds in zip(sorted(maps.items(), key=lambda kv: list(maps).index(kv[0])), anon.values()):
        m["key"] = flds["key"].rstrip(" *").strip()
        m["value"] = flds["value"].rstrip(" *").strip()
        mm = re.search(r"\[(\d+)\]", flds["max_entries"])
        m["max_entries"] = int(mm.group(1)) if mm else None
        mt = re.search(r"\[(\d+)\]", flds["type"])
        m["map_type"] = int(mt.group(1)) if mt else None
    # program sections: SEC("..") immediately before `int name(` / `int BPF_KPROBE(name,`
    text = open(src).read()
    for m in re.finditer(r'SEC\("([^"]+)"\)\s*\n\s*int\s+(?:BPF_KPROBE\(\s*)?(\w+)', text):
        if m.group(2) in funcs:
            programs[m.group(2)] = m.group(1)
    for m_ in maps.values():
        for k in ("key", "value"):
            if k in m_ and m_[k].startswith("typeof(") and m_[k].endswith(")"):
                m_[k] = m_[k][7:-1]
    out = {"functions": funcs, "maps": maps, "programs": programs, "typedefs": typedefs, "layouts": layouts, "source": src}
    with open(os.path.join(fdir, "ebpf.json"), "w") as f:
        json.dump(out, f)


def section_of(src, decl):
    """SEC("...") string of a function: read from the source line above the declaration"""
    line = decl.get("loc", {}).get("line") or decl.get("loc", {}).get("expansionLoc", {}).get("line") or decl.get("range", {}).get("begin", {}).get("expansionLoc", {}).get("line")
    try:
        lines = open(src).read().splitlines()
    except OSError:
        return None
    if line:
        for l in range(line - 1, max(line - 4, 0), -1):
            m = re.search(r'SEC\("([^"]+)"\)', lines[l - 1] if l - 1 < len(lines) else "")
            if m:
                return m.group(1)
    return None


def parse_layouts(text):
    out = {}
    blocks = text.split("*** Dumping AST Record Layout")
    for b in blocks:
        lines = [l for l in b.splitlines() if "|" in l]
        if not lines:
            continue
        head = lines[0].split("|", 1)[1].strip()
        m = re.match(r"(struct|union) (\S+)", head)
        if not m or "anonymous" in head:
            continue
        name = m.group(2)
        fields = []
        size = None
        base_indent = None
        for l in lines[1:]:
            off, rest = l.split("|", 1)
            if "sizeof=" in rest:
                sm = re.search(r"sizeof=(\d+)", rest)
                size = int(sm.group(1))
                continue
            indent = len(rest) - len(rest.lstrip(" "))
            if base_indent is None:
                base_indent = indent
            off = off.strip()
            if not off or ":" in off:
                continue
            txt = rest.strip()
            parts = txt.rsplit(" ", 1)
            if len(parts) == 2:
                fields.append({"offset": int(off), "type": parts[0], "name": parts[1], "depth": (indent - base_indent) // 2})
        out[name] = {"size": size, "fields": fields}
    return out


if __name__ == "__main__":
    import sys
    extract(sys.argv[1], sys.argv[2])
