"""Field-read sets: which fields of a parameter (default `self`) can a function's result or control flow depend on.
Syntactic over every operand/place read in the body (not only the returned value), helpers expanded through their parameters.
Paths are normalised (variant markers and the positional field after them dropped): authorizationRules.imds.mode"""
from . import mir, q


def _norm(path):
    out = []
    skip = False
    for e in path:
        if e.startswith("@"):
            skip = True
            continue
        if skip and e.isdigit():
            skip = False
            continue
        skip = False
        out.append(e)
    return tuple(out)


def _places(B):
    for blk in B.blocks:
        if blk["cleanup"]:
            continue
        for s in blk["stmts"]:
            if s["k"] != "assign":
                continue
            rv = s["rv"]
            if rv["k"] in ("ref", "discr", "len", "addr") and "p" in rv:
                yield {"k": "copy", "p": rv["p"]}
            for o in q._ops(rv):
                yield o
        t = blk["term"]
        if t["k"] == "call":
            for a in t["args"]:
                yield a
        elif t["k"] == "switch":
            yield t["discr"] if "discr" in t else t.get("o", {"k": "const"})


def reads(F, fid, param="self", depth=3, _seen=()):
    """set of normalised field paths of `param` read (maximal paths only: pure navigation prefixes are dropped)"""
    fn = F.fns.get(fid)
    if fn is None or fid in _seen:
        return set()
    B = mir.Body(fn, F)
    raw = set()
    for o in _places(B):
        if not isinstance(o, dict) or o.get("k") not in ("copy", "move"):
            continue
        for org in B.origins(o):
            if org[0] == "param" and org[1] == param:
                raw.add(_norm(org[2]))
    # helpers: a path handed to a workspace function is extended by what that function reads of the parameter
    if depth > 0:
        for bi, w, r, t in B.calls:
            if w == mir.POLL:
                continue
            callee = r or w
            cfn = F.fns.get(callee)
            if cfn is None or cfn["kind"] not in ("Fn", "AssocFn"):
                continue
            Bc = mir.Body(cfn, F)
            for i, a in enumerate(t["args"]):
                if a.get("k") not in ("copy", "move") or i + 1 >= len(Bc.locals):
                    continue
                pname = Bc.locals[i + 1].get("name") or (i + 1)
                base = {_norm(org[2]) for org in B.origins(a) if org[0] == "param" and org[1] == param}
                if not base:
                    continue
                sub = reads(F, callee, pname, depth - 1, _seen + (fid,))
                for b_ in base:
                    for s_ in sub:
                        raw.add(b_ + s_)
    raw.discard(())
    return {p for p in raw if not any(o != p and o[:len(p)] == p for o in raw)}
