"""MIR-level inlining of small synchronous workspace helpers into a caller body (facts JSON -> facts JSON).

Purpose: rules that inventory what a handler does to a value (header mutations on the forwarded request, ...) should see the same
thing whether a step is written in place or extracted into a helper that receives `&mut` of the value. The inlined body is a normal
facts function: callee locals/blocks/promoteds are appended and renumbered, arguments become assignments to the callee's parameter
locals, `return` becomes `dest = _0'; goto <continuation>`. Only used for analysis; nothing is executed."""
import copy

from . import mir


def _place(p, dl):
    q = {"l": p["l"] + dl, "p": []}
    for e in p["p"]:
        if isinstance(e, dict) and "i" in e:
            e = dict(e, i=e["i"] + dl)
        q["p"].append(e)
    return q


def _operand(o, dl, dp):
    if not isinstance(o, dict):
        return o
    if o.get("k") in ("copy", "move"):
        return dict(o, p=_place(o["p"], dl))
    if "promoted" in o:
        return dict(o, promoted=o["promoted"] + dp)
    return o


def _rvalue(rv, dl, dp):
    rv = dict(rv)
    k = rv["k"]
    if k in ("ref", "discr") or (k not in ("use", "cast", "repeat", "agg", "bin", "un") and "p" in rv):
        rv["p"] = _place(rv["p"], dl)
    if k in ("use", "cast", "repeat"):
        rv["o"] = _operand(rv["o"], dl, dp)
    elif k == "agg":
        rv["ops"] = [_operand(o, dl, dp) for o in rv["ops"]]
    elif k == "bin":
        rv["a"] = _operand(rv["a"], dl, dp)
        rv["b"] = _operand(rv["b"], dl, dp)
    elif k == "un":
        rv["a"] = _operand(rv["a"], dl, dp)
    return rv


def inline_calls(F, fn, pred, max_rounds=3, max_blocks=400):
    """pred(callee_id, callee_fn, call_term) -> bool. Returns (new_fn, [inlined callee ids])."""
    fn = copy.deepcopy(fn)
    done = []
    for _ in range(max_rounds):
        changed = False
        for bi in range(len(fn["blocks"])):
            blk = fn["blocks"][bi]
            t = blk["term"]
            if t["k"] != "call":
                continue
            w, r = mir.callee_of(t)
            cid = r or w
            cf = F.fns.get(cid)
            if cf is None or cf.get("is_async") or cf["kind"] not in ("Fn", "AssocFn") or cid == fn["id"] or cid in done and done.count(cid) > 4:
                continue
            if len(cf["blocks"]) > max_blocks or not pred(cid, cf, t):
                continue
            dl, db, dp = len(fn["locals"]), len(fn["blocks"]), len(fn.get("promoted", []))
            short = cid.rsplit("::", 1)[-1]
            for l in cf["locals"]:
                l2 = dict(l)
                if l2.get("name"):
                    l2["name"] = "<%s>%s" % (short, l2["name"])
                fn["locals"].append(l2)
            fn.setdefault("promoted", [])
            fn["promoted"] += copy.deepcopy(cf.get("promoted", []))
            cont, unwind = t.get("target"), t.get("unwind")
            for cb in copy.deepcopy(cf["blocks"]):
                nb = {"cleanup": cb["cleanup"], "stmts": [], "term": None}
                for s in cb["stmts"]:
                    s2 = dict(s)
                    s2["lhs"] = _place(s["lhs"], dl)
                    s2["rv"] = _rvalue(s["rv"], dl, dp)
                    nb["stmts"].append(s2)
                ct = dict(cb["term"])
                k = ct["k"]
                for key in ("target", "unwind", "imaginary", "drop"):
                    if isinstance(ct.get(key), int):
                        ct[key] = ct[key] + db
                if k == "call":
                    ct["args"] = [_operand(a, dl, dp) for a in ct["args"]]
                    ct["dest"] = _place(ct["dest"], dl)
                    if ct["f"].get("k") in ("copy", "move"):
                        ct["f"] = _operand(ct["f"], dl, dp)
                elif k == "switch":
                    ct["d"] = _operand(ct["d"], dl, dp)
                    ct["targets"] = [[v, tg + db] for v, tg in ct["targets"]]
                    if isinstance(ct.get("otherwise"), int):
                        ct["otherwise"] = ct["otherwise"] + db
                elif k == "drop":
                    ct["p"] = _place(ct["p"], dl)
                elif k == "assert":
                    ct["cond"] = _operand(ct["cond"], dl, dp)
                    if ct.get("ops"):
                        ct["ops"] = [_operand(a, dl, dp) for a in ct["ops"]]
                elif k == "return":
                    nb["stmts"].append({"k": "assign", "lhs": t["dest"], "rv": {"k": "use", "o": {"k": "move", "p": {"l": dl, "p": []}}},
                                        "line": ct.get("line"), "exp": None})
                    if cont is None:
                        ct = dict(ct, k="unreachable")
                    else:
                        ct = {"k": "goto", "target": cont, "file": ct.get("file"), "line": ct.get("line"), "exp": None}
                elif k == "resume":
                    if unwind is not None and isinstance(unwind, int):
                        ct = {"k": "goto", "target": unwind, "file": ct.get("file"), "line": ct.get("line"), "exp": None}
                nb["term"] = ct
                fn["blocks"].append(nb)
            # what each way out of the callee returned (Ok / Err / Some / None), for path-sensitive queries on the caller (mir.Body._ps)
            sites = {}
            VAR = {"Ok": 0, "Err": 1, "None": 0, "Some": 1}
            for j in range(db, len(fn["blocks"])):
                nb = fn["blocks"][j]
                for s in nb["stmts"]:
                    if s["lhs"]["l"] == dl and not s["lhs"]["p"] and s["rv"]["k"] == "agg" and s["rv"].get("variant") in VAR:
                        sites[j] = VAR[s["rv"]["variant"]]
                ct = nb["term"]
                if ct["k"] == "call" and ct["dest"]["l"] == dl and not ct["dest"]["p"]:
                    w2, r2 = mir.callee_of(ct)
                    if str(r2 or w2).endswith("from_residual") and isinstance(ct.get("target"), int):
                        sites[ct["target"]] = 1
            fn.setdefault("inlined", []).append({"callee": cid, "entry": db, "dest_local": t["dest"]["l"] if not t["dest"]["p"] else None,
                                                 "sites": sites})
            # the call site: bind arguments, jump into the callee
            for i, a in enumerate(t["args"]):
                blk["stmts"].append({"k": "assign", "lhs": {"l": dl + 1 + i, "p": []}, "rv": {"k": "use", "o": a}, "line": t.get("line"), "exp": None})
            blk["term"] = {"k": "goto", "target": db, "file": t.get("file"), "line": t.get("line"), "exp": None}
            done.append(cid)
            changed = True
        if not changed:
            break
    return fn, done


def takes_mut_of(type_fragments):
    """predicate: some parameter of the callee is a `&mut` of a type containing one of the fragments"""
    def pred(cid, cf, term):
        for i in range(1, cf["arg_count"] + 1):
            ty = str(cf["locals"][i].get("ty", ""))
            if ty.startswith("&mut ") and any(f in ty for f in type_fragments):
                return True
        return False
    return pred


def with_request_helpers(F, fn):
    """the handler body with helpers that receive `&mut` of a request / header map analysed in place"""
    new, _ = inline_calls(F, fn, takes_mut_of(["http::Request<", "HeaderMap"]))
    return new


# ----------------------------------------------------------------------------------------
# helpers that did not exist when the rules were confirmed are analysed in place (sync and `async fn` awaited at once)

def _splice(fn, body, short, mp_place, dp, on_return, unwind):
    """append body's blocks to fn with places mapped by mp_place and block ids shifted; `return` blocks become on_return(term) ->
    (extra statements, new terminator). Returns the new entry block id."""
    db = len(fn["blocks"])

    def mo(o):
        if not isinstance(o, dict):
            return o
        if o.get("k") in ("copy", "move"):
            return dict(o, p=mp_place(o["p"]))
        if "promoted" in o:
            return dict(o, promoted=o["promoted"] + dp)
        return o

    def mrv(rv):
        rv = dict(rv)
        k = rv["k"]
        if k in ("ref", "discr") or (k not in ("use", "cast", "repeat", "agg", "bin", "un") and "p" in rv):
            rv["p"] = mp_place(rv["p"])
        if k in ("use", "cast", "repeat"):
            rv["o"] = mo(rv["o"])
        elif k == "agg":
            rv["ops"] = [mo(o) for o in rv["ops"]]
        elif k == "bin":
            rv["a"], rv["b"] = mo(rv["a"]), mo(rv["b"])
        elif k == "un":
            rv["a"] = mo(rv["a"])
        return rv

    for cb in copy.deepcopy(body["blocks"]):
        nb = {"cleanup": cb["cleanup"], "stmts": [], "term": None}
        for st in cb["stmts"]:
            s2 = dict(st)
            if st["k"] == "assign":
                s2["lhs"] = mp_place(st["lhs"])
                s2["rv"] = mrv(st["rv"])
            nb["stmts"].append(s2)
        ct = dict(cb["term"])
        k = ct["k"]
        for key in ("target", "unwind", "imaginary", "drop"):
            if isinstance(ct.get(key), int) and not isinstance(ct.get(key), bool):
                ct[key] = ct[key] + db
        if k == "call":
            ct["args"] = [mo(a) for a in ct["args"]]
            ct["dest"] = mp_place(ct["dest"])
            if ct["f"].get("k") in ("copy", "move"):
                ct["f"] = mo(ct["f"])
        elif k == "switch":
            ct["d"] = mo(ct["d"])
            ct["targets"] = [[v, tg + db] for v, tg in ct["targets"]]
            if isinstance(ct.get("otherwise"), int):
                ct["otherwise"] = ct["otherwise"] + db
        elif k == "drop":
            ct["p"] = mp_place(ct["p"])
        elif k == "assert":
            ct["cond"] = mo(ct["cond"])
            if ct.get("ops"):
                ct["ops"] = [mo(a) for a in ct["ops"]]
        elif k == "yield":
            ct["value"] = mo(ct["value"])
            if isinstance(ct.get("resume_arg"), dict):
                ct["resume_arg"] = mp_place(ct["resume_arg"])
        elif k == "return":
            extra, ct = on_return(ct)
            nb["stmts"] += extra
        elif k == "resume":
            if isinstance(unwind, int):
                ct = {"k": "goto", "target": unwind, "file": ct.get("file"), "line": ct.get("line"), "exp": None}
        nb["term"] = ct
        fn["blocks"].append(nb)
    return db


def inline_async_call(F, fn, bi, cid, cf):
    """the call at block bi creates the future of `async fn cid`, awaited at once: run the coroutine body where the future is polled.
    Returns True when the caller was rewritten."""
    B = mir.Body(fn, F)
    aw = B.await_of(bi)
    body = F.fns.get(cid + "::{closure#0}")
    if aw is None or body is None:
        return False
    pb, pd = aw
    t = fn["blocks"][bi]["term"]
    pt = fn["blocks"][pb]["term"]
    if pt["k"] != "call" or not isinstance(pt.get("target"), int):
        return False
    short = cid.rsplit("::", 1)[-1]
    dl, dp = len(fn["locals"]), len(fn.get("promoted", []))
    for l in body["locals"]:
        l2 = dict(l)
        if l2.get("name"):
            l2["name"] = "<%s>%s" % (short, l2["name"])
        fn["locals"].append(l2)
    fn.setdefault("promoted", [])
    fn["promoted"] += copy.deepcopy(body.get("promoted", []))
    # one local per argument: the coroutine reads its captured arguments as fields of _1
    abase = len(fn["locals"])
    for i, a in enumerate(t["args"]):
        pl = cf["locals"][i + 1] if i + 1 < len(cf["locals"]) else {"ty": "?"}
        fn["locals"].append({"ty": pl.get("ty", "?"), "name": "<%s>%s" % (short, pl.get("name") or "arg%d" % i)})
        fn["blocks"][bi]["stmts"].append({"k": "assign", "lhs": {"l": abase + i, "p": []}, "rv": {"k": "use", "o": a}, "line": t.get("line"), "exp": None})
    nargs = len(t["args"])

    def mp(p):
        if p["l"] == 1 and p["p"] and isinstance(p["p"][0], dict) and "f" in p["p"][0] and p["p"][0]["f"] < nargs:
            base, rest = abase + p["p"][0]["f"], p["p"][1:]
        else:
            base, rest = p["l"] + dl, p["p"]
        q_ = {"l": base, "p": []}
        for e in rest:
            if isinstance(e, dict) and "i" in e:
                e = dict(e, i=e["i"] + dl)
            q_["p"].append(e)
        return q_

    cont = pt["target"]

    def on_return(ct):
        st = {"k": "assign", "lhs": {"l": pd, "p": []},
              "rv": {"k": "agg", "ak": "adt", "adt": "std::task::Poll", "variant": "Ready", "fields": ["0"], "ops": [{"k": "move", "p": {"l": dl, "p": []}}]},
              "line": ct.get("line"), "exp": None}
        return [st], {"k": "goto", "target": cont, "file": ct.get("file"), "line": ct.get("line"), "exp": None}

    entry = _splice(fn, body, short, mp, dp, on_return, pt.get("unwind"))
    fn["blocks"][pb]["term"] = {"k": "goto", "target": entry, "file": pt.get("file"), "line": pt.get("line"), "exp": pt.get("exp")}
    # the future is complete when the body returns: the Pending arm of the await's match is dead
    cb = fn["blocks"][cont]
    ctm = cb["term"]
    if ctm["k"] == "switch":
        ready = [tg for v, tg in ctm["targets"] if v == mir.STD_VARIANTS["Ready"]]
        d = ctm["d"]
        is_discr_of_pd = False
        if d.get("k") in ("copy", "move"):
            for st in cb["stmts"]:
                if st["k"] == "assign" and st["lhs"] == d["p"] and st["rv"]["k"] == "discr" and st["rv"]["p"]["l"] == pd:
                    is_discr_of_pd = True
        if ready and is_discr_of_pd:
            cb["term"] = {"k": "goto", "target": ready[0], "file": ctm.get("file"), "line": ctm.get("line"), "exp": ctm.get("exp")}
    # the creating call itself is gone (its result is only the future polled above)
    fn["blocks"][bi]["term"] = {"k": "goto", "target": t["target"], "file": t.get("file"), "line": t.get("line"), "exp": None} if isinstance(t.get("target"), int) else t
    fn.setdefault("inlined", []).append({"callee": cid, "entry": entry, "dest_local": None, "sites": {}, "async": True})
    return True


def _devirtualise(F, fn):
    """after arguments are bound, a call through a local that can only hold one function item is a call of that function"""
    B = mir.Body(fn, F)
    for b in fn["blocks"]:
        t = b["term"]
        if t["k"] == "call" and t["f"].get("k") in ("copy", "move"):
            org = B.origins(t["f"])
            if len(org) == 1:
                o = next(iter(org))
                if o[0] == "fnitem":
                    t["f"] = {"k": "const", "ty": "fn item (devirtualised)", "fn": o[1], "fnargs": [], "resolved": o[1]}


def inline_new_helpers(F, known, crates):
    """rewrite F.fns in place: every call of a free / inherent function that is not in `known` (the function ids of the tree the rules
    were confirmed on) is analysed in place in its caller; helpers with no call left are dropped from the view. Returns the report."""
    new = {fid for fid, f in F.fns.items() if f["kind"] in ("Fn", "AssocFn") and f.get("crate") in crates and fid not in known and not fid.startswith("<")}
    rep = {"new": sorted(new), "inlined": [], "kept": []}
    if not new:
        return rep
    sync_pred = lambda cid, cf, t: cid in new
    for _ in range(4):
        changed = False
        for fid in list(F.fns):
            fn = F.fns[fid]
            calls = [(bi, (mir.callee_of(b["term"])[1] or mir.callee_of(b["term"])[0])) for bi, b in enumerate(fn["blocks"]) if b["term"]["k"] == "call"]
            hit = [(bi, c) for bi, c in calls if c in new and c != fid and not fid.startswith(c + "::")]
            if not hit:
                continue
            cur = fn
            if any(not F.fns[c].get("is_async") for _, c in hit):
                cur, done = inline_calls(F, cur, sync_pred, max_rounds=1)
                for c in done:
                    rep["inlined"].append((fid, c))
                    changed = True
            else:
                cur = copy.deepcopy(cur)
            for bi, c in hit:
                cf = F.fns[c]
                if cf.get("is_async") and cur["blocks"][bi]["term"]["k"] == "call":
                    if inline_async_call(F, cur, bi, c, cf):
                        rep["inlined"].append((fid, c))
                        changed = True
            cur["crate"] = fn.get("crate")
            _devirtualise(F, cur)
            F.fns[fid] = cur
        if not changed:
            break
    # drop helpers nobody calls any more
    still = set()
    for fid, fn in F.fns.items():
        for b in fn["blocks"]:
            if b["term"]["k"] == "call":
                w, r = mir.callee_of(b["term"])
                c = r or w
                if c in new and fid != c and not fid.startswith(c + "::"):
                    still.add(c)
    for c in sorted(new):
        if c in still or not any(x[1] == c for x in rep["inlined"]):
            rep["kept"].append(c)
            continue
        f = F.fns.pop(c, None)
        if f is not None and f.get("is_async"):
            F.fns.pop(c + "::{closure#0}", None)
    return rep
