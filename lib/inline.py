"""MIR-level inlining of small synchronous workspace helpers into a caller body (facts JSON -> facts JSON).

Purpose: rules that inventory what a handler does to a value (header mutations on the forwarded request, ...) should see the same
thing whether a step is written in place or extracted into a helper that receives `&mut` of the value. The inlined body is a normal
facts function: callee locals/blocks/promoteds are appended and renumbered, arguments become assignments to the callee's parameter
locals, `return` becomes `dest = _0'; goto <continuation>`. Only used for analysis; nothing is executed."""
import copy

from . import mir


def _place(p, dl):
    q = {"l": p["l"] + dl, "p": []}
    for e in p["p"]:
        if isinstance(e, dict) and "i" in e:
            e = dict(e, i=e["i"] + dl)
        q["p"].append(e)
    return q


def _operand(o, dl, dp):
    if not isinstance(o, dict):
        return o
    if o.get("k") in ("copy", "move"):
        return dict(o, p=_place(o["p"], dl))
    if "promoted" in o:
        return dict(o, promoted=o["promoted"] + dp)
    return o


def _rvalue(rv, dl, dp):
    rv = dict(rv)
    k = rv["k"]
    if k in ("ref", "discr") or (k not in ("use", "cast", "repeat", "agg", "bin", "un") and "p" in rv):
        rv["p"] = _place(rv["p"], dl)
    if k in ("use", "cast", "repeat"):
        rv["o"] = _operand(rv["o"], dl, dp)
    elif k == "agg":
        rv["ops"] = [_operand(o, dl, dp) for o in rv["ops"]]
    elif k == "bin":
        rv["a"] = _operand(rv["a"], dl, dp)
        rv["b"] = _operand(rv["b"], dl, dp)
    elif k == "un":
        rv["a"] = _operand(rv["a"], dl, dp)
    return rv


def inline_calls(F, fn, pred, max_rounds=3, max_blocks=400):
    """pred(callee_id, callee_fn, call_term) -> bool. Returns (new_fn, [inlined callee ids])."""
    fn = copy.deepcopy(fn)
    done = []
    for _ in range(max_rounds):
        changed = False
        for bi in range(len(fn["blocks"])):
            blk = fn["blocks"][bi]
            t = blk["term"]
            if t["k"] != "call":
                continue
            w, r = mir.callee_of(t)
            cid = r or w
            cf = F.fns.get(cid)
            if cf is None or cf.get("is_async") or cf["kind"] not in ("Fn", "AssocFn") or cid == fn["id"] or cid in done and done.count(cid) > 4:
                continue
            if len(cf["blocks"]) > max_blocks or not pred(cid, cf, t):
                continue
            dl, db, dp = len(fn["locals"]), len(fn["blocks"]), len(fn.get("promoted", []))
            short = cid.rsplit("::", 1)[-1]
            for l in cf["locals"]:
                l2 = dict(l)
                if l2.get("name"):
                    l2["name"] = "<%s>%s" % (short, l2["name"])
                fn["locals"].append(l2)
            fn.setdefault("promoted", [])
            fn["promoted"] += copy.deepcopy(cf.get("promoted", []))
            cont, unwind = t.get("target"), t.get("unwind")
            for cb in copy.deepcopy(cf["blocks"]):
                nb = {"cleanup": cb["cleanup"], "stmts": [], "term": None}
                for s in cb["stmts"]:
                    s2 = dict(s)
                    s2["lhs"] = _place(s["lhs"], dl)
                    s2["rv"] = _rvalue(s["rv"], dl, dp)
                    nb["stmts"].append(s2)
                ct = dict(cb["term"])
                k = ct["k"]
                for key in ("target", "unwind", "imaginary", "drop"):
                    if isinstance(ct.get(key), int):
                        ct[key] = ct[key] + db
                if k == "call":
                    ct["args"] = [_operand(a, dl, dp) for a in ct["args"]]
                    ct["dest"] = _place(ct["dest"], dl)
                    if ct["f"].get("k") in ("copy", "move"):
                        ct["f"] = _operand(ct["f"], dl, dp)
                elif k == "switch":
                    ct["d"] = _operand(ct["d"], dl, dp)
                    ct["targets"] = [[v, tg + db] for v, tg in ct["targets"]]
                    if isinstance(ct.get("otherwise"), int):
                        ct["otherwise"] = ct["otherwise"] + db
                elif k == "drop":
                    ct["p"] = _place(ct["p"], dl)
                elif k == "assert":
                    ct["cond"] = _operand(ct["cond"], dl, dp)
                    if ct.get("ops"):
                        ct["ops"] = [_operand(a, dl, dp) for a in ct["ops"]]
                elif k == "return":
                    nb["stmts"].append({"k": "assign", "lhs": t["dest"], "rv": {"k": "use", "o": {"k": "move", "p": {"l": dl, "p": []}}},
                                        "line": ct.get("line"), "exp": None})
                    if cont is None:
                        ct = dict(ct, k="unreachable")
                    else:
                        ct = {"k": "goto", "target": cont, "file": ct.get("file"), "line": ct.get("line"), "exp": None}
                elif k == "resume":
                    if unwind is not None and isinstance(unwind, int):
                        ct = {"k": "goto", "target": unwind, "file": ct.get("file"), "line": ct.get("line"), "exp": None}
                nb["term"] = ct
                fn["blocks"].append(nb)
            # what each way out of the callee returned (Ok / Err / Some / None), for path-sensitive queries on the caller (mir.Body._ps)
            sites = {}
            VAR = {"Ok": 0, "Err": 1, "None": 0, "Some": 1}
            for j in range(db, len(fn["blocks"])):
                nb = fn["blocks"][j]
                for s in nb["stmts"]:
                    if s["lhs"]["l"] == dl and not s["lhs"]["p"] and s["rv"]["k"] == "agg" and s["rv"].get("variant") in VAR:
                        sites[j] = VAR[s["rv"]["variant"]]
                ct = nb["term"]
                if ct["k"] == "call" and ct["dest"]["l"] == dl and not ct["dest"]["p"]:
                    w2, r2 = mir.callee_of(ct)
                    if str(r2 or w2).endswith("from_residual") and isinstance(ct.get("target"), int):
                        sites[ct["target"]] = 1
            fn.setdefault("inlined", []).append({"callee": cid, "entry": db, "dest_local": t["dest"]["l"] if not t["dest"]["p"] else None,
                                                 "sites": sites})
            # the call site: bind arguments, jump into the callee
            for i, a in enumerate(t["args"]):
                blk["stmts"].append({"k": "assign", "lhs": {"l": dl + 1 + i, "p": []}, "rv": {"k": "use", "o": a}, "line": t.get("line"), "exp": None})
            blk["term"] = {"k": "goto", "target": db, "file": t.get("file"), "line": t.get("line"), "exp": None}
            done.append(cid)
            changed = True
        if not changed:
            break
    return fn, done


def takes_mut_of(type_fragments):
    """predicate: some parameter of the callee is a `&mut` of a type containing one of the fragments"""
    def pred(cid, cf, term):
        for i in range(1, cf["arg_count"] + 1):
            ty = str(cf["locals"][i].get("ty", ""))
            if ty.startswith("&mut ") and any(f in ty for f in type_fragments):
                return True
        return False
    return pred


def with_request_helpers(F, fn):
    """the handler body with helpers that receive `&mut` of a request / header map analysed in place"""
    new, _ = inline_calls(F, fn, takes_mut_of(["http::Request<", "HeaderMap"]))
    return new
