"""MIR-level inlining of small synchronous workspace helpers into a caller body (facts JSON -> facts JSON).

Purpose: rules that inventory what a handler does to a value (header mutations on the forwarded request, ...) should see the same
thing whether a step is written in place or extracted into a helper that receives `&mut` of the value. The inlined body is a normal
facts function: callee locals/blocks/promoteds are appended and renumbered, arguments become assignments to the callee's parameter
locals, `return` becomes `dest = _0'; goto <continuation>`. Only used for analysis; nothing is executed."""
import copy

from . import mir


def _place(p, dl):
    q = {"l": p["l"] + dl, "p": []}
    for e in p["p"]:
        if isinstance(e, dict) and "i" in e:
            e = dict(e, i=e["i"] + dl)
        q["p"].append(e)
    return q


def _operand(o, dl, dp):
    if not isinstance(o, dict):
        return o
    if o.get("k") in ("copy", "move"):
        return dict(o, p=_place(o["p"], dl))
    if "promoted" in o:
        return dict(o, promoted=o["promoted"] + dp)
    return o


def _rvalue(rv, dl, dp):
    rv = dict(rv)
    k = rv["k"]
    if k in ("ref", "discr") or (k not in ("use", "cast", "repeat", "agg", "bin", "un") and "p" in rv):
        rv["p"] = _place(rv["p"], dl)
    if k in ("use", "cast", "repeat"):
        rv["o"] = _operand(rv["o"], dl, dp)
    elif k == "agg":
        rv["ops"] = [_operand(o, dl, dp) for o in rv["ops"]]
    elif k == "bin":
        rv["a"] = _operand(rv["a"], dl, dp)
        rv["b"] = _operand(rv["b"], dl, dp)
    elif k == "un":
        rv["a"] = _operand(rv["a"], dl, dp)
    return rv


def inline_calls(F, fn, pred, max_rounds=3, max_blocks=400, allow_closures=False):
    """pred(callee_id, callee_fn, call_term) -> bool. Returns (new_fn, [inlined callee ids])."""
    fn = copy.deepcopy(fn)
    done = []
    for _ in range(max_rounds):
        changed = False
        for bi in range(len(fn["blocks"])):
            blk = fn["blocks"][bi]
            t = blk["term"]
            if t["k"] != "call":
                continue
            w, r = mir.callee_of(t)
            cid = r or w
            cf = F.fns.get(cid)
            is_clo = cf is not None and cf["kind"] == "Closure" and allow_closures
            if cf is None or cf.get("is_async") or (cf["kind"] not in ("Fn", "AssocFn") and not is_clo) or cid == fn["id"] or cid in done and done.count(cid) > 64:
                continue
            if is_clo and (len(t["args"]) != 2 or t["args"][1].get("k") not in ("copy", "move") or t["args"][1]["p"]["p"]):
                continue
            if len(cf["blocks"]) > max_blocks or not pred(cid, cf, t):
                continue
            dl, db, dp = len(fn["locals"]), len(fn["blocks"]), len(fn.get("promoted", []))
            short = cid.rsplit("::", 1)[-1]
            for l in cf["locals"]:
                l2 = dict(l)
                if l2.get("name"):
                    l2["name"] = "<%s>%s" % (short, l2["name"])
                fn["locals"].append(l2)
            fn.setdefault("promoted", [])
            fn["promoted"] += copy.deepcopy(cf.get("promoted", []))
            cont, unwind = t.get("target"), t.get("unwind")
            for cb in copy.deepcopy(cf["blocks"]):
                nb = {"cleanup": cb["cleanup"], "stmts": [], "term": None}
                for s in cb["stmts"]:
                    s2 = dict(s)
                    s2["lhs"] = _place(s["lhs"], dl)
                    s2["rv"] = _rvalue(s["rv"], dl, dp)
                    nb["stmts"].append(s2)
                ct = dict(cb["term"])
                k = ct["k"]
                for key in ("target", "unwind", "imaginary", "drop"):
                    if isinstance(ct.get(key), int):
                        ct[key] = ct[key] + db
                if k == "call":
                    ct["args"] = [_operand(a, dl, dp) for a in ct["args"]]
                    ct["dest"] = _place(ct["dest"], dl)
                    if ct["f"].get("k") in ("copy", "move"):
                        ct["f"] = _operand(ct["f"], dl, dp)
                elif k == "switch":
                    ct["d"] = _operand(ct["d"], dl, dp)
                    ct["targets"] = [[v, tg + db] for v, tg in ct["targets"]]
                    if isinstance(ct.get("otherwise"), int):
                        ct["otherwise"] = ct["otherwise"] + db
                elif k == "drop":
                    ct["p"] = _place(ct["p"], dl)
                elif k == "assert":
                    ct["cond"] = _operand(ct["cond"], dl, dp)
                    if ct.get("ops"):
                        ct["ops"] = [_operand(a, dl, dp) for a in ct["ops"]]
                elif k == "return":
                    nb["stmts"].append({"k": "assign", "lhs": t["dest"], "rv": {"k": "use", "o": {"k": "move", "p": {"l": dl, "p": []}}},
                                        "line": ct.get("line"), "exp": None})
                    if cont is None:
                        ct = dict(ct, k="unreachable")
                    else:
                        ct = {"k": "goto", "target": cont, "file": ct.get("file"), "line": ct.get("line"), "exp": None}
                elif k == "resume":
                    if unwind is not None and isinstance(unwind, int):
                        ct = {"k": "goto", "target": unwind, "file": ct.get("file"), "line": ct.get("line"), "exp": None}
                nb["term"] = ct
                fn["blocks"].append(nb)
            # what each way out of the callee returned (Ok / Err / Some / None), for path-sensitive queries on the caller (mir.Body._ps)
            sites = {}
            VAR = {"Ok": 0, "Err": 1, "None": 0, "Some": 1}
            for j in range(db, len(fn["blocks"])):
                nb = fn["blocks"][j]
                for s in nb["stmts"]:
                    if s["lhs"]["l"] == dl and not s["lhs"]["p"] and s["rv"]["k"] == "agg" and s["rv"].get("variant") in VAR:
                        sites[j] = VAR[s["rv"]["variant"]]
                ct = nb["term"]
                if ct["k"] == "call" and ct["dest"]["l"] == dl and not ct["dest"]["p"]:
                    w2, r2 = mir.callee_of(ct)
                    if str(r2 or w2).endswith("from_residual") and isinstance(ct.get("target"), int):
                        sites[ct["target"]] = 1
            fn.setdefault("inlined", []).append({"callee": cid, "entry": db, "dest_local": t["dest"]["l"] if not t["dest"]["p"] else None,
                                                 "ret_local": dl, "sites": sites})
            # the call site: bind arguments, jump into the callee
            if is_clo:
                # closure call ABI: (environment, tuple of the arguments) - the body has the arguments spread over its locals 2..
                blk["stmts"].append({"k": "assign", "lhs": {"l": dl + 1, "p": []}, "rv": {"k": "use", "o": t["args"][0]}, "line": t.get("line"), "exp": None})
                for j in range(max(cf["arg_count"] - 1, 0)):
                    blk["stmts"].append({"k": "assign", "lhs": {"l": dl + 2 + j, "p": []},
                                         "rv": {"k": "use", "o": {"k": "copy", "p": {"l": t["args"][1]["p"]["l"], "p": [{"f": j, "n": None, "ty": "?"}]}}},
                                         "line": t.get("line"), "exp": None})
            else:
                for i, a in enumerate(t["args"]):
                    blk["stmts"].append({"k": "assign", "lhs": {"l": dl + 1 + i, "p": []}, "rv": {"k": "use", "o": a}, "line": t.get("line"), "exp": None})
            blk["term"] = {"k": "goto", "target": db, "file": t.get("file"), "line": t.get("line"), "exp": None}
            done.append(cid)
            changed = True
        if not changed:
            break
    return fn, done


def takes_mut_of(type_fragments):
    """predicate: some parameter of the callee is a `&mut` of a type containing one of the fragments"""
    def pred(cid, cf, term):
        for i in range(1, cf["arg_count"] + 1):
            ty = str(cf["locals"][i].get("ty", ""))
            if ty.startswith("&mut ") and any(f in ty for f in type_fragments):
                return True
        return False
    return pred


def with_request_helpers(F, fn):
    """the handler body with helpers that receive `&mut` of a request / header map analysed in place"""
    new, _ = inline_calls(F, fn, takes_mut_of(["http::Request<", "HeaderMap"]))
    return new


# ----------------------------------------------------------------------------------------
# helpers that did not exist when the rules were confirmed are analysed in place (sync and `async fn` awaited at once)

def _splice(fn, body, short, mp_place, dp, on_return, unwind):
    """append body's blocks to fn with places mapped by mp_place and block ids shifted; `return` blocks become on_return(term) ->
    (extra statements, new terminator). Returns the new entry block id."""
    db = len(fn["blocks"])

    def mo(o):
        if not isinstance(o, dict):
            return o
        if o.get("k") in ("copy", "move"):
            return dict(o, p=mp_place(o["p"]))
        if "promoted" in o:
            return dict(o, promoted=o["promoted"] + dp)
        return o

    def mrv(rv):
        rv = dict(rv)
        k = rv["k"]
        if k in ("ref", "discr") or (k not in ("use", "cast", "repeat", "agg", "bin", "un") and "p" in rv):
            rv["p"] = mp_place(rv["p"])
        if k in ("use", "cast", "repeat"):
            rv["o"] = mo(rv["o"])
        elif k == "agg":
            rv["ops"] = [mo(o) for o in rv["ops"]]
        elif k == "bin":
            rv["a"], rv["b"] = mo(rv["a"]), mo(rv["b"])
        elif k == "un":
            rv["a"] = mo(rv["a"])
        return rv

    for cb in copy.deepcopy(body["blocks"]):
        nb = {"cleanup": cb["cleanup"], "stmts": [], "term": None}
        for st in cb["stmts"]:
            s2 = dict(st)
            if st["k"] == "assign":
                s2["lhs"] = mp_place(st["lhs"])
                s2["rv"] = mrv(st["rv"])
            nb["stmts"].append(s2)
        ct = dict(cb["term"])
        k = ct["k"]
        for key in ("target", "unwind", "imaginary", "drop"):
            if isinstance(ct.get(key), int) and not isinstance(ct.get(key), bool):
                ct[key] = ct[key] + db
        if k == "call":
            ct["args"] = [mo(a) for a in ct["args"]]
            ct["dest"] = mp_place(ct["dest"])
            if ct["f"].get("k") in ("copy", "move"):
                ct["f"] = mo(ct["f"])
        elif k == "switch":
            ct["d"] = mo(ct["d"])
            ct["targets"] = [[v, tg + db] for v, tg in ct["targets"]]
            if isinstance(ct.get("otherwise"), int):
                ct["otherwise"] = ct["otherwise"] + db
        elif k == "drop":
            ct["p"] = mp_place(ct["p"])
        elif k == "assert":
            ct["cond"] = mo(ct["cond"])
            if ct.get("ops"):
                ct["ops"] = [mo(a) for a in ct["ops"]]
        elif k == "yield":
            ct["value"] = mo(ct["value"])
            if isinstance(ct.get("resume_arg"), dict):
                ct["resume_arg"] = mp_place(ct["resume_arg"])
        elif k == "return":
            extra, ct = on_return(ct)
            nb["stmts"] += extra
        elif k == "resume":
            if isinstance(unwind, int):
                ct = {"k": "goto", "target": unwind, "file": ct.get("file"), "line": ct.get("line"), "exp": None}
        nb["term"] = ct
        fn["blocks"].append(nb)
    return db


def inline_async_call(F, fn, bi, cid, cf):
    """the call at block bi creates the future of `async fn cid`, awaited at once: run the coroutine body where the future is polled.
    Returns True when the caller was rewritten."""
    B = mir.Body(fn, F)
    aw = B.await_of(bi)
    body = F.fns.get(cid + "::{closure#0}")
    if aw is None or body is None:
        return False
    pb, pd = aw
    t = fn["blocks"][bi]["term"]
    pt = fn["blocks"][pb]["term"]
    if pt["k"] != "call" or not isinstance(pt.get("target"), int):
        return False
    short = cid.rsplit("::", 1)[-1]
    dl, dp = len(fn["locals"]), len(fn.get("promoted", []))
    for l in body["locals"]:
        l2 = dict(l)
        if l2.get("name"):
            l2["name"] = "<%s>%s" % (short, l2["name"])
        fn["locals"].append(l2)
    fn.setdefault("promoted", [])
    fn["promoted"] += copy.deepcopy(body.get("promoted", []))
    # one local per argument: the coroutine reads its captured arguments as fields of _1
    abase = len(fn["locals"])
    for i, a in enumerate(t["args"]):
        pl = cf["locals"][i + 1] if i + 1 < len(cf["locals"]) else {"ty": "?"}
        fn["locals"].append({"ty": pl.get("ty", "?"), "name": "<%s>%s" % (short, pl.get("name") or "arg%d" % i)})
        fn["blocks"][bi]["stmts"].append({"k": "assign", "lhs": {"l": abase + i, "p": []}, "rv": {"k": "use", "o": a}, "line": t.get("line"), "exp": None})
    nargs = len(t["args"])

    def mp(p):
        if p["l"] == 1 and p["p"] and isinstance(p["p"][0], dict) and "f" in p["p"][0] and p["p"][0]["f"] < nargs:
            base, rest = abase + p["p"][0]["f"], p["p"][1:]
        else:
            base, rest = p["l"] + dl, p["p"]
        q_ = {"l": base, "p": []}
        for e in rest:
            if isinstance(e, dict) and "i" in e:
                e = dict(e, i=e["i"] + dl)
            q_["p"].append(e)
        return q_

    cont = pt["target"]
    # the awaited value gets a local of its own (so that the variant it was returned with can be followed to the caller's test of it)
    fn["locals"].append({"ty": str(body["locals"][0].get("ty", "?")), "name": None})
    payload_local = len(fn["locals"]) - 1

    def on_return(ct):
        st0 = {"k": "assign", "lhs": {"l": payload_local, "p": []}, "rv": {"k": "use", "o": {"k": "move", "p": {"l": dl, "p": []}}},
               "line": ct.get("line"), "exp": None}
        st = {"k": "assign", "lhs": {"l": pd, "p": []},
              "rv": {"k": "agg", "ak": "adt", "adt": "std::task::Poll", "variant": "Ready", "fields": ["0"], "ops": [{"k": "copy", "p": {"l": payload_local, "p": []}}]},
              "line": ct.get("line"), "exp": None}
        return [st0, st], {"k": "goto", "target": cont, "file": ct.get("file"), "line": ct.get("line"), "exp": None}

    first_new = len(fn["blocks"])
    entry = _splice(fn, body, short, mp, dp, on_return, pt.get("unwind"))
    # reads of the Ready payload become reads of that local
    def _is_payload(p_):
        return p_["l"] == pd and len(p_["p"]) >= 2 and isinstance(p_["p"][0], dict) and p_["p"][0].get("d") == "Ready" \
            and isinstance(p_["p"][1], dict) and p_["p"][1].get("f") == 0
    for b_ in fn["blocks"]:
        for st_ in b_["stmts"]:
            if st_["k"] == "assign" and st_["rv"]["k"] == "use" and st_["rv"]["o"].get("k") in ("copy", "move") and _is_payload(st_["rv"]["o"]["p"]):
                st_["rv"] = {"k": "use", "o": {"k": st_["rv"]["o"]["k"], "p": {"l": payload_local, "p": st_["rv"]["o"]["p"]["p"][2:]}}}
    sites = {}
    for j in range(first_new, len(fn["blocks"])):
        nb = fn["blocks"][j]
        for st_ in nb["stmts"]:
            if st_["k"] == "assign" and st_["lhs"]["l"] == dl and not st_["lhs"]["p"] and st_["rv"]["k"] == "agg" and st_["rv"].get("variant") in mir.STD_VARIANTS:
                sites[j] = mir.STD_VARIANTS[st_["rv"]["variant"]]
        ct_ = nb["term"]
        if ct_["k"] == "call" and ct_["dest"]["l"] == dl and not ct_["dest"]["p"]:
            w2, r2 = mir.callee_of(ct_)
            if str(r2 or w2).endswith("from_residual") and isinstance(ct_.get("target"), int):
                sites[ct_["target"]] = 1
    fn["blocks"][pb]["term"] = {"k": "goto", "target": entry, "file": pt.get("file"), "line": pt.get("line"), "exp": pt.get("exp")}
    # the future is complete when the body returns: the Pending arm of the await's match is dead
    cb = fn["blocks"][cont]
    ctm = cb["term"]
    if ctm["k"] == "switch":
        ready = [tg for v, tg in ctm["targets"] if v == mir.STD_VARIANTS["Ready"]]
        d = ctm["d"]
        is_discr_of_pd = False
        if d.get("k") in ("copy", "move"):
            for st in cb["stmts"]:
                if st["k"] == "assign" and st["lhs"] == d["p"] and st["rv"]["k"] == "discr" and st["rv"]["p"]["l"] == pd:
                    is_discr_of_pd = True
        if ready and is_discr_of_pd:
            cb["term"] = {"k": "goto", "target": ready[0], "file": ctm.get("file"), "line": ctm.get("line"), "exp": ctm.get("exp")}
    # the creating call itself is gone (its result is only the future polled above)
    fn["blocks"][bi]["term"] = {"k": "goto", "target": t["target"], "file": t.get("file"), "line": t.get("line"), "exp": None} if isinstance(t.get("target"), int) else t
    fn.setdefault("inlined", []).append({"callee": cid, "entry": entry, "dest_local": payload_local, "ret_local": dl, "sites": sites, "async": True})
    return True


def _propagate_consts(fn, first_new):
    """a local introduced by the splice (index >= first_new) whose only definition is `X = const` is replaced by the constant where
    it is read as a whole (a flag / status argument of a dissolved helper is a constant again at its uses)"""
    for _ in range(3):
        defs = {}
        for b in fn["blocks"]:
            for st in b["stmts"]:
                if st["k"] == "assign":
                    defs.setdefault(st["lhs"]["l"], []).append(st)
            t = b["term"]
            if t["k"] == "call":
                defs.setdefault(t["dest"]["l"], []).append(None)
            elif t["k"] == "yield" and isinstance(t.get("resume_arg"), dict):
                defs.setdefault(t["resume_arg"]["l"], []).append(None)
        consts = {}
        for l, ds in defs.items():
            if l >= first_new and len(ds) == 1 and ds[0] is not None and not ds[0]["lhs"]["p"] and ds[0]["rv"]["k"] == "use" \
                    and ds[0]["rv"]["o"].get("k") == "const" and "promoted" not in ds[0]["rv"]["o"]:
                consts[l] = ds[0]["rv"]["o"]
        if not consts:
            return
        changed = [False]

        def sub(o):
            if isinstance(o, dict) and o.get("k") in ("copy", "move") and not o["p"]["p"] and o["p"]["l"] in consts:
                changed[0] = True
                return dict(consts[o["p"]["l"]])
            return o
        for b in fn["blocks"]:
            for st in b["stmts"]:
                if st["k"] != "assign":
                    continue
                rv = st["rv"]
                if rv["k"] in ("use", "cast", "repeat"):
                    if not (rv["k"] == "use" and st["lhs"]["l"] in consts and not st["lhs"]["p"]):
                        rv["o"] = sub(rv["o"])
                elif rv["k"] == "agg":
                    rv["ops"] = [sub(o) for o in rv["ops"]]
                elif rv["k"] == "bin":
                    rv["a"], rv["b"] = sub(rv["a"]), sub(rv["b"])
                elif rv["k"] == "un":
                    rv["a"] = sub(rv["a"])
            t = b["term"]
            if t["k"] == "call":
                t["args"] = [sub(a) for a in t["args"]]
            elif t["k"] == "switch":
                t["d"] = sub(t["d"])
        if not changed[0]:
            return


def _devirtualise(F, fn):
    """after arguments are bound, a call through a local that can only hold one function item is a call of that function"""
    B = mir.Body(fn, F)
    for b in fn["blocks"]:
        t = b["term"]
        if t["k"] == "call" and t["f"].get("k") in ("copy", "move"):
            org = B.origins(t["f"])
            if len(org) == 1:
                o = next(iter(org))
                if o[0] == "fnitem":
                    t["f"] = {"k": "const", "ty": "fn item (devirtualised)", "fn": o[1], "fnargs": [], "resolved": o[1]}


def has_source_loop(F, fid):
    """the function's own body (its coroutine body for an async fn) has a loop other than the poll loops of `.await`"""
    fn = F.fns.get(fid)
    if fn is None:
        return False
    if fn.get("is_async") and F.fns.get(fid + "::{closure#0}"):
        fn = F.fns[fid + "::{closure#0}"]
    blocks = fn["blocks"]

    def succ(b):
        t = blocks[b]["term"]
        if t["k"] == "yield":
            return []        # the way back into the poll loop of an `.await`
        out = []
        for k in ("target", "imaginary"):
            if isinstance(t.get(k), int) and not isinstance(t.get(k), bool):
                out.append(t[k])
        if t["k"] == "switch":
            out += [tg for _, tg in t["targets"]]
            if isinstance(t.get("otherwise"), int):
                out.append(t["otherwise"])
        return out
    color = {}
    stack = [(0, iter(succ(0)))]
    color[0] = 1
    while stack:
        b, it = stack[-1]
        adv = False
        for tg in it:
            if blocks[tg]["cleanup"]:
                continue
            c = color.get(tg, 0)
            if c == 1:
                return True
            if c == 0:
                color[tg] = 1
                stack.append((tg, iter(succ(tg))))
                adv = True
                break
        if not adv:
            color[b] = 2
            stack.pop()
    return False


def inline_new_helpers(F, known, crates, keep=None):
    """rewrite F.fns in place: every call of a free / inherent function that is not in `known` (the function ids of the tree the rules
    were confirmed on) is analysed in place in its caller; helpers with no call left are dropped from the view. Returns the report.
    keep(F, fid) -> True leaves a new helper alone (a rule module that has a contract of its own for that kind of helper)."""
    new = {fid for fid, f in F.fns.items() if f["kind"] in ("Fn", "AssocFn") and f.get("crate") in crates and fid not in known and not fid.startswith("<")}
    if keep is not None:
        new = {fid for fid in new if not keep(F, fid)}
    rep = {"new": sorted(new), "inlined": [], "kept": []}
    if not new:
        return rep
    sync_pred = lambda cid, cf, t: cid in new
    for _ in range(4):
        changed = False
        for fid in list(F.fns):
            fn = F.fns[fid]
            calls = [(bi, (mir.callee_of(b["term"])[1] or mir.callee_of(b["term"])[0])) for bi, b in enumerate(fn["blocks"]) if b["term"]["k"] == "call"]
            hit = [(bi, c) for bi, c in calls if c in new and c != fid and not fid.startswith(c + "::")]
            if not hit:
                continue
            cur = fn
            n_locals0 = fn.get("_locals0", len(fn["locals"]))
            if any(not F.fns[c].get("is_async") for _, c in hit):
                cur, done = inline_calls(F, cur, sync_pred, max_rounds=1)
                for c in done:
                    rep["inlined"].append((fid, c))
                    changed = True
            else:
                cur = copy.deepcopy(cur)
            for bi, c in hit:
                cf = F.fns[c]
                if cf.get("is_async") and cur["blocks"][bi]["term"]["k"] == "call":
                    if inline_async_call(F, cur, bi, c, cf):
                        rep["inlined"].append((fid, c))
                        changed = True
            cur["crate"] = fn.get("crate")
            cur["_locals0"] = n_locals0
            _propagate_consts(cur, n_locals0)
            _devirtualise(F, cur)
            F.fns[fid] = cur
        if not changed:
            break
    # drop helpers nobody calls any more
    still = set()
    for fid, fn in F.fns.items():
        for b in fn["blocks"]:
            if b["term"]["k"] == "call":
                w, r = mir.callee_of(b["term"])
                c = r or w
                if c in new and fid != c and not fid.startswith(c + "::"):
                    still.add(c)
    for c in sorted(new):
        if c in still or not any(x[1] == c for x in rep["inlined"]):
            rep["kept"].append(c)
            continue
        f = F.fns.pop(c, None)
        body_id = c
        if f is not None and f.get("is_async"):
            F.fns.pop(c + "::{closure#0}", None)
            body_id = c + "::{closure#0}"
        # the helper's closures now belong to the function(s) it dissolved into
        callers = [x[0] for x in rep["inlined"] if x[1] == c and x[0] in F.fns]
        for k in F.fns.values():
            if k.get("parent") in (c, body_id) and callers:
                k["parent"] = callers[0]
                k["also_in"] = sorted(set(callers[1:]))
    return rep


# ----------------------------------------------------------------------------------------
# Option / Result combinators that take a closure, written out as the `match` they abbreviate (only in functions whose set of
# closures differs from the confirmed tree, and only for closures that do more than format / convert / log)
import re as _re

_OWN = ("std::option::Option::", "core::option::Option::", "std::result::Result::", "core::result::Result::")
_PURE = _re.compile(r"(fmt::format|core::fmt::|fmt::Arguments|::to_string$|::clone$|::into$|::from$|::to_owned$|hint::must_use|logger::|::as_str$"
                    r"|::as_ref$|::to_lowercase$|::borrow$|::deref$|::as_bytes$|::len$|::is_empty$|::eq$|::ne$|::to_vec$|::as_deref$|::to_str$"
                    r"|::to_string_lossy$|::display$|::unwrap_or_default$|::trim$|Error::|panicking::)")
# method -> (closure argument position, what the `full` (Some/Ok) arm yields, what the `empty` (None/Err) arm yields)
#   yields: "C(v)" closure on payload; "wrap C(v)" same, wrapped in the full variant; "v" payload; "r" the receiver unchanged;
#           "empty" the empty variant rebuilt (None / Err(e)); "wrap-empty C(e)" Err(C(e)); "C(e)" closure on the error / no argument;
#           "arg1" the (non-closure) second argument; "Ok v" / "Err C()" for ok_or_else
_TABLE = {
    "map": (1, "wrap C(v)", "empty"),
    "and_then": (1, "C(v)", "empty"),
    "map_err": (1, "r", "wrap-empty C(e)"),
    "or_else": (1, "r", "C(e)"),
    "unwrap_or_else": (1, "v", "C(e)"),
    "map_or": (2, "C(v)", "arg1"),
    "ok_or_else": (1, "Ok v", "Err C()"),
}


def _significant(F, cid):
    cf = F.fns.get(cid)
    if cf is None:
        return False
    for b in cf["blocks"]:
        t = b["term"]
        if t["k"] == "call":
            w, r = mir.callee_of(t)
            if not _PURE.search(mir.norm(r or w or "?")):
                return True
    return False


def desugar_combinators(F, fn, max_rounds=4):
    """returns (new fn or None, number of calls rewritten)"""
    cur, total = None, 0
    for _ in range(max_rounds):
        base = cur or fn
        B = mir.Body(base, F)
        todo = []
        for bi, w, r, t in B.calls:
            nb = mir.norm(w or "")
            if not nb.startswith(_OWN):
                continue
            m = nb.rsplit("::", 1)[-1]
            if m not in _TABLE or not isinstance(t.get("target"), int) or t["dest"]["p"]:
                continue
            pos, full, empty = _TABLE[m]
            if len(t["args"]) != pos + 1 or t["args"][0]["k"] not in ("copy", "move") or t["args"][0]["p"]["p"]:
                continue
            cl = [(o[1], o[2]) for o in B.origins(t["args"][pos]) if o[0] == "agg"]
            if len(cl) != 1 or cl[0][0] not in F.fns or F.fns[cl[0][0]]["kind"] != "Closure":
                continue
            if len(F.fns[cl[0][0]]["blocks"]) > 200:
                continue
            todo.append((bi, nb, m, cl[0][0], cl[0][1]))
        if not todo:
            break
        if cur is None:
            cur = copy.deepcopy(fn)
        # one at a time per round keeps block numbers of the remaining candidates valid (blocks are only appended)
        for bi, nb, m, cid, ablk in todo:
            _desugar_one(F, cur, bi, nb, m, cid, ablk)
            total += 1
    return cur, total


def _desugar_one(F, fn, bi, nb, m, cid, ablk):
    is_opt = "option::Option" in nb
    adt = "std::option::Option" if is_opt else "std::result::Result"
    FULL, EMPTY = ("Some", "None") if is_opt else ("Ok", "Err")
    pos, full, empty = _TABLE[m]
    t = fn["blocks"][bi]["term"]
    recv = t["args"][0]["p"]["l"]
    dest = t["dest"]
    cont = t["target"]
    line = t.get("line")
    cf = F.fns[cid]
    short = "|%s|" % m

    def new_local(ty="?", name=None):
        fn["locals"].append({"ty": ty, "name": name})
        return len(fn["locals"]) - 1

    def new_block(stmts, term):
        fn["blocks"].append({"cleanup": False, "stmts": stmts, "term": term})
        return len(fn["blocks"]) - 1

    def goto(tg):
        return {"k": "goto", "target": tg, "file": t.get("file"), "line": line, "exp": None}

    def assign(lhs, rv):
        return {"k": "assign", "lhs": lhs, "rv": rv, "line": line, "exp": None}

    def payload(variant):
        return {"l": recv, "p": [{"d": variant, "v": mir.STD_VARIANTS[variant]}, {"f": 0, "n": "0", "ty": "?"}]}

    def agg(variant, ops, of=None):
        return {"k": "agg", "ak": "adt", "adt": of or adt, "variant": variant, "fields": ["0"] if ops else [], "ops": ops}

    # upvars of the closure: one local per captured operand, bound where the closure value is built
    ups = []
    for st in fn["blocks"][ablk]["stmts"]:
        if st["k"] == "assign" and st["rv"]["k"] == "agg" and st["rv"].get("def") == cid:
            for i, op in enumerate(st["rv"]["ops"]):
                ul = new_local("?", None)
                ups.append(ul)
            binds = [assign({"l": ups[i], "p": []}, {"k": "use", "o": op}) for i, op in enumerate(st["rv"]["ops"])]
            idx = fn["blocks"][ablk]["stmts"].index(st)
            fn["blocks"][ablk]["stmts"][idx + 1:idx + 1] = binds
            break

    sites = {}

    def closure_arm(arg_place, wrap, wrap_adt=None):
        """blocks running the closure on arg_place (or on nothing); returns entry block"""
        dl, dp = len(fn["locals"]), len(fn.get("promoted", []))
        for l in cf["locals"]:
            l2 = dict(l)
            if l2.get("name"):
                l2["name"] = "<%s>%s" % (short, l2["name"])
            fn["locals"].append(l2)
        fn.setdefault("promoted", [])
        fn["promoted"] += copy.deepcopy(cf.get("promoted", []))

        def mp(p):
            pr = list(p["p"])
            if p["l"] == 1:
                if pr and pr[0] == "*":
                    pr = pr[1:]
                if pr and isinstance(pr[0], dict) and "f" in pr[0] and pr[0]["f"] < len(ups):
                    base, rest = ups[pr[0]["f"]], pr[1:]
                else:
                    base, rest = 1 + dl, list(p["p"])
            else:
                base, rest = p["l"] + dl, pr
            q_ = {"l": base, "p": []}
            for e in rest:
                if isinstance(e, dict) and "i" in e:
                    e = dict(e, i=e["i"] + dl)
                q_["p"].append(e)
            return q_

        def on_return(ct):
            st = []
            if wrap:
                st.append(assign(dest, agg(wrap, [{"k": "move", "p": {"l": dl, "p": []}}], wrap_adt)))
            else:
                st.append(assign(dest, {"k": "use", "o": {"k": "move", "p": {"l": dl, "p": []}}}))
            return st, goto(cont)
        first = len(fn["blocks"])
        entry = _splice(fn, cf, short, mp, dp, on_return, t.get("unwind"))
        pre = []
        if arg_place is not None and cf["arg_count"] >= 2:
            pre.append(assign({"l": 2 + dl, "p": []}, {"k": "use", "o": {"k": "move", "p": arg_place}}))
        # what the arm hands out, where it is a literal variant (for the path-sensitive queries)
        for j in range(first, len(fn["blocks"])):
            for st in fn["blocks"][j]["stmts"]:
                if st["k"] == "assign" and st["lhs"] == dest and st["rv"]["k"] == "agg" and st["rv"].get("variant") in mir.STD_VARIANTS:
                    sites[j] = mir.STD_VARIANTS[st["rv"]["variant"]]
        return new_block(pre, goto(entry))

    def plain_arm(kind):
        if kind == "r":
            st = [assign(dest, {"k": "use", "o": {"k": "move", "p": {"l": recv, "p": []}}})]
            b = new_block(st, goto(cont))
            return b
        if kind == "v":
            return new_block([assign(dest, {"k": "use", "o": {"k": "move", "p": payload(FULL)}})], goto(cont))
        if kind == "empty":
            ops = [] if is_opt else [{"k": "move", "p": payload("Err")}]
            b = new_block([assign(dest, agg(EMPTY, ops))], goto(cont))
            sites[b] = mir.STD_VARIANTS[EMPTY]
            return b
        if kind == "arg1":
            return new_block([assign(dest, {"k": "use", "o": t["args"][1]})], goto(cont))
        if kind == "Ok v":
            b = new_block([assign(dest, agg("Ok", [{"k": "move", "p": payload("Some")}], "std::result::Result"))], goto(cont))
            sites[b] = 0
            return b
        raise ValueError(kind)

    def arm(kind, variant):
        if kind == "C(v)":
            return closure_arm(payload(variant), None)
        if kind == "wrap C(v)":
            return closure_arm(payload(variant), variant)
        if kind == "C(e)":
            return closure_arm(None if is_opt else payload("Err"), None)
        if kind == "wrap-empty C(e)":
            return closure_arm(payload("Err"), "Err")
        if kind == "Err C()":
            return closure_arm(None, "Err", "std::result::Result")
        return plain_arm(kind)

    full_b = arm(full, FULL)
    empty_b = arm(empty, EMPTY)
    # "r" keeps whatever variant the receiver had
    if full == "r":
        sites[full_b] = mir.STD_VARIANTS[FULL]
    d = new_local("isize", None)
    blk = fn["blocks"][bi]
    blk["stmts"].append(assign({"l": d, "p": []}, {"k": "discr", "p": {"l": recv, "p": []}}))
    un = new_block([], {"k": "unreachable", "file": t.get("file"), "line": line, "exp": None})
    blk["term"] = {"k": "switch", "d": {"k": "move", "p": {"l": d, "p": []}},
                   "targets": [[mir.STD_VARIANTS[FULL], full_b], [mir.STD_VARIANTS[EMPTY], empty_b]], "otherwise": un,
                   "file": t.get("file"), "line": line, "exp": None}
    fn.setdefault("inlined", []).append({"callee": nb, "entry": bi, "dest_local": dest["l"], "sites": sites, "combinator": True})


def closure_counts(F):
    """{named function: number of closures / coroutine bodies nested in it}"""
    cnt = {}
    for fid, f in F.fns.items():
        if f["kind"] in ("Fn", "AssocFn"):
            cnt.setdefault(fid, 0)
    for fid, f in F.fns.items():
        if f["kind"] in ("Fn", "AssocFn"):
            continue
        top = fid
        while top in F.fns and F.fns[top].get("parent"):
            top = F.fns[top]["parent"]
        cnt[top] = cnt.get(top, 0) + 1
    return cnt


def desugar_changed_functions(F, recorded, crates):
    """apply desugar_combinators to every function (and its closures) whose family of closures is not the recorded one"""
    rep = []
    now = closure_counts(F)
    for fid in list(F.fns):
        f = F.fns[fid]
        if f.get("crate") not in crates:
            continue
        top = fid
        while top in F.fns and F.fns[top].get("parent"):
            top = F.fns[top]["parent"]
        if recorded.get(top) == now.get(top, 0):
            continue
        new, n = desugar_combinators(F, f)
        if new is not None and n:
            new["crate"] = f.get("crate")
            F.fns[fid] = new
            rep.append((fid, n))
        # a local closure called by name (`let bump = |c| ..; bump(x)`) is a local helper: analysed in place
        base = F.fns[fid]
        mine = {c for c in F.fns if c.startswith(fid + "::{closure") and F.fns[c]["kind"] == "Closure"}
        if mine:
            CALLS = ("Fn::call", "FnMut::call_mut", "FnOnce::call_once")
            n0 = len(base["locals"])
            new2, done = inline_calls(F, base, lambda cid, cf, t: cid in mine and str(mir.callee_of(t)[0] or "").endswith(CALLS), allow_closures=True)
            if done:
                new2["crate"] = f.get("crate")
                _propagate_consts(new2, n0)
                F.fns[fid] = new2
                rep.append((fid, len(done)))
    return rep


# ----------------------------------------------------------------------------------------
# `for x in [a, b, c] { body }` over an array built in the same body is the body three times (table-driven code reads like the
# straight-line code it replaces). Only array *aggregates* qualify (not `[v; N]` repeats, not constants).

def _array_elements(fn, defs, local, depth=4):
    ds = defs.get(local, [])
    if len(ds) != 1 or ds[0] is None or depth <= 0:
        return None
    st = ds[0]
    if st["lhs"]["p"]:
        return None
    rv = st["rv"]
    if rv["k"] == "agg" and rv["ak"] == "array":
        return rv["ops"]
    if rv["k"] == "use" and rv["o"].get("k") in ("copy", "move") and not rv["o"]["p"]["p"]:
        return _array_elements(fn, defs, rv["o"]["p"]["l"], depth - 1)
    return None


def _succ_ids(t):
    out = []
    for k in ("target", "imaginary", "unwind", "drop"):
        v = t.get(k)
        if isinstance(v, int) and not isinstance(v, bool):
            out.append(v)
    if t["k"] == "switch":
        out += [tg for _, tg in t["targets"]]
        if isinstance(t.get("otherwise"), int):
            out.append(t["otherwise"])
    return out


def _const_table(F, fn, defs, blocks, iter_arg):
    """`TABLE.iter()` where TABLE is a constant whose initialiser is an array aggregate: (const body, array ops) or None.
    iter_arg: the `&[T]` operand of <[T]>::iter - an unsized reference to a promoted that holds the constant"""
    o, hops = iter_arg, 0
    while hops < 8 and o.get("k") in ("copy", "move") and not [e for e in o["p"]["p"] if e != "*"]:
        hops += 1
        ds = defs.get(o["p"]["l"], [])
        if len(ds) != 1 or ds[0] is None or ds[0]["lhs"]["p"]:
            return None
        rv = ds[0]["rv"]
        if rv["k"] in ("use", "cast"):
            o = rv["o"]
        elif rv["k"] == "ref":
            o = {"k": "copy", "p": rv["p"]}
        else:
            return None
    cid = None
    if o.get("k") == "const" and "promoted" in o:
        pb = (fn.get("promoted") or [])[o["promoted"]] if o["promoted"] < len(fn.get("promoted") or []) else None
        if pb:
            for b in pb["blocks"]:
                for st in b["stmts"]:
                    if st["k"] == "assign" and st["rv"]["k"] == "use" and st["rv"]["o"].get("k") == "const" and st["rv"]["o"].get("def") in F.fns:
                        cid = st["rv"]["o"]["def"]
    elif o.get("k") == "const" and o.get("def") in F.fns:
        cid = o["def"]
    cb = F.fns.get(cid) if cid else None
    if cb is None or cb["kind"] != "Static":
        return None
    # the initialiser is straight-line: statements, possibly separated by the drop / goto terminators of moved-out temporaries
    stmts, x, seen = [], 0, set()
    while True:
        if x in seen or x >= len(cb["blocks"]):
            return None
        seen.add(x)
        b = cb["blocks"][x]
        stmts += b["stmts"]
        tk = b["term"]["k"]
        if tk == "return":
            break
        if tk in ("drop", "goto", "falseunwind") and isinstance(b["term"].get("target"), int):
            x = b["term"]["target"]
            continue
        return None
    arr = [st for st in stmts if st["k"] == "assign" and st["lhs"]["l"] == 0 and not st["lhs"]["p"]]
    if len(arr) != 1 or arr[0]["rv"]["k"] != "agg" or arr[0]["rv"]["ak"] != "array":
        return None
    return cb, stmts, arr[0]["rv"]["ops"]


def unroll_array_loops(F, fn, max_len=8, max_region=400):
    """returns (new fn or None, loops unrolled)"""
    cur, total = None, 0
    for _ in range(4):
        base = cur or fn
        blocks = base["blocks"]
        defs = {}
        for b in blocks:
            for st in b["stmts"]:
                if st["k"] == "assign":
                    defs.setdefault(st["lhs"]["l"], []).append(st)
            t = b["term"]
            if t["k"] == "call":
                defs.setdefault(t["dest"]["l"], []).append(None)
            elif t["k"] == "yield" and isinstance(t.get("resume_arg"), dict):
                defs.setdefault(t["resume_arg"]["l"], []).append(None)
        cand, cand_table = None, None
        for bi, b in enumerate(blocks):
            t = b["term"]
            if t["k"] != "call" or b["cleanup"]:
                continue
            w, r = mir.callee_of(t)
            if not (w or "").endswith("into_iter") or not isinstance(t.get("target"), int):
                continue
            a0 = t["args"][0]
            if t["dest"]["p"] or (a0["k"] in ("copy", "move") and a0["p"]["p"]):
                continue
            elems, table = None, None
            by_value = False
            if "array" in str(r):
                elems = _array_elements(base, defs, a0["p"]["l"]) if a0["k"] in ("copy", "move") else None
                if not elems:
                    # `for e in CONST_TABLE` (by value)
                    table = _const_table(F, base, defs, blocks, a0)
                    if table is not None:
                        elems, by_value = table[2], True
            else:
                # TABLE.iter() over a constant table: into_iter(<[T]>::iter(&TABLE))
                ds_ = defs.get(a0["p"]["l"], []) if a0["k"] in ("copy", "move") else []
                if len(ds_) == 1 and ds_[0] is None:
                    for pb_ in blocks:
                        pt_ = pb_["term"]
                        if pt_["k"] == "call" and pt_["dest"] == {"l": a0["p"]["l"], "p": []} and (mir.callee_of(pt_)[0] or "").endswith("<impl [T]>::iter"):
                            table = _const_table(F, base, defs, blocks, pt_["args"][0])
                if table is not None:
                    elems = table[2]
            if not elems or len(elems) > max_len:
                continue
            # into_iter -> [ITER = move IT] -> goto H0 -> ... -> next(&mut ITER) -> switch discr(NX) [0 -> exit, 1 -> body]
            chain, x, nxt_blk = [], t["target"], None
            for _hop in range(6):
                tb = blocks[x]["term"]
                chain.append(x)
                if tb["k"] == "call":
                    w2, r2 = mir.callee_of(tb)
                    if (w2 or "").endswith("Iterator::next") and ("array::IntoIter" in str(r2) or (table is not None and not by_value and "slice::Iter" in str(r2))):
                        nxt_blk = x
                    break
                if tb["k"] in ("goto", "falseunwind") and isinstance(tb.get("target"), int):
                    x = tb["target"]
                else:
                    break
            if nxt_blk is None or not isinstance(blocks[nxt_blk]["term"].get("target"), int):
                continue
            sw = blocks[nxt_blk]["term"]["target"]
            st_ = blocks[sw]["term"]
            if st_["k"] != "switch":
                continue
            tg = dict((v, g) for v, g in st_["targets"])
            if 0 not in tg or 1 not in tg:
                continue
            exit_b, body_b = tg[0], tg[1]
            # loop header = the block the back edges go to: the first block of the chain that the body returns to
            nx_local = blocks[nxt_blk]["term"]["dest"]["l"]
            cand = (bi, chain, nxt_blk, sw, exit_b, body_b, nx_local, elems)
            cand_table = table
            cand_by_value = by_value
            # region: reachable from body_b; header = first chain block reached again
            region, stack, header = set(), [body_b], None
            while stack:
                y = stack.pop()
                if y in region:
                    continue
                if y in chain:
                    header = y if header is None or chain.index(y) < chain.index(header) else header
                    continue
                region.add(y)
                if len(region) > max_region:
                    break
                stack += [z for z in _succ_ids(blocks[y]["term"]) if not blocks[z]["cleanup"]]
            if header is None or len(region) > max_region or exit_b in region and False:
                cand = None
                continue
            # blocks dominated by the loop only: those that can come back to the header; the rest (break / return paths) stay shared
            back = set()
            changed = True
            while changed:
                changed = False
                for y in region:
                    if y in back:
                        continue
                    if any(z == header or z in back for z in _succ_ids(blocks[y]["term"])):
                        back.add(y)
                        changed = True
            hdr_part = chain[chain.index(header):] + [sw]
            copied = list(dict.fromkeys(hdr_part + sorted(back)))
            cand = cand + (header, copied)
            break
        if cand is None:
            break
        if cur is None:
            cur = copy.deepcopy(fn)
        if cand_table is not None:
            # bring the constant's initialiser into the body (its locals renumbered) and hand out references to its elements
            cb_, cstm_, cops_ = cand_table
            dl_ = len(cur["locals"])
            for l_ in cb_["locals"]:
                cur["locals"].append(dict(l_, name=None))
            dp_ = len(cur.get("promoted", []))
            cur.setdefault("promoted", [])
            cur["promoted"] += copy.deepcopy(cb_.get("promoted", []))

            def shift(o_):
                if isinstance(o_, dict) and o_.get("k") in ("copy", "move"):
                    return dict(o_, p={"l": o_["p"]["l"] + dl_, "p": o_["p"]["p"]})
                if isinstance(o_, dict) and "promoted" in o_:
                    return dict(o_, promoted=o_["promoted"] + dp_)
                return o_
            tgt_blk = cur["blocks"][cand[0]]
            for st_ in cstm_:
                if st_["k"] != "assign":
                    continue
                s2_ = copy.deepcopy(st_)
                s2_["lhs"] = {"l": st_["lhs"]["l"] + dl_, "p": st_["lhs"]["p"]}
                rv_ = s2_["rv"]
                if rv_["k"] in ("use", "cast", "repeat"):
                    rv_["o"] = shift(rv_["o"])
                elif rv_["k"] == "agg":
                    rv_["ops"] = [shift(x_) for x_ in rv_["ops"]]
                elif rv_["k"] in ("ref", "discr"):
                    rv_["p"] = {"l": rv_["p"]["l"] + dl_, "p": rv_["p"]["p"]}
                tgt_blk["stmts"].append(s2_)
            refs_ = []
            for x_ in cops_:
                cur["locals"].append({"ty": "&?", "name": None})
                rl_ = len(cur["locals"]) - 1
                src_ = shift(x_)
                if cand_by_value:
                    tgt_blk["stmts"].append({"k": "assign", "lhs": {"l": rl_, "p": []}, "rv": {"k": "use", "o": src_}, "line": None, "exp": None})
                elif src_.get("k") in ("copy", "move"):
                    tgt_blk["stmts"].append({"k": "assign", "lhs": {"l": rl_, "p": []}, "rv": {"k": "ref", "mut": False, "p": src_["p"]}, "line": None, "exp": None})
                else:
                    cur["locals"].append({"ty": "?", "name": None})
                    tl_ = len(cur["locals"]) - 1
                    tgt_blk["stmts"].append({"k": "assign", "lhs": {"l": tl_, "p": []}, "rv": {"k": "use", "o": src_}, "line": None, "exp": None})
                    tgt_blk["stmts"].append({"k": "assign", "lhs": {"l": rl_, "p": []}, "rv": {"k": "ref", "mut": False, "p": {"l": tl_, "p": []}}, "line": None, "exp": None})
                refs_.append({"k": "copy", "p": {"l": rl_, "p": []}})
            cand = cand[:7] + (refs_,) + cand[8:]
        _unroll_one(cur, defs, *cand)
        total += 1
    return cur, total


def _unroll_one(fn, defs0, bi, chain, nxt_blk, sw, exit_b, body_b, nx_local, elems, header, copied):
    blocks = fn["blocks"]
    cset = set(copied)
    # locals defined only inside the copied blocks get a fresh copy per iteration
    inside = {}
    for y in copied:
        for st in blocks[y]["stmts"]:
            if st["k"] == "assign" and not st["lhs"]["p"]:
                inside[st["lhs"]["l"]] = inside.get(st["lhs"]["l"], 0) + 1
        t = blocks[y]["term"]
        if t["k"] == "call" and not t["dest"]["p"]:
            inside[t["dest"]["l"]] = inside.get(t["dest"]["l"], 0) + 1
        elif t["k"] == "yield" and isinstance(t.get("resume_arg"), dict):
            inside[t["resume_arg"]["l"]] = inside.get(t["resume_arg"]["l"], 0) + 1
    private = {l for l, n in inside.items() if n == len(defs0.get(l, []))}
    n = len(elems)
    entries = []
    metas0 = list(fn.get("inlined", []))
    base_ids = []
    for i in range(n + 1):
        base_ids.append(len(blocks) + i * len(copied))
    for i in range(n):
        lmap = {}
        for l in sorted(private):
            fn["locals"].append(dict(fn["locals"][l]))
            lmap[l] = len(fn["locals"]) - 1
        bmap = {y: base_ids[i] + k for k, y in enumerate(copied)}
        nxt_hdr = (base_ids[i + 1] + copied.index(header)) if i + 1 < n else None

        def mp(p):
            q_ = {"l": lmap.get(p["l"], p["l"]), "p": []}
            for e in p["p"]:
                if isinstance(e, dict) and "i" in e:
                    e = dict(e, i=lmap.get(e["i"], e["i"]))
                q_["p"].append(e)
            return q_

        def mo(o):
            if isinstance(o, dict) and o.get("k") in ("copy", "move"):
                return dict(o, p=mp(o["p"]))
            return o

        def mb(z):
            if z == header:
                return nxt_hdr if nxt_hdr is not None else -1
            return bmap.get(z, z)
        for y in copied:
            ob = blocks[y]
            nb = {"cleanup": ob["cleanup"], "stmts": [], "term": None}
            for st in ob["stmts"]:
                s2 = dict(st)
                if st["k"] == "assign":
                    s2["lhs"] = mp(st["lhs"])
                    rv = dict(st["rv"])
                    k = rv["k"]
                    if k in ("ref", "discr") or (k not in ("use", "cast", "repeat", "agg", "bin", "un") and "p" in rv):
                        rv["p"] = mp(rv["p"])
                    if k in ("use", "cast", "repeat"):
                        rv["o"] = mo(rv["o"])
                    elif k == "agg":
                        rv["ops"] = [mo(o) for o in rv["ops"]]
                    elif k == "bin":
                        rv["a"], rv["b"] = mo(rv["a"]), mo(rv["b"])
                    elif k == "un":
                        rv["a"] = mo(rv["a"])
                    s2["rv"] = rv
                nb["stmts"].append(s2)
            ct = copy.deepcopy(ob["term"])
            if y == nxt_blk:
                # next() hands out element i
                nb["stmts"].append({"k": "assign", "lhs": mp({"l": nx_local, "p": []}),
                                    "rv": {"k": "agg", "ak": "adt", "adt": "std::option::Option", "variant": "Some", "fields": ["0"], "ops": [elems[i]]},
                                    "line": ct.get("line"), "exp": ct.get("exp")})
                ct = {"k": "goto", "target": bmap[sw], "file": ct.get("file"), "line": ct.get("line"), "exp": ct.get("exp")}
            elif y == sw:
                ct = {"k": "goto", "target": mb(body_b), "file": ct.get("file"), "line": ct.get("line"), "exp": ct.get("exp")}
            else:
                k = ct["k"]
                for key in ("target", "imaginary"):
                    if isinstance(ct.get(key), int) and not isinstance(ct.get(key), bool):
                        ct[key] = mb(ct[key])
                if k == "call":
                    ct["args"] = [mo(a) for a in ct["args"]]
                    ct["dest"] = mp(ct["dest"])
                    if ct["f"].get("k") in ("copy", "move"):
                        ct["f"] = mo(ct["f"])
                elif k == "switch":
                    ct["d"] = mo(ct["d"])
                    ct["targets"] = [[v, mb(g)] for v, g in ct["targets"]]
                    if isinstance(ct.get("otherwise"), int):
                        ct["otherwise"] = mb(ct["otherwise"])
                elif k == "drop":
                    ct["p"] = mp(ct["p"])
                elif k == "assert":
                    ct["cond"] = mo(ct["cond"])
                elif k == "yield":
                    ct["value"] = mo(ct["value"])
                    if isinstance(ct.get("resume_arg"), dict):
                        ct["resume_arg"] = mp(ct["resume_arg"])
            nb["term"] = ct
            blocks.append(nb)
        entries.append(bmap[header])
        # what is known about helpers analysed in place inside the loop body holds for each copy
        for m in list(metas0):
            if m["entry"] in bmap or any(k_ in bmap for k_ in m.get("sites", {})):
                m2 = dict(m)
                m2["entry"] = bmap.get(m["entry"], m["entry"])
                for key in ("dest_local", "ret_local"):
                    if m.get(key) is not None:
                        m2[key] = lmap.get(m[key], m[key])
                m2["sites"] = {bmap.get(k_, k_): v_ for k_, v_ in m.get("sites", {}).items()}
                fn.setdefault("inlined", []).append(m2)
    # after the last element the iterator is exhausted: straight to the loop's exit
    tail = len(blocks)
    blocks.append({"cleanup": False, "stmts": [], "term": {"k": "goto", "target": exit_b, "file": None, "line": blocks[sw]["term"].get("line"), "exp": None}})
    for b in blocks:
        t = b["term"]
        for key in ("target", "imaginary"):
            if t.get(key) == -1:
                t[key] = tail
        if t["k"] == "switch":
            t["targets"] = [[v, tail if g == -1 else g] for v, g in t["targets"]]
            if t.get("otherwise") == -1:
                t["otherwise"] = tail
    # enter the first copy instead of the loop
    for y in range(len(blocks)):
        if y in cset or y >= base_ids[0]:
            continue
        t = blocks[y]["term"]
        for key in ("target", "imaginary"):
            if t.get(key) == header:
                t[key] = entries[0] if entries else tail
        if t["k"] == "switch":
            t["targets"] = [[v, (entries[0] if entries else tail) if g == header else g] for v, g in t["targets"]]
            if t.get("otherwise") == header:
                t["otherwise"] = entries[0] if entries else tail
    # the loop itself is gone
    for y in copied:
        blocks[y] = {"cleanup": blocks[y]["cleanup"], "stmts": [], "term": {"k": "unreachable", "file": None, "line": blocks[y]["term"].get("line"), "exp": None}}
    fn.setdefault("unrolled", []).append({"loop_header": header, "elements": n})


# ----------------------------------------------------------------------------------------
# `TABLE.iter().any(|e| p(e))` over a table whose elements are known is `p(e0) || p(e1) || ..` (all: `&&`)

def expand_quantifiers(F, fn, max_len=8):
    """returns (new fn or None, calls rewritten)"""
    cur, total = None, 0
    for _ in range(4):
        base = cur or fn
        blocks = base["blocks"]
        defs = {}
        for b in blocks:
            for st in b["stmts"]:
                if st["k"] == "assign":
                    defs.setdefault(st["lhs"]["l"], []).append(st)
            t = b["term"]
            if t["k"] == "call":
                defs.setdefault(t["dest"]["l"], []).append(None)
        B = mir.Body(base, F)
        cand = None
        for bi, b in enumerate(blocks):
            t = b["term"]
            if t["k"] != "call" or b["cleanup"] or not isinstance(t.get("target"), int) or t["dest"]["p"] or len(t["args"]) != 2:
                continue
            w, r = mir.callee_of(t)
            short = (w or "").rsplit("::", 1)[-1]
            if short not in ("any", "all") or "Iterator" not in (w or ""):
                continue
            cl = [(o[1], o[2]) for o in B.origins(t["args"][1]) if o[0] == "agg" and o[1] in F.fns and F.fns[o[1]]["kind"] == "Closure"]
            if len(cl) != 1 or F.fns[cl[0][0]]["arg_count"] != 2:
                continue
            # receiver: &mut ITER, ITER = <[T]>::iter(&TABLE)
            it = None
            o = t["args"][0]
            hops = 0
            while hops < 6 and o.get("k") in ("copy", "move") and not [e for e in o["p"]["p"] if e != "*"]:
                hops += 1
                ds = defs.get(o["p"]["l"], [])
                if len(ds) != 1:
                    break
                if ds[0] is None:
                    for pb_ in blocks:
                        pt_ = pb_["term"]
                        if pt_["k"] == "call" and pt_["dest"] == {"l": o["p"]["l"], "p": []} and (mir.callee_of(pt_)[0] or "").endswith("<impl [T]>::iter"):
                            it = pt_
                    break
                rv = ds[0]["rv"]
                if ds[0]["lhs"]["p"]:
                    break
                if rv["k"] in ("use", "cast"):
                    o = rv["o"]
                elif rv["k"] == "ref":
                    o = {"k": "copy", "p": rv["p"]}
                else:
                    break
            if it is None:
                continue
            table = _const_table(F, base, defs, blocks, it["args"][0])
            if table is None or len(table[2]) > max_len:
                continue
            cand = (bi, short, cl[0][0], cl[0][1], table)
            break
        if cand is None:
            break
        if cur is None:
            cur = copy.deepcopy(fn)
        _expand_one(F, cur, *cand)
        total += 1
    return cur, total


def _expand_one(F, fn, bi, kind, cid, ablk, table):
    blocks = fn["blocks"]
    t = blocks[bi]["term"]
    dest, cont, line = t["dest"], t["target"], t.get("line")
    cb_, cstm_, cops_ = table
    cf = F.fns[cid]

    def assign(lhs, rv):
        return {"k": "assign", "lhs": lhs, "rv": rv, "line": line, "exp": None}

    def goto(tg):
        return {"k": "goto", "target": tg, "file": t.get("file"), "line": line, "exp": None}
    # the constant's initialiser, locals renumbered
    dl_ = len(fn["locals"])
    for l_ in cb_["locals"]:
        fn["locals"].append(dict(l_, name=None))
    dp_ = len(fn.get("promoted", []))
    fn.setdefault("promoted", [])
    fn["promoted"] += copy.deepcopy(cb_.get("promoted", []))

    def shift(o_):
        if isinstance(o_, dict) and o_.get("k") in ("copy", "move"):
            return dict(o_, p={"l": o_["p"]["l"] + dl_, "p": o_["p"]["p"]})
        if isinstance(o_, dict) and "promoted" in o_:
            return dict(o_, promoted=o_["promoted"] + dp_)
        return o_
    pre = blocks[bi]["stmts"]
    for st_ in cstm_:
        if st_["k"] != "assign":
            continue
        s2_ = copy.deepcopy(st_)
        s2_["lhs"] = {"l": st_["lhs"]["l"] + dl_, "p": st_["lhs"]["p"]}
        rv_ = s2_["rv"]
        if rv_["k"] in ("use", "cast", "repeat"):
            rv_["o"] = shift(rv_["o"])
        elif rv_["k"] == "agg":
            rv_["ops"] = [shift(x_) for x_ in rv_["ops"]]
        elif rv_["k"] in ("ref", "discr"):
            rv_["p"] = {"l": rv_["p"]["l"] + dl_, "p": rv_["p"]["p"]}
        pre.append(s2_)
    refs = []
    for x_ in cops_:
        fn["locals"].append({"ty": "&?", "name": None})
        rl_ = len(fn["locals"]) - 1
        src_ = shift(x_)
        if src_.get("k") in ("copy", "move"):
            pre.append(assign({"l": rl_, "p": []}, {"k": "ref", "mut": False, "p": src_["p"]}))
        else:
            fn["locals"].append({"ty": "?", "name": None})
            tl_ = len(fn["locals"]) - 1
            pre.append(assign({"l": tl_, "p": []}, {"k": "use", "o": src_}))
            pre.append(assign({"l": rl_, "p": []}, {"k": "ref", "mut": False, "p": {"l": tl_, "p": []}}))
        refs.append(rl_)
    # captured variables of the closure
    ups = []
    for st in blocks[ablk]["stmts"]:
        if st["k"] == "assign" and st["rv"]["k"] == "agg" and st["rv"].get("def") == cid:
            for op in st["rv"]["ops"]:
                fn["locals"].append({"ty": "?", "name": None})
                ups.append(len(fn["locals"]) - 1)
            idx = blocks[ablk]["stmts"].index(st)
            blocks[ablk]["stmts"][idx + 1:idx + 1] = [assign({"l": ups[i], "p": []}, {"k": "use", "o": op}) for i, op in enumerate(st["rv"]["ops"])]
            break
    hit = kind == "any"          # any: a true element decides (true); all: a false element decides (false)
    fin = len(blocks)
    blocks.append({"cleanup": False, "stmts": [assign(dest, {"k": "use", "o": {"k": "const", "ty": "bool", "val": 0 if hit else 1}})], "term": goto(cont)})
    dec = len(blocks)
    blocks.append({"cleanup": False, "stmts": [assign(dest, {"k": "use", "o": {"k": "const", "ty": "bool", "val": 1 if hit else 0}})], "term": goto(cont)})
    nxt = fin
    for i in reversed(range(len(refs))):
        dl, dp = len(fn["locals"]), len(fn.get("promoted", []))
        for l in cf["locals"]:
            fn["locals"].append(dict(l, name=("<|%s|>%s" % (kind, l["name"])) if l.get("name") else None))
        fn["promoted"] += copy.deepcopy(cf.get("promoted", []))
        fn["locals"].append({"ty": "bool", "name": None})
        res = len(fn["locals"]) - 1

        def mp(p):
            pr = list(p["p"])
            if p["l"] == 1:
                if pr and pr[0] == "*":
                    pr = pr[1:]
                if pr and isinstance(pr[0], dict) and "f" in pr[0] and pr[0]["f"] < len(ups):
                    base, rest = ups[pr[0]["f"]], pr[1:]
                else:
                    base, rest = 1 + dl, list(p["p"])
            else:
                base, rest = p["l"] + dl, pr
            q_ = {"l": base, "p": []}
            for e in rest:
                if isinstance(e, dict) and "i" in e:
                    e = dict(e, i=e["i"] + dl)
                q_["p"].append(e)
            return q_
        test_blk = len(blocks)
        blocks.append({"cleanup": False, "stmts": [], "term": {"k": "switch", "d": {"k": "copy", "p": {"l": res, "p": []}},
                                                              "targets": [[0, nxt if hit else dec]], "otherwise": dec if hit else nxt,
                                                              "file": t.get("file"), "line": line, "exp": None}})

        def on_return(ct, res=res, test_blk=test_blk, dl=dl):
            return [assign({"l": res, "p": []}, {"k": "use", "o": {"k": "move", "p": {"l": dl, "p": []}}})], goto(test_blk)
        entry = _splice(fn, cf, "|%s|" % kind, mp, dp, on_return, t.get("unwind"))
        blocks = fn["blocks"]
        head = len(blocks)
        blocks.append({"cleanup": False, "stmts": [assign({"l": 2 + dl, "p": []}, {"k": "use", "o": {"k": "copy", "p": {"l": refs[i], "p": []}}})], "term": goto(entry)})
        nxt = head
    blocks[bi]["term"] = goto(nxt)
    fn.setdefault("unrolled", []).append({"quantifier": kind, "elements": len(refs)})


# ----------------------------------------------------------------------------------------
# `let m = matches!(x, V); if m {..}` / `if helper_returning_bool() {..}` after the helper was spliced in: a local that is only ever
# assigned literal booleans in blocks that jump straight to the one switch reading it. Each assigning block goes directly to the
# branch its literal selects (jump threading) - the test of x is then the test the rules see.

def body_hash(fn):
    import hashlib, json

    def strip(x):
        if isinstance(x, dict):
            return {k: strip(v) for k, v in x.items() if k not in ("line", "fn_line", "line_hi", "file", "exp")}
        if isinstance(x, list):
            return [strip(v) for v in x]
        return x
    return hashlib.sha256(json.dumps(strip(fn["blocks"]), sort_keys=True).encode()).hexdigest()[:16]


def thread_bool_phis(fn):
    """in place; returns the number of switches threaded"""
    blocks = fn["blocks"]
    n = 0
    already = {}
    for _ in range(6):
        uses, defs = {}, {}
        for bi, b in enumerate(blocks):
            for st in b["stmts"]:
                if st["k"] != "assign":
                    continue
                defs.setdefault(st["lhs"]["l"], []).append((bi, st))
                for e in st["lhs"]["p"]:
                    if isinstance(e, dict) and "i" in e:
                        uses[e["i"]] = uses.get(e["i"], 0) + 1

                def note(o):
                    if isinstance(o, dict) and o.get("k") in ("copy", "move"):
                        uses[o["p"]["l"]] = uses.get(o["p"]["l"], 0) + 1
                rv = st["rv"]
                for key in ("o", "a", "b"):
                    note(rv.get(key))
                for o in rv.get("ops", []) or []:
                    note(o)
                if isinstance(rv.get("p"), dict):
                    uses[rv["p"]["l"]] = uses.get(rv["p"]["l"], 0) + 1
            t = b["term"]
            if t["k"] == "call":
                defs.setdefault(t["dest"]["l"], []).append((bi, None))
                for a in t["args"]:
                    if a.get("k") in ("copy", "move"):
                        uses[a["p"]["l"]] = uses.get(a["p"]["l"], 0) + 1
                if t["f"].get("k") in ("copy", "move"):
                    uses[t["f"]["p"]["l"]] = uses.get(t["f"]["p"]["l"], 0) + 1
            elif t["k"] == "switch" and t["d"].get("k") in ("copy", "move"):
                uses[t["d"]["p"]["l"]] = uses.get(t["d"]["p"]["l"], 0) + 1
            elif t["k"] == "yield":
                if t["value"].get("k") in ("copy", "move"):
                    uses[t["value"]["p"]["l"]] = uses.get(t["value"]["p"]["l"], 0) + 1
                if isinstance(t.get("resume_arg"), dict):
                    defs.setdefault(t["resume_arg"]["l"], []).append((bi, None))
            elif t["k"] == "drop":
                uses[t["p"]["l"]] = uses.get(t["p"]["l"], 0) + 1
            elif t["k"] == "assert" and t["cond"].get("k") in ("copy", "move"):
                uses[t["cond"]["p"]["l"]] = uses.get(t["cond"]["p"]["l"], 0) + 1
        did = False
        for si, sb in enumerate(blocks):
            t = sb["term"]
            if t["k"] != "switch" or sb["cleanup"] or t["d"].get("k") not in ("copy", "move") or t["d"]["p"]["p"]:
                continue
            x = t["d"]["p"]["l"]
            if uses.get(x, 0) != 1 or x == 0 or x <= fn.get("arg_count", 0):
                continue
            if sb["stmts"]:
                # `if flag` reads the user variable through a temporary: `_t = copy flag; switchInt(move _t)`
                only = sb["stmts"][0] if len(sb["stmts"]) == 1 else None
                if only is None or only["k"] != "assign" or only["lhs"] != {"l": x, "p": []} or only["rv"]["k"] != "use" \
                        or only["rv"]["o"].get("k") not in ("copy", "move") or only["rv"]["o"]["p"]["p"]:
                    continue
                x = only["rv"]["o"]["p"]["l"]
                if uses.get(x, 0) != 1 or x == 0 or x <= fn.get("arg_count", 0):
                    continue
            ds = defs.get(x, [])
            if len(ds) < 2 or any(st is not None and st["lhs"]["p"] for _, st in ds):
                continue
            # the literal assignments: each such block ends (through empty gotos) in this switch, the assignment is its last statement;
            # other definitions (`a && b` whose last operand is a real test) keep going through the switch
            lits = [(bi, st) for bi, st in ds if st is not None and st["rv"]["k"] == "use" and st["rv"]["o"].get("k") == "const"
                    and st["rv"]["o"].get("ty") == "bool" and st["rv"]["o"].get("val") is not None]
            if not lits:
                continue
            ok = True
            plan = []
            for bi, st in lits:
                b = blocks[bi]
                if not b["stmts"] or b["stmts"][-1] is not st or b["term"]["k"] != "goto":
                    ok = False
                    break
                if already.get((bi, si)):
                    continue
                y, hops = b["term"]["target"], 0
                while y != si and hops < 4 and not blocks[y]["stmts"] and blocks[y]["term"]["k"] == "goto":
                    y = blocks[y]["term"]["target"]
                    hops += 1
                if y != si:
                    ok = False
                    break
                v = 1 if st["rv"]["o"]["val"] else 0
                tg = dict((a, g) for a, g in t["targets"]).get(v, t.get("otherwise"))
                if not isinstance(tg, int):
                    ok = False
                    break
                plan.append((bi, tg))
            if not ok or not plan:
                continue
            for bi, tg in plan:
                blocks[bi]["term"] = dict(blocks[bi]["term"], target=tg)
                already[(bi, si)] = True
                # the literal is not read any more (its only reader was the switch that is now bypassed)
                blocks[bi]["stmts"] = blocks[bi]["stmts"][:-1]
            n += 1
            did = True
        if not did:
            break
    return n
