"""P-SEC / P-TAINT: summary-based interprocedural access-path taint propagation over the workspace MIR facts.

A fact is (function, local, path, label): "the value at local.path (and everything below it) carries `label`".
  * absolute labels (strings, e.g. 'SECRET') are seeded at sources and flow bottom-up through return values;
  * symbolic labels ('P', i) / ('U', i) stand for "whatever the caller passes as parameter i / captures as upvar i";
    a function's return facts and the sinks it reaches under a symbolic label form its *summary*, which is
    instantiated at every call site with the labels of the actual arguments (context-sensitive, no top-down join).
Paths are tuples of field names and '@Variant' downcasts (derefs are transparent), k-limited.
Flow-insensitive inside a function (MIR temporaries are single-assignment in practice).
"""
from collections import defaultdict, deque

from . import mir, q

K_LIMIT = 6

SAME_SHAPE = (
    "clone", "to_owned", "into", "from", "as_ref", "as_mut", "borrow", "borrow_mut", "deref", "deref_mut", "into_future",
    "new_unchecked", "must_use", "as_deref", "cloned", "copied", "into_inner", "get_mut", "as_pin_mut", "from_residual",
    "into_iter", "iter", "as_slice", "into_boxed_str", "into_string", "as_mut_ptr", "Box::new", "Arc::new", "Rc::new", "Pin::new",
)
CLEAN = (
    "eq", "ne", "cmp", "partial_cmp", "len", "is_empty", "is_some", "is_none", "is_ok", "is_err", "starts_with", "ends_with",
    "contains", "eq_ignore_ascii_case", "HMAC::finalize", "hash", "is_char_boundary", "capacity", "drop", "is_success", "is_closed",
    "get_context", "type_name", "exists", "is_dir", "is_file", "elapsed", "now",
)
UNWRAP = ("unwrap", "expect", "unwrap_or", "unwrap_or_default", "unwrap_or_else", "unwrap_unchecked")


def is_sym(label):
    return isinstance(label, tuple)


class Engine:
    def __init__(self, F, cg, crates=("azure_proxy_agent", "proxy_agent_shared"), return_filter=None, sink_fn=None,
                 skip_callee=None, clean_callee=None):
        self.F = F
        self.G = cg
        self.crates = set(crates)
        self.facts = defaultdict(lambda: defaultdict(set))  # fid -> local -> {(path, label)}
        self.why = {}
        self.bodies = {}
        self.queue = deque()
        self.queued = set()
        self.cond_sinks = defaultdict(dict)   # fid -> {(sym label, sink key): desc}
        self.findings = {}
        self.return_filter = return_filter or (lambda caller_body, term, label, callee: True)
        self.sink_fn = sink_fn or (lambda caller, callee, term: None)
        self.skip_callee = skip_callee or (lambda callee: False)
        self.clean_callee = clean_callee or (lambda callee, term: False)
        self.seed_hooks = []
        self.model_channels = False
        self.channels = defaultdict(set)   # message type -> {label}: values sent through tokio mpsc / oneshot channels
        self.term_sinks = None   # optional fn(fid, B, bi, term) -> [(kind, sink name, [operands])] for non-call terminators / statements

    # ------------------------------------------------------------------ basics
    def ws(self, fid):
        fn = self.F.fns.get(fid)
        return fn is not None and fn["crate"] in self.crates

    def body(self, fid):
        b = self.bodies.get(fid)
        if b is None:
            fn = self.F.fns.get(fid)
            if fn is None:
                return None
            b = mir.Body(fn, self.F)
            self.bodies[fid] = b
        return b

    def add(self, fid, local, path, label, why):
        path = tuple(path)[:K_LIMIT]
        s = self.facts[fid][local]
        for (p, l) in s:
            if l == label and path[: len(p)] == p:
                return False
        s.add((path, label))
        self.why.setdefault((fid, local, path, label), why)
        self._enqueue(fid)
        if local == 0:
            self._summary_changed(fid)
        return True

    def _summary_changed(self, fid):
        for c in self.G.callers(fid):
            self._enqueue(c)
        p = self.F.fns.get(fid, {}).get("parent")
        while p:
            self._enqueue(p)
            for c in self.G.callers(p):
                self._enqueue(c)
            p = self.F.fns.get(p, {}).get("parent")

    def _enqueue(self, fid):
        if self.ws(fid) and fid not in self.queued:
            self.queued.add(fid)
            self.queue.append(fid)

    def read(self, fid, place):
        l = place["l"]
        p = place_path(place)
        out = []
        for (tp, label) in self.facts[fid].get(l, ()):
            if tp[: len(p)] == p:
                out.append((tp[len(p):], label, (fid, l, tp, label)))
            elif p[: len(tp)] == tp:
                out.append(((), label, (fid, l, tp, label)))
            elif compatible(tp, p):
                out.append((tp[len(p):] if len(tp) >= len(p) else (), label, (fid, l, tp, label)))
        return out

    def read_op(self, fid, o):
        if o["k"] in ("copy", "move"):
            return self.read(fid, o["p"])
        return []

    # ------------------------------------------------------------------ driver
    def run(self):
        for fid, fn in self.F.fns.items():
            if fn["crate"] in self.crates:
                self._seed_symbolic(fid, fn)
                self._enqueue(fid)
        n = 0
        while self.queue:
            fid = self.queue.popleft()
            self.queued.discard(fid)
            self.process(fid)
            n += 1
            if n > 400000:
                raise RuntimeError("taint fixpoint does not converge")
        return n

    def _seed_symbolic(self, fid, fn):
        first = 1
        if fn["kind"] in ("Closure", "SyntheticCoroutineBody"):
            B = self.body(fid)
            for i in B.upvar:
                self.facts[fid][1].add(((str(i),), ("U", i)))
            first = 2
        for i in range(first, fn["arg_count"] + 1):
            self.facts[fid][i].add(((), ("P", i)))

    def process(self, fid):
        B = self.body(fid)
        if B is None:
            return
        for h in self.seed_hooks:
            h(self, B)
        changed = True
        rounds = 0
        while changed and rounds < 60:
            rounds += 1
            changed = False
            for bi, blk in enumerate(B.blocks):
                if blk["cleanup"]:
                    continue
                for s in blk["stmts"]:
                    if s["k"] == "assign":
                        changed |= self.assign(fid, B, bi, s)
                t = blk["term"]
                if t["k"] == "call":
                    changed |= self.call(fid, B, bi, t)
                if self.term_sinks is not None:
                    for (kind, name, operands) in self.term_sinks(fid, B, bi, t):
                        for o in operands:
                            for (res, label, src) in self.read_op(fid, o):
                                desc = {"fn": fid, "sink": name, "kind": kind, "where": q.where(B, bi), "line": B.line(bi)}
                                if is_sym(label):
                                    skey = (fid, name, kind)
                                    if (label, skey) not in self.cond_sinks[fid]:
                                        self.cond_sinks[fid][(label, skey)] = desc
                                        self._summary_changed(fid)
                                else:
                                    self._finding(desc, label, src, via=None)

    # ------------------------------------------------------------------ transfer
    def assign(self, fid, B, bi, s):
        lhs = s["lhs"]
        lp = place_path(lhs)
        rv = s["rv"]
        k = rv["k"]
        ch = False
        line = s["line"]
        if k in ("use", "cast", "repeat"):
            for (res, label, src) in self.read_op(fid, rv["o"]):
                ch |= self.add(fid, lhs["l"], lp + res, label, ("copy", src, line))
        elif k in ("ref", "rawptr"):
            for (res, label, src) in self.read(fid, rv["p"]):
                ch |= self.add(fid, lhs["l"], lp + res, label, ("ref", src, line))
        elif k == "agg":
            names = rv.get("fields")
            pre = ()
            if rv["ak"] == "adt" and rv.get("variant") and self._is_enum(rv.get("adt")):
                pre = ("@" + rv["variant"],)
            for i, o in enumerate(rv["ops"]):
                fld = names[i] if names and i < len(names) else str(i)
                for (res, label, src) in self.read_op(fid, o):
                    ch |= self.add(fid, lhs["l"], lp + pre + (fld,) + res, label, ("agg", src, line))
            # a closure / coroutine created with tainted captures will run (possibly polled by external code, e.g. the
            # future a service closure returns to hyper): the sinks its body reaches under its captures fire here
            if rv["ak"] in ("closure", "coroutine") and rv.get("def") and self.ws(rv["def"]):
                binding = defaultdict(list)
                for i, o in enumerate(rv["ops"]):
                    for (res, label, src) in self.read_op(fid, o):
                        binding[("U", i)].append((label, src))
                if binding:
                    self._instantiate_sinks(fid, rv["def"], binding, line)
        elif k == "un":
            # PtrMetadata (slice length), Neg, Not: derived from the operand
            for (res, label, src) in self.read_op(fid, rv["a"]):
                ch |= self.add(fid, lhs["l"], lp, label, ("un:" + rv["op"], src, line))
        elif k == "bin" and rv["op"] not in ("Eq", "Ne", "Lt", "Le", "Gt", "Ge", "Cmp"):
            for o in (rv["a"], rv["b"]):
                for (res, label, src) in self.read_op(fid, o):
                    ch |= self.add(fid, lhs["l"], lp, label, ("arith:" + rv["op"], src, line))
        return ch

    def _is_enum(self, adt):
        if adt is None:
            return False
        a = self.F.adts.get(adt)
        if a is not None:
            return a["kind"] == "Enum"
        return adt.split("<")[0].rsplit("::", 1)[-1] in ("Option", "Result", "Poll", "ControlFlow", "Cow", "Entry")

    def _instantiate(self, fid, B, bi, t, callee, binding, dest_prefix, line, kind):
        """instantiate the summary of a workspace callee; binding: symbolic label of callee -> [(label, srcfact)]"""
        ch = False
        dest = t["dest"]
        dp = place_path(dest) + tuple(dest_prefix)
        for (path, label) in list(self.facts[callee].get(0, ())):
            if is_sym(label):
                for (L, src) in binding.get(label, ()):
                    ch |= self.add(fid, dest["l"], dp + path, L, (kind + "-return:" + _short(callee), src, line))
            else:
                if self.return_filter(B, t, label, callee):
                    ch |= self.add(fid, dest["l"], dp + path, label, (kind + "-return:" + _short(callee), (callee, 0, path, label), line))
        for (sym, skey), desc in list(self.cond_sinks[callee].items()):
            for (L, src) in binding.get(sym, ()):
                if is_sym(L):
                    if (L, skey) not in self.cond_sinks[fid]:
                        self.cond_sinks[fid][(L, skey)] = dict(desc, via=[fid.replace("azure_proxy_agent::", "")] + desc.get("via", []))
                        self._summary_changed(fid)
                elif desc["kind"].startswith("channel:"):
                    self._channel_put(desc["sink"], L, src, line)
                else:
                    self._finding(desc, L, src, via=fid)
        return ch

    def _channel_put(self, ty, label, src, line):
        if label not in self.channels[ty]:
            self.channels[ty].add(label)
            self.why.setdefault(("<channel>", 0, (ty,), label), ("sent through channel<%s>" % ty.rsplit("::", 1)[-1], src, line))
            for f2 in self.F.fns:
                self._enqueue(f2)

    def _instantiate_sinks(self, fid, callee, binding, line):
        for (sym, skey), desc in list(self.cond_sinks[callee].items()):
            for (L, src) in binding.get(sym, ()):
                if is_sym(L):
                    if (L, skey) not in self.cond_sinks[fid]:
                        self.cond_sinks[fid][(L, skey)] = dict(desc, via=[fid.replace("azure_proxy_agent::", "")] + desc.get("via", []))
                        self._summary_changed(fid)
                elif desc["kind"].startswith("channel:"):
                    self._channel_put(desc["sink"], L, src, line)
                else:
                    self._finding(desc, L, src, via=fid)

    def _bind_args(self, argt, first_param=1):
        binding = defaultdict(list)
        for i, at in enumerate(argt):
            for (res, label, src) in at:
                binding[("P", i + first_param)].append((label, src))
        return binding

    def _bind_env(self, env_taints):
        binding = defaultdict(list)
        for (res, label, src) in env_taints:
            if res and res[0].isdigit():
                binding[("U", int(res[0]))].append((label, src))
            elif not res:
                for i in range(32):
                    binding[("U", i)].append((label, src))
        return binding

    def call(self, fid, B, bi, t):
        w, r = mir.callee_of(t)
        dest = t["dest"]
        dp = place_path(dest)
        ch = False
        line = t["line"]
        args = t["args"]
        argt = [self.read_op(fid, a) for a in args]
        any_taint = any(argt)
        callee = r or w

        if callee is None:
            for at in argt:
                for (res, label, src) in at:
                    ch |= self.add(fid, dest["l"], dp, label, ("indirect-call", src, line))
            return ch
        base = q.base_name(callee)

        if any_taint:
            sk = self.sink_fn(fid, callee, t)
            only = None
            keep_going = False
            if isinstance(sk, tuple):
                sk, only, keep_going = sk
            if sk:
                for i, at in enumerate(argt):
                    if only is not None and i not in only:
                        continue
                    for (res, label, src) in at:
                        desc = {"fn": fid, "sink": base, "kind": sk, "where": q.where(B, bi), "line": B.line(bi)}
                        if is_sym(label):
                            skey = (fid, base, sk)
                            if (label, skey) not in self.cond_sinks[fid]:
                                self.cond_sinks[fid][(label, skey)] = desc
                                self._summary_changed(fid)
                        else:
                            self._finding(desc, label, src, via=None)
                if not keep_going:
                    return ch

        # tokio channels: what is sent with type T arrives (whole-value taint) wherever a T is received
        if self.model_channels and base in ("tokio::sync::mpsc::Sender::send", "tokio::sync::mpsc::UnboundedSender::send", "tokio::sync::oneshot::Sender::send",
                    "tokio::sync::mpsc::Sender::try_send", "tokio::sync::mpsc::Sender::blocking_send"):
            ty = _first_ty(t)
            if ty is not None and len(argt) > 1:
                for (res, label, src) in argt[1]:
                    if is_sym(label):
                        skey = ("<channel>", ty, "channel")
                        if (label, skey) not in self.cond_sinks[fid]:
                            self.cond_sinks[fid][(label, skey)] = {"fn": fid, "sink": ty, "kind": "channel:" + ty, "where": q.where(B, bi), "line": line}
                            self._summary_changed(fid)
                    else:
                        self._channel_put(ty, label, src, line)
        if self.model_channels and base in ("tokio::sync::mpsc::Receiver::recv", "tokio::sync::mpsc::UnboundedReceiver::recv", "tokio::sync::mpsc::Receiver::try_recv"):
            ty = _first_ty(t)
            for label in self.channels.get(ty, ()):
                ch |= self.add(fid, dest["l"], dp, label, ("received from channel", ("<channel>", 0, (ty,), label), line))
        if self.model_channels and w == mir.POLL and not (r and self.ws(r)):
            sty = (t["f"].get("fnargs") or [{}])[0].get("ty", "")
            if sty.startswith("tokio::sync::oneshot::Receiver<"):
                ty = sty[len("tokio::sync::oneshot::Receiver<"):-1]
                for label in self.channels.get(ty, ()):
                    ch |= self.add(fid, dest["l"], dp + ("@Ready", "0"), label, ("received from oneshot", ("<channel>", 0, (ty,), label), line))

        if w == mir.POLL:
            if r and self.ws(r):
                binding = self._bind_env(argt[0])
                ch |= self._instantiate(fid, B, bi, t, r, binding, ("@Ready", "0"), line, "await")
            else:
                for (res, label, src) in argt[0]:
                    ch |= self.add(fid, dest["l"], dp + ("@Ready", "0"), label, ("await-external", src, line))
            return ch

        short = base.rsplit("::", 1)[-1]
        short2 = "::".join(base.rsplit("::", 2)[-2:])

        def m(tbl):
            return short in tbl or short2 in tbl

        if self.skip_callee(callee):
            return ch

        if self.ws(callee):
            ch |= self._instantiate(fid, B, bi, t, callee, self._bind_args(argt), (), line, "call")
            return ch
        if (r is None or r == w) and "::" in w:
            trait, meth = w.rsplit("::", 1)
            impls = self.G.trait_impls.get(trait, {}).get(meth, [])
            ws_impls = [i for i in impls if self.ws(i)]
            if ws_impls:
                binding = self._bind_args(argt)
                for im in ws_impls:
                    ch |= self._instantiate(fid, B, bi, t, im, binding, (), line, "dyn-call")
                return ch

        ch |= self._closure_args(fid, B, bi, t, args, argt, line)

        if not any_taint:
            return ch
        if m(CLEAN) or self.clean_callee(callee, t):
            return ch
        if w.endswith("::branch"):
            for (res, label, src) in argt[0]:
                if res[:2] in (("@Ok", "0"), ("@Some", "0"), ("@+", "0")):
                    ch |= self.add(fid, dest["l"], dp + ("@Continue", "0") + res[2:], label, ("?", src, line))
                elif res[:1] in (("@Err",), ("@None",)):
                    ch |= self.add(fid, dest["l"], dp + ("@Break", "0") + res, label, ("?", src, line))
                else:
                    ch |= self.add(fid, dest["l"], dp, label, ("?", src, line))
            return ch
        if w.endswith("::from_residual") and argt:
            # the residual of `?` rebuilds the failure variant only: Err(From::from(e)) for a Result, None for an Option
            dty = str(B.locals[dest["l"]].get("ty", ""))
            if "option::Option<" in dty and not dp:
                return ch
            for (res, label, src) in argt[0]:
                tail = res[2:] if res[:2] == ("@Err", "0") else ()
                ch |= self.add(fid, dest["l"], dp + ("@Err", "0") + tail, label, ("?-residual", src, line))
            return ch
        if m(UNWRAP):
            for (res, label, src) in argt[0]:
                if res[:2] in (("@Ok", "0"), ("@Some", "0"), ("@+", "0")):
                    ch |= self.add(fid, dest["l"], dp + res[2:], label, ("unwrap", src, line))
                elif res[:1] in (("@Err",), ("@None",)):
                    pass
                else:
                    ch |= self.add(fid, dest["l"], dp, label, ("unwrap", src, line))
            for at in argt[1:]:
                for (res, label, src) in at:
                    ch |= self.add(fid, dest["l"], dp + res, label, ("unwrap-default", src, line))
            return ch
        if short == "ok" and len(args) == 1:
            for (res, label, src) in argt[0]:
                if res[:2] == ("@Ok", "0"):
                    ch |= self.add(fid, dest["l"], dp + ("@Some", "0") + res[2:], label, ("ok()", src, line))
                elif res[:1] == ("@Err",):
                    pass
                else:
                    ch |= self.add(fid, dest["l"], dp, label, ("ok()", src, line))
            return ch
        if short == "map_err":
            for (res, label, src) in argt[0]:
                if res[:1] == ("@Ok",):
                    ch |= self.add(fid, dest["l"], dp + res, label, ("map_err", src, line))
                elif not res:
                    ch |= self.add(fid, dest["l"], dp + ("@Ok", "0"), label, ("map_err", src, line))
            return ch
        if m(SAME_SHAPE):
            for (res, label, src) in argt[0]:
                ch |= self.add(fid, dest["l"], dp + res, label, (short, src, line))
            return ch
        for i, at in enumerate(argt):
            for (res, label, src) in at:
                ch |= self.add(fid, dest["l"], dp, label, ("ext:" + short2, src, line))
                if i != 0 and args[0]["k"] in ("copy", "move"):
                    recv = self._mut_receiver(B, args[0])
                    if recv is not None:
                        ch |= self.add(fid, recv["l"], place_path(recv), label, ("ext-mut:" + short2, src, line))
        return ch

    def _mut_receiver(self, B, o):
        seen = 0
        while o["k"] in ("copy", "move") and seen < 6:
            seen += 1
            d = B.single_def(o["p"]["l"])
            if d is None or d[2] != "assign":
                return None
            rv = d[3]["rv"]
            if rv["k"] == "ref":
                if rv.get("mut"):
                    p = rv["p"]
                    if p["p"] == ["*"]:
                        o = {"k": "copy", "p": {"l": p["l"], "p": []}}
                        if B.single_def(p["l"]) is None:
                            return {"l": p["l"], "p": []}
                        continue
                    return p
                return None
            if rv["k"] == "use":
                o = rv["o"]
                continue
            return None
        return None

    def _closure_args(self, fid, B, bi, t, args, argt, line):
        """a workspace closure / coroutine object passed to an external function (map, map_err, spawn, service_fn ...):
        its body runs with the captured values and (conservatively) with every other tainted argument as its parameter"""
        ch = False
        for i, a in enumerate(args):
            if a["k"] not in ("copy", "move"):
                continue
            head = B.locals[a["p"]["l"]].get("head")
            if not head or not self.ws(head) or self.F.fns[head]["kind"] not in ("Closure", "SyntheticCoroutineBody"):
                continue
            binding = self._bind_env(argt[i])
            for j, at in enumerate(argt):
                if j == i:
                    continue
                for (res, label, src) in at:
                    for k in range(2, self.F.fns[head]["arg_count"] + 1):
                        binding[("P", k)].append((label, src))
            w, r = mir.callee_of(t)
            short = q.base_name(r or w).rsplit("::", 1)[-1]
            prefix = ("@Err", "0") if short == "map_err" else ()
            ch |= self._instantiate(fid, B, bi, t, head, binding, prefix, line, "closure")
        return ch

    # ------------------------------------------------------------------ reporting
    def _finding(self, desc, label, src, via):
        owner = desc["fn"]
        entry = self.entry_of(src) if src else "?"
        key = (owner, desc["sink"], desc["kind"], label, entry)
        f = self.findings.get(key)
        if f is None:
            f = {"fn": owner, "sink": desc["sink"], "kind": desc["kind"], "label": label, "where": desc["where"], "entry": entry,
                 "sites": set(), "trace": self.trace(src), "via": []}
            self.findings[key] = f
        f["sites"].add(desc["line"])
        chain = ([via.replace("azure_proxy_agent::", "")] if via else []) + desc.get("via", [])
        if chain and chain not in f["via"] and len(f["via"]) < 6:
            f["via"].append(chain)

    def entry_of(self, factkey):
        """the nearest hop (walking back from the sink) at which the label arrived as a callee's return value,
        or the seed reason when it was produced in this function"""
        cur = factkey
        seen = set()
        while cur is not None and cur not in seen:
            seen.add(cur)
            why = self.why.get(cur)
            if why is None:
                return "param"
            if "-return:" in why[0]:
                return why[0].split("-return:", 1)[1]
            nxt = why[1]
            if not (isinstance(nxt, tuple) and len(nxt) == 4):
                return "seed:%s" % why[0]
            cur = nxt
        return "?"

    def trace(self, factkey, limit=16):
        out = []
        seen = set()
        cur = factkey
        while cur is not None and cur not in seen and len(out) < limit:
            seen.add(cur)
            why = self.why.get(cur)
            fid, local, path, label = cur
            fn = self.F.fns.get(fid, {})
            name = None
            if fn:
                try:
                    name = fn["locals"][local].get("name")
                except Exception:
                    name = None
            step = "%s: %s%s [%s]" % (fid.replace("azure_proxy_agent::", ""), name or ("_%d" % local), "".join("." + p for p in path), label)
            if why is None:
                out.append(step)
                break
            out.append("%s <= %s @L%s" % (step, why[0], why[2] if len(why) > 2 else "?"))
            nxt = why[1]
            cur = nxt if isinstance(nxt, tuple) and len(nxt) == 4 else None
        return out


def _first_ty(term):
    for g in term["f"].get("fnargs", []):
        if "ty" in g:
            return g["ty"]
    return None


def _short(callee):
    return q.base_name(callee).split("::{closure")[0].rsplit("::", 1)[-1]


def place_path(place):
    out = []
    for e in place["p"]:
        if isinstance(e, dict):
            if "f" in e:
                out.append(e["n"] if e.get("n") is not None else str(e["f"]))
            elif "d" in e:
                out.append("@" + e["d"])
    return tuple(out)


def compatible(tp, p):
    n = min(len(tp), len(p))
    for a, b in zip(tp[:n], p[:n]):
        if a == b:
            continue
        if a == "@+" and b in ("@Ok", "@Some"):
            continue
        if b == "@+" and a in ("@Ok", "@Some"):
            continue
        return False
    return True
