"""`verif selftest [id-substring]`: test the checkers both ways.

Each mutant of selftest/mutants.json is a one-edit variant of /repo (text replacement in one file). It is applied to a scratch
worktree created outside /repo and /verif, the facts are rebuilt there (so the mutant must still compile), the mutant's property
check is run and must report the expected rule(s); negative mutants (behaviour-preserving rewrites) must stay silent.
Results are written to selftest/results.json. The scratch worktree and its evidence directory are removed afterwards."""
import json
import os
import shutil
import subprocess
import sys
import tempfile
import time

from . import build

HERE = build.VERIF


def main(argv):
    # selectors: <id substring> | prop=Cxx (mutants whose own or listed checks include Cxx) | shard=i/n (every n-th, for parallel runs)
    opts = dict(a.split("=", 1) for a in argv if "=" in a)
    sel = next((a for a in argv if "=" not in a), "")
    muts = json.load(open(os.path.join(HERE, "selftest", "mutants.json")))
    muts = [m for m in muts if sel in m["id"]]
    if "prop" in opts:
        muts = [m for m in muts if m["prop"] == opts["prop"] or opts["prop"] in (m.get("all_checks") or [])]
    if "shard" in opts:
        i_, n_ = [int(x) for x in opts["shard"].split("/")]
        muts = muts[i_::n_]
    wt = tempfile.mkdtemp(prefix="verif_selftest_")
    ev = tempfile.mkdtemp(prefix="verif_selftest_ev_")
    os.rmdir(wt)
    results = []
    bad = 0
    try:
        subprocess.check_call(["git", "-C", "/repo", "worktree", "add", "-q", "--detach", wt, "HEAD"])
        for m in muts:
            t0 = time.time()
            subprocess.check_call(["git", "-C", wt, "checkout", "-q", "--", "."])
            subprocess.check_call(["git", "-C", wt, "clean", "-fdq"])
            if m.get("patch"):
                r = subprocess.run(["git", "-C", wt, "apply", os.path.join(HERE, "selftest", "mutants", m["patch"])], stderr=subprocess.PIPE)
                if r.returncode != 0:
                    results.append({"id": m["id"], "status": "STALE", "detail": r.stderr.decode()[-300:]})
                    print("%-40s STALE (patch does not apply)" % m["id"])
                    bad += 1
                    continue
                src = None
            else:
                p = os.path.join(wt, m["file"])
                src = open(p).read()
            if src is None:
                pass
            elif src.count(m["old"]) != 1:
                results.append({"id": m["id"], "status": "STALE", "detail": "anchor text occurs %d times" % src.count(m["old"])})
                print("%-40s STALE (anchor text occurs %d times)" % (m["id"], src.count(m["old"])))
                bad += 1
                continue
            else:
                open(p, "w").write(src.replace(m["old"], m["new"]))
            if False:
                src = ""
            env = dict(os.environ, GPA_REPO=wt, GPA_EVIDENCE_DIR=ev)
            checks = m.get("all_checks") or [m["prop"]]
            fired = {}
            err = None
            for c in checks:
                r = subprocess.run([os.path.join(HERE, "verif"), "check", c, "--tier", "thorough"], env=env, cwd=HERE,
                                   stdout=subprocess.PIPE, stderr=subprocess.STDOUT)
                out = r.stdout.decode(errors="replace")
                if r.returncode not in (0, 1):
                    err = out[-800:]
                    break
                fired[c] = sorted({l.split("rule=")[1].split(" ")[0].replace(".floor", "") for l in out.splitlines() if l.strip().startswith("rule=")})
            if err:
                status = "DOES-NOT-BUILD" if "cargo check" in err or "BuildError" in err or "cannot build" in err else "ERROR"
                results.append({"id": m["id"], "status": status, "detail": err[-400:]})
                print("%-40s %s" % (m["id"], status))
                bad += 1
                continue
            allf = sorted({r_ for v in fired.values() for r_ in v})
            if m.get("kind") == "negative":
                ok = not allf
                status = "silent (ok)" if ok else "FALSE-ALARM"
            else:
                ok = any(e in allf for e in m["expect"])
                status = "caught" if ok else "MISSED"
            bad += 0 if ok else 1
            results.append({"id": m["id"], "prop": m["prop"], "status": status, "expected": m["expect"], "fired": allf, "note": m["note"],
                            "wall_s": round(time.time() - t0, 1)})
            print("%-40s %-12s fired=%s" % (m["id"], status, allf))
    finally:
        subprocess.call(["git", "-C", "/repo", "worktree", "remove", "--force", wt])
        shutil.rmtree(wt, ignore_errors=True)
        shutil.rmtree(ev, ignore_errors=True)
    if not sel and not opts:
        with open(os.path.join(HERE, "selftest", "results.json"), "w") as f:
            json.dump(results, f, indent=1)
    print("selftest: %d mutants, %d not as expected" % (len(results), bad))
    return 1 if bad else 0
