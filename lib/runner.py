"""`verif check <Cxx>`: load facts of /repo's working tree, run the property's rule module."""
import importlib
import os
import sys
import time
import traceback

from . import build, facts, report

COMMON_ASSUMPTIONS = [
    "Engine A: rustc (nightly 1.97) front end, MIR construction and Instance::try_resolve; the ~700-line "
    "gpa-facts extractor; facts are the pre-coroutine-lowering MIR (mir_promoted) of the Linux, non-test, "
    "default-feature build of the four workspace crates; cfg(windows) and cfg(test) code is out of scope",
    "unwind edges are ignored by path rules (a panic is C13's subject, not a path on which a property is claimed)",
]


def main(argv):
    if not argv:
        print("usage: verif check <Cxx> [--tier quick|thorough]")
        return 2
    prop = argv[0]
    tier = os.environ.get("VERIF_TIER") or "quick"
    if "--tier" in argv:
        tier = argv[argv.index("--tier") + 1]
    t0 = time.time()
    F = facts.load()
    R = report.Report(prop, tier, F)
    R.t0 = t0
    R.assumptions.extend(COMMON_ASSUMPTIONS)
    nh = getattr(F, "new_helpers", None) or {}
    if getattr(F, "renamed", None):
        R.assumptions.append("functions recognised as renamed / moved (same signature) and read under the id the rules know: %s"
                             % ", ".join("%s <- %s" % (o.rsplit("::", 1)[-1], n.rsplit("::", 1)[-1]) for o, n in F.renamed))
    if nh.get("inlined") or nh.get("combinators") or nh.get("unrolled"):
        R.assumptions.append("normalisation of this tree before the rules ran: %d new helper call(s) analysed in place (%s), combinators "
                             "written out in %d function(s), %d array loop(s) unrolled"
                             % (len(nh.get("inlined", [])), ", ".join(sorted({c.rsplit("::", 1)[-1] for _, c in nh.get("inlined", [])})) or "-",
                                len(nh.get("combinators", [])), sum(n for _, n in nh.get("unrolled", []))))
    try:
        mod = importlib.import_module("rules." + prop.lower())
    except ImportError:
        print("no rule module for %s" % prop, file=sys.stderr)
        return 2
    try:
        mod.run(F, R, tier)
    except report.BrokenChecker as e:
        print("BROKEN-CHECKER property=%s: %s" % (prop, e), file=sys.stderr)
        return 3
    except Exception:
        traceback.print_exc()
        print("BROKEN-CHECKER property=%s: internal error in the rule layer" % prop, file=sys.stderr)
        return 3
    return R.finish()
