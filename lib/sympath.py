"""Symbolic evaluation of path / string values and fs-effect inventories over the MIR facts (for C17).

sym(B, operand, env) -> set of symbolic strings: literal text with symbols such as <EXE_DIR>, <param:x>, <call:f>.
effects(F, fid, env) -> list of (kind, symbolic args, where, owner function): every fs-mutating / process-spawning call
reachable from fid, with workspace callees expanded under the caller's argument bindings (flow-insensitive).
"""
from . import mir, q

IDENT = ("from", "new", "to_path_buf", "as_path", "as_ref", "deref", "clone", "to_string", "to_owned", "as_str", "into", "borrow",
         "as_os_str", "to_os_string", "into_os_string", "path_to_string", "to_string_lossy", "into_owned", "to_vec", "must_use")

FS_EFFECTS = {
    "std::fs::copy": ("copy", (0, 1)), "std::fs::remove_file": ("remove_file", (0,)), "std::fs::remove_dir_all": ("remove_dir_all", (0,)),
    "std::fs::remove_dir": ("remove_dir", (0,)), "std::fs::create_dir_all": ("create_dir_all", (0,)), "std::fs::create_dir": ("create_dir", (0,)),
    "std::fs::write": ("write", (0,)), "std::fs::rename": ("rename", (0, 1)), "std::fs::File::create": ("create", (0,)),
    "std::fs::OpenOptions::open": ("open", (1,)), "std::fs::set_permissions": ("chmod", (0,)), "std::os::unix::fs::symlink": ("symlink", (0, 1)),
    "std::fs::hard_link": ("hard_link", (0, 1)),
}


def norm_join(a, b):
    if b.startswith("/"):
        return b
    if a.endswith("/"):
        return a + b
    return a + "/" + b


class Sym:
    def __init__(self, F, crates):
        # effects are followed through workspace calls by this engine itself: it works on the functions as written
        from . import facts as _facts
        F = _facts.uninlined_view(F)
        self.F = F
        self.crates = set(crates)
        self.bodies = {}
        self._ret_cache = {}

    def body(self, fid):
        if fid not in self.bodies:
            self.bodies[fid] = mir.Body(self.F.fns[fid], self.F)
        return self.bodies[fid]

    def ws(self, fid):
        fn = self.F.fns.get(fid)
        return fn is not None and fn["crate"] in self.crates

    def sym(self, B, o, env, depth=24):
        if depth <= 0:
            return {"<deep>"}
        if o["k"] == "const":
            v = o.get("val")
            if isinstance(v, str):
                return {v}
            if "promoted" in o:
                cs = q.promoted_consts(B.fn, o["promoted"])
                return {c[1] for c in cs if isinstance(c[1], str)} or {"<promoted>"}
            if v is not None:
                return {str(v)}
            return {"<const:%s>" % (o.get("def") or o.get("ty"))}
        return self.sym_place(B, o["p"], env, depth)

    def sym_place(self, B, place, env, depth):
        l = place["l"]
        fields = mir.field_names(place)
        out = set()
        defs = B.defs.get(l, [])
        if 1 <= l <= B.arg_count and not defs:
            nm = B.locals[l].get("name") or str(l)
            return set(env.get(nm, {"<param:%s>" % nm}))
        if B.fn["kind"] in ("Closure",) and l == 1 and fields:
            idx = [e for e in place["p"] if isinstance(e, dict) and "f" in e][0]["f"]
            nm = B.upvar.get(idx, str(idx))
            return set(env.get(nm, {"<param:%s>" % nm}))
        if not defs:
            return {"<undef>"}
        for (bi, si, kind, payload) in defs:
            if kind == "assign":
                if payload["lhs"]["p"]:
                    continue
                rv = payload["rv"]
                if rv["k"] in ("use", "cast"):
                    o_ = rv["o"]
                    if o_["k"] in ("copy", "move") and place["p"]:
                        # `c = table_entry; c.src`: the projection goes on into what was moved
                        out |= self.sym_place(B, {"l": o_["p"]["l"], "p": o_["p"]["p"] + place["p"]}, env, depth - 1)
                    else:
                        out |= self.sym(B, o_, env, depth - 1)
                elif rv["k"] == "ref":
                    out |= self.sym_place(B, {"l": rv["p"]["l"], "p": rv["p"]["p"] + [e for e in place["p"] if e != "*"]} if place["p"] else rv["p"], env, depth - 1)
                elif rv["k"] == "agg" and rv["ak"] in ("tuple", "adt") and place["p"] and self._agg_member(rv, place["p"]) is not None:
                    # a member of a value built here: `t.1`, `(x as Some).0.1` - the projection goes on into the member
                    op_, rest_ = self._agg_member(rv, place["p"])
                    if op_["k"] in ("copy", "move"):
                        out |= self.sym_place(B, {"l": op_["p"]["l"], "p": op_["p"]["p"] + rest_}, env, depth - 1)
                    else:
                        out |= self.sym(B, op_, env, depth - 1)
                elif rv["k"] == "agg" and rv["ak"] == "tuple" and fields and fields[0].isdigit():
                    out |= self.sym(B, rv["ops"][int(fields[0])], env, depth - 1)
                else:
                    out.add("<%s>" % rv["k"])
            elif kind == "call":
                out |= self.sym_call(B, bi, payload, env, depth - 1)
        return out or {"<undef>"}

    @staticmethod
    def _calls_in_flow_order(B):
        """call sites in reverse post-order of the CFG (block numbers are not an execution order once loops were unrolled or helpers
        spliced in: their blocks are appended)"""
        seen, post = set(), []
        stack = [(0, iter([tg for tg, _ in B.succ(0)]))]
        seen.add(0)
        while stack:
            b, it = stack[-1]
            nxt = next(it, None)
            if nxt is None:
                post.append(b)
                stack.pop()
            elif nxt not in seen:
                seen.add(nxt)
                stack.append((nxt, iter([tg for tg, _ in B.succ(nxt)])))
        pos = {b: i for i, b in enumerate(reversed(post))}
        return sorted(B.calls, key=lambda c: (pos.get(c[0], 10 ** 9), c[0]))

    @staticmethod
    def _agg_member(rv, proj):
        pr = [e for e in proj if e != "*"]
        if not pr:
            return None
        if rv["ak"] == "adt" and isinstance(pr[0], dict) and "d" in pr[0]:
            if rv.get("variant") != pr[0]["d"] or len(pr) < 2 or not (isinstance(pr[1], dict) and "f" in pr[1]) or pr[1]["f"] >= len(rv["ops"]):
                return None
            return rv["ops"][pr[1]["f"]], pr[2:]
        if isinstance(pr[0], dict) and "f" in pr[0] and "d" not in pr[0] and pr[0]["f"] < len(rv["ops"]):
            return rv["ops"][pr[0]["f"]], pr[1:]
        return None

    def sym_call(self, B, bi, t, env, depth):
        w, r = mir.callee_of(t)
        name = q.base_name(r or w or "")
        short = name.rsplit("::", 1)[-1]
        args = t["args"]
        if q.ends(name, "Path::join", "PathBuf::join"):
            out = set()
            for a in self.sym(B, args[0], env, depth):
                for b in self.sym(B, args[1], env, depth):
                    out.add(norm_join(a, b))
            return out
        if q.ends(name, "Path::parent"):
            return {a.rsplit("/", 1)[0] if "/" in a else "<parent:%s>" % a for a in self.sym(B, args[0], env, depth)}
        if name.endswith("misc_helpers::get_current_exe_dir"):
            return {"<EXE_DIR>"}
        if name.endswith("fmt::format") or short == "format":
            fmt = q.format_of(B, {"k": "copy", "p": {"l": t["dest"]["l"], "p": []}})
            if fmt and fmt["pieces"] is not None:
                outs = {""}
                for p in fmt["pieces"]:
                    if p[0] == "lit":
                        outs = {x + p[1] for x in outs}
                    else:
                        vals = self.sym(B, fmt["args"][p[1]]["operand"], env, depth) if p[1] < len(fmt["args"]) else {"<arg>"}
                        outs = {x + v for x in outs for v in vals}
                return outs
            return {"<format>"}
        if short in ("path_to_string", "get_file_name") and args:
            return self.sym(B, args[0], env, depth)
        if self.ws(r or w or ""):
            callee = r or w
            fn = self.F.fns[callee]
            Bc = self.body(callee)
            env2 = {}
            for i, a in enumerate(args):
                nm = Bc.locals[i + 1].get("name") or str(i + 1)
                env2[nm] = self.sym(B, a, env, depth)
            return self.sym_place(Bc, {"l": 0, "p": []}, env2, depth)
        if short in IDENT and args:
            return self.sym(B, args[0], env, depth)
        return {"<call:%s>" % short}

    # ------------------------------------------------------------------ effects
    def effects(self, fid, env=None, depth=10, seen=()):
        """[(kind, args, where, owner, chain)] – chain = functions on the expansion path (outermost first)"""
        out = []
        if fid not in self.F.fns or depth <= 0 or fid in seen:
            return out
        B = self.body(fid)
        env = env or {}
        for bi, w, r, t in self._calls_in_flow_order(B):
            if w == mir.POLL:
                continue
            name = q.base_name(r or w or "")
            if name in FS_EFFECTS:
                kind, idxs = FS_EFFECTS[name]
                out.append((kind, tuple(frozenset(self.sym(B, t["args"][i], env)) for i in idxs), q.where(B, bi), fid, seen + (fid,)))
                continue
            if name.endswith("misc_helpers::execute_command"):
                cmd = frozenset(self.sym(B, t["args"][0], env))
                argv = self._vec_args(B, t["args"][1], env)
                out.append(("spawn", (cmd, argv), q.where(B, bi), fid, seen + (fid,)))
                continue
            if name in ("std::process::Command::new",):
                out.append(("spawn", (frozenset(self.sym(B, t["args"][0], env)), frozenset()), q.where(B, bi), fid, seen + (fid,)))
                continue
            callee = r or w
            if self.ws(callee):
                Bc = self.body(callee)
                env2 = {}
                for i, a in enumerate(t["args"]):
                    if i + 1 < len(Bc.locals):
                        nm = Bc.locals[i + 1].get("name") or str(i + 1)
                        env2[nm] = self.sym(B, a, env)
                target = callee
                fn = self.F.fns[callee]
                if fn.get("is_async") and (callee + "::{closure#0}") in self.F.fns:
                    target = callee + "::{closure#0}"
                out += self.effects(target, env2, depth - 1, seen + (fid,))
            # closures created here and passed on
        for blk in B.blocks:
            for s in blk["stmts"]:
                if s["k"] == "assign" and s["rv"]["k"] == "agg" and s["rv"]["ak"] in ("closure", "coroutine") and s["rv"].get("def") in self.F.fns:
                    cid = s["rv"]["def"]
                    if cid == fid or cid in seen:
                        continue
                    Bc = self.body(cid)
                    env2 = {}
                    for i, o in enumerate(s["rv"]["ops"]):
                        nm = Bc.upvar.get(i, str(i))
                        env2[nm] = self.sym(B, o, env)
                    # an async fn's coroutine: parameters are the captures
                    out += self.effects(cid, env2, depth - 1, seen + (fid,))
        return out

    def _vec_args(self, B, o, env):
        """literal elements of a `vec![..]` argument (Box::new_uninit + array store + into_vec lowering)"""
        cands = set()
        frontier = [o]
        steps = 0
        while frontier and steps < 12:
            steps += 1
            x = frontier.pop()
            if x["k"] not in ("copy", "move"):
                continue
            l = x["p"]["l"]
            if l in cands:
                continue
            cands.add(l)
            for (bi, si, kind, payload) in B.defs.get(l, []):
                if kind == "assign" and not payload["lhs"]["p"] and payload["rv"]["k"] in ("use", "cast"):
                    frontier.append(payload["rv"]["o"])
                elif kind == "call" and payload["args"]:
                    frontier.append(payload["args"][0])
        vals = []
        for blk in B.blocks:
            for s in blk["stmts"]:
                if s["k"] == "assign" and s["lhs"]["l"] in cands and s["rv"]["k"] == "agg" and s["rv"]["ak"] == "array":
                    for op in s["rv"]["ops"]:
                        vs = self.sym(B, op, env)
                        vals.append(one_of(vs))
        return tuple(vals)


def one_of(vs):
    return next(iter(vs)) if len(vs) == 1 else "|".join(sorted(vs))
