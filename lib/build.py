"""Fact building: runs Engine A (gpa-facts driver) and Engine B (clang) on /repo's working tree.

Facts are cached by a content hash of everything the analysis reads, so every invocation
reflects the current working tree; nothing lives under /tmp except scratch that is removed.
"""
import fcntl
import glob
import hashlib
import json
import os
import shutil
import subprocess
import sys
import time

VERIF = os.path.dirname(os.path.dirname(os.path.abspath(__file__)))
REPO = os.environ.get("GPA_REPO", "/repo")
CACHE = os.path.join(VERIF, ".cache")
DRIVER_DIR = os.path.join(VERIF, "driver")
DRIVER_BIN = os.path.join(CACHE, "driver-target", "debug", "gpa-facts")
CRATES = ["azure_proxy_agent", "proxy_agent_shared", "ProxyAgentExt", "proxy_agent_setup"]
MEMBER_PKGS = ["azure-proxy-agent", "proxy_agent_shared", "ProxyAgentExt", "proxy_agent_setup"]
FIXTURE_DIR = os.path.join(VERIF, "selftest", "fixtures")


class BuildError(Exception):
    pass


def _env():
    e = dict(os.environ)
    e["CARGO_NET_OFFLINE"] = "true"
    e["RUSTC_ICE"] = "0"
    e.pop("RUSTC_WRAPPER", None)
    return e


def nightly_sysroot():
    return subprocess.check_output(["rustc", "+nightly", "--print", "sysroot"], env=_env()).decode().strip()


def input_files(repo):
    out = []
    for root, dirs, files in os.walk(repo):
        rel = os.path.relpath(root, repo)
        parts = rel.split(os.sep)
        if parts[0] in ("target", ".git", "e2etest", "doc", "docker", "pkg_debian", "rpmbuild", "Setup", "ebpf"):
            dirs[:] = []
            continue
        for f in files:
            p = os.path.join(root, f)
            if f.endswith(".rs") or f in ("Cargo.toml", "Cargo.lock", "config.toml") or parts[0] == "linux-ebpf":
                out.append(p)
    out.sort()
    return out


def tree_hash(repo=REPO):
    h = hashlib.sha256()
    for p in input_files(repo):
        h.update(os.path.relpath(p, repo).encode())
        h.update(b"\0")
        with open(p, "rb") as f:
            h.update(f.read())
        h.update(b"\0")
    # the analysers themselves are part of the key
    for p in sorted(glob.glob(os.path.join(DRIVER_DIR, "src", "*.rs"))) + sorted(
        glob.glob(os.path.join(VERIF, "cstubs", "bpf", "*.h"))
    ) + [os.path.join(VERIF, "lib", "ebpf_extract.py")]:
        if os.path.exists(p):
            with open(p, "rb") as f:
                h.update(f.read())
    return h.hexdigest()[:24]


class Lock:
    def __enter__(self):
        os.makedirs(CACHE, exist_ok=True)
        self.f = open(os.path.join(CACHE, "lock"), "w")
        fcntl.flock(self.f, fcntl.LOCK_EX)
        return self

    def __exit__(self, *a):
        fcntl.flock(self.f, fcntl.LOCK_UN)
        self.f.close()


def build_driver(verbose=False):
    src_m = max(os.path.getmtime(p) for p in glob.glob(os.path.join(DRIVER_DIR, "src", "*.rs")))
    if os.path.exists(DRIVER_BIN) and os.path.getmtime(DRIVER_BIN) >= src_m:
        return
    e = _env()
    e["CARGO_TARGET_DIR"] = os.path.join(CACHE, "driver-target")
    r = subprocess.run(["cargo", "+nightly", "build", "--offline"], cwd=DRIVER_DIR, env=e,
                       stdout=subprocess.PIPE, stderr=subprocess.STDOUT)
    if r.returncode != 0 or not os.path.exists(DRIVER_BIN):
        raise BuildError("driver build failed:\n" + r.stdout.decode(errors="replace")[-4000:])


def _run_driver(workdir, target_dir, facts_dir, pkgs, extra=()):
    e = _env()
    e["LD_LIBRARY_PATH"] = nightly_sysroot() + "/lib"
    e["RUSTFLAGS"] = "-Zmir-opt-level=0 -Awarnings"
    e["RUSTC_WORKSPACE_WRAPPER"] = DRIVER_BIN
    e["GPA_FACTS_DIR"] = facts_dir
    e["CARGO_TARGET_DIR"] = target_dir
    # make sure the wrapper really runs for the members: drop their fingerprints
    for prof in glob.glob(os.path.join(target_dir, "*", ".fingerprint")):
        for pkg in pkgs:
            for d in glob.glob(os.path.join(prof, pkg + "-*")):
                shutil.rmtree(d, ignore_errors=True)
    cmd = ["cargo", "+nightly", "check", "--offline"] + list(extra)
    r = subprocess.run(cmd, cwd=workdir, env=e, stdout=subprocess.PIPE, stderr=subprocess.STDOUT)
    return r


def build_facts(repo=REPO, verbose=False):
    """Return the facts directory for the current working tree of `repo` (building if needed)."""
    with Lock():
        build_driver(verbose)
        h = tree_hash(repo)
        fdir = os.path.join(CACHE, "facts", h)
        marker = os.path.join(fdir, "OK")
        if os.path.exists(marker):
            os.utime(marker)
            return fdir
        shutil.rmtree(fdir, ignore_errors=True)
        os.makedirs(fdir)
        t0 = time.time()
        target = os.path.join(CACHE, "target")
        r = _run_driver(repo, target, fdir, MEMBER_PKGS, ["--workspace"])
        if r.returncode != 0:
            shutil.rmtree(fdir, ignore_errors=True)
            raise BuildError("cargo check of /repo through the fact extractor failed:\n"
                             + r.stdout.decode(errors="replace")[-6000:])
        for c in CRATES:
            p = os.path.join(fdir, c + ".json")
            if not os.path.exists(p) or os.path.getsize(p) < 1000:
                shutil.rmtree(fdir, ignore_errors=True)
                raise BuildError("fact file missing or empty for crate %s (wrapper not run?)" % c)
        # positive fixtures analysed by the same engine
        if os.path.isdir(FIXTURE_DIR):
            ft = os.path.join(CACHE, "fixture-target")
            r = _run_driver(FIXTURE_DIR, ft, fdir, ["gpa_fixture"])
            if r.returncode != 0 or not os.path.exists(os.path.join(fdir, "gpa_fixture.json")):
                shutil.rmtree(fdir, ignore_errors=True)
                raise BuildError("fixture crate analysis failed:\n" + r.stdout.decode(errors="replace")[-4000:])
        # Engine B
        try:
            from . import ebpf_extract
            ebpf_extract.extract(repo, fdir)
        except ImportError:
            pass
        with open(os.path.join(fdir, "meta.json"), "w") as f:
            json.dump({"hash": h, "built_s": round(time.time() - t0, 2), "repo": repo}, f)
        open(marker, "w").close()
        _gc(keep=fdir)
        return fdir


def _gc(keep, max_dirs=6):
    root = os.path.join(CACHE, "facts")
    ds = [os.path.join(root, d) for d in os.listdir(root)]
    ds = [d for d in ds if d != keep]
    ds.sort(key=lambda d: os.path.getmtime(os.path.join(d, "OK")) if os.path.exists(os.path.join(d, "OK")) else 0)
    while len(ds) > max_dirs - 1:
        shutil.rmtree(ds.pop(0), ignore_errors=True)


def setup():
    """MANIFEST.setup_cmd: build the driver and warm the dependency target dir."""
    os.makedirs(CACHE, exist_ok=True)
    fdir = build_facts()
    print("setup ok: facts at", fdir)


if __name__ == "__main__":
    setup()
