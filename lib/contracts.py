"""Helper contracts: small workspace functions that property rules trust *by name* get their own body-level rule, so that a change
inside the helper (not at the anchor) is seen. Each function returns nothing and records instances on R."""
from . import mir, q

RET = {"k": "copy", "p": {"l": 0, "p": []}}


def const_names(B, o):
    """named constants / literals an operand can be"""
    out = set()
    for x in B.origins(o):
        if x[0] == "const":
            out.add((x[1] or "").rsplit("::", 1)[-1] or repr(x[2]))
        elif x[0] == "promoted":
            for c in q.promoted_consts(B.fn, x[1]):
                out.add((c[0] or "").rsplit("::", 1)[-1] or repr(c[1]))
        else:
            out.add("<%s>" % x[0])
    return out


def comparisons(B):
    """[(op, subject field path or None, constant names, block)] for every PartialEq::eq/ne call"""
    out = []
    for bi, w, r, t in B.calls:
        if w == mir.POLL or not q.ends(w or "", "eq", "ne") or len(t["args"]) != 2:
            continue
        subj, consts = None, set()
        for a in t["args"]:
            org = B.origins(a)
            ps = [x for x in org if x[0] == "param"]
            if ps and len(ps) == len(org):
                subj = ".".join((str(ps[0][1]),) + tuple(ps[0][2]))
            else:
                consts |= const_names(B, a)
        out.append((q.base_name(w).rsplit("::", 1)[-1], subj, frozenset(consts), bi))
    return out


def conjunction_of_ne(F, R, rule, fid, field, names, what):
    """fid returns `self.<field> != A && self.<field> != B ...` for exactly the named constants"""
    fn = R.anchor(fid, rule)
    if not fn:
        return
    B = mir.Body(fn, F)
    cmps = comparisons(B)
    got = {(op, s, c) for op, s, c, _ in cmps}
    want = {("ne", "self." + field, frozenset([n])) for n in names}
    ro = B.origins(RET)
    ret_ok = bool(ro) and all((o[0] == "const" and o[2] in (0, False)) or (o[0] == "call" and q.ends(o[1], "ne")) for o in ro)
    R.check(got == want and ret_ok, rule, "%s:%s:contract" % (rule, fid), "%s:%s" % (fn["file"], fn["line"]),
            "%s: true iff %s" % (what, " and ".join("%s != %s" % (field, n) for n in names)),
            "%s no longer is the conjunction %s: comparisons %s, result origins %s"
            % (fid.rsplit("::", 1)[-1], sorted(names), sorted((op, s, sorted(c)) for op, s, c in got), sorted(map(str, ro))))


def result_is_call_on(F, R, rule, fid, callee, receiver_chain, const_arg, what):
    """fid returns callee(<receiver_chain applied to a self field>, const_arg) and nothing else.
    receiver_chain: (field path string, [callee suffixes applied outermost last])"""
    fn = R.anchor(fid, rule)
    if not fn:
        return
    B = mir.Body(fn, F)
    ro = B.origins(RET)
    ok = bool(ro) and all(o[0] == "call" and q.ends(o[1], callee) for o in ro)
    detail = sorted(map(str, ro))
    if ok:
        for o in ro:
            t = B.blocks[o[2]]["term"]
            field, chain = receiver_chain
            cur = t["args"][0]
            for c in reversed(chain):
                org = B.origins(cur)
                if not org or not all(x[0] == "call" and q.ends(x[1], c) for x in org):
                    ok = False
                    detail = "receiver is not %s(..): %s" % (c, sorted(map(str, org)))
                    break
                cur = B.blocks[next(iter(org))[2]]["term"]["args"][0]
            if ok:
                org = B.origins(cur)
                if not org or not all(x[0] == "param" and ".".join((str(x[1]),) + tuple(x[2])) == field for x in org):
                    ok = False
                    detail = "innermost receiver is not %s: %s" % (field, sorted(map(str, org)))
            if ok and const_arg is not None and const_names(B, t["args"][1]) != {const_arg}:
                ok = False
                detail = "argument is %s, expected %s" % (sorted(const_names(B, t["args"][1])), const_arg)
    R.check(ok, rule, "%s:%s:contract" % (rule, fid), "%s:%s" % (fn["file"], fn["line"]), what,
            "%s changed: %s" % (fid.rsplit("::", 1)[-1], detail))


def agg_fields(B, adt_suffix):
    """[(block, {field: operand})] for every aggregate construction of the struct"""
    out = []
    for bi, blk in enumerate(B.blocks):
        if blk["cleanup"]:
            continue
        for s in blk["stmts"]:
            if s["k"] == "assign" and s["rv"]["k"] == "agg" and str(s["rv"].get("adt", "")).endswith(adt_suffix):
                names = s["rv"].get("fields") or []
                out.append((bi, {names[i]: o for i, o in enumerate(s["rv"]["ops"]) if i < len(names)}))
    return out


def follow_chain(B, operand, chain):
    """operand <- chain[0](x0, ..) ; x0 <- chain[1](x1, ..) ... : returns (True, last call term) or (False, description)"""
    cur, term = operand, None
    for c in chain:
        org = B.origins(cur)
        if not org or not all(x[0] == "call" and q.ends(x[1], c) for x in org) or len({x[2] for x in org}) != 1:
            return False, "expected %s(..), found %s" % (c, sorted(map(str, org)))
        term = B.blocks[next(iter(org))[2]]["term"]
        if not term["args"]:
            cur = None
            continue
        cur = term["args"][0]
    return True, term


def copy_of_local(B, o, target, depth=8):
    """operand o is (a move/copy/clone of) local `target`"""
    if o["k"] not in ("copy", "move") or depth <= 0:
        return False
    p = o["p"]
    if any(isinstance(e, dict) and "f" in e for e in p["p"]):
        return False
    l = p["l"]
    if l == target:
        return True
    defs = B.defs.get(l, [])
    if not defs:
        return False
    for (bi, si, kind, payload) in defs:
        if kind == "assign":
            rv = payload["rv"]
            if rv["k"] == "use":
                if not copy_of_local(B, rv["o"], target, depth - 1):
                    return False
            elif rv["k"] == "ref":
                if not copy_of_local(B, {"k": "copy", "p": rv["p"]}, target, depth - 1):
                    return False
            else:
                return False
        elif kind == "call":
            w, r = mir.callee_of(payload)
            if not q.ends(r or w or "", "Clone::clone", "clone") or not copy_of_local(B, payload["args"][0], target, depth - 1):
                return False
        else:
            return False
    return True


def actor_cell(F, R, rule, B, arms, var, set_variant, set_field, get_variant, label):
    """one state cell of an actor task: `var` is written only in arm `set_variant`, with the message's field `set_field` (as a whole),
    and arm `get_variant` replies (a clone of) `var`"""
    ls = [i for i, l in enumerate(B.locals) if l.get("name") == var and not l.get("name", "").startswith("_")]
    # the user variable is the first local of that name (later ones are pattern bindings in other arms)
    fid = B.fn["id"]
    if not ls:
        R.fail(rule, "%s:%s:cell:%s:missing" % (rule, fid, var), "-", "actor variable `%s` not found" % var)
        return
    l = ls[0]
    det, ok = [], True

    def arm_of(bi):
        a = [n for n, x in arms.items() if bi in x[2] and all(bi not in o[2] for n2, o in arms.items() if n2 != n)]
        return a[0] if a else None
    n_set = 0
    for (bi, si, kind, payload) in B.defs[l]:
        a = arm_of(bi)
        if a is None and not any(bi in x[2] for x in arms.values()):
            det.append("init")
            continue
        org = B.origins(payload["rv"]["o"]) if kind == "assign" and payload["rv"]["k"] == "use" else \
            (B.origins(payload["args"][0]) if kind == "call" and payload.get("args") else set())
        from_msg = bool(org) and all(o[0] == "call" and q.ends(o[1], "Receiver::recv") and tuple(o[3][-2:]) == ("@" + set_variant, set_field)
                                     for o in org)
        if a == set_variant and from_msg:
            n_set += 1
            det.append("%s.%s" % (set_variant, set_field))
        else:
            ok = False
            det.append("written in arm %s from %s" % (a, sorted(map(str, org))))
    ok = ok and n_set >= 1
    # the write is unconditional within the Set arm: no way from the arm's entry to its reply around it
    sa = arms.get(set_variant)
    if ok and sa:
        wblocks = [bi for (bi, si, kind, payload) in B.defs[l] if arm_of(bi) == set_variant]
        ssends = [b for b in sa[2] if B.blocks[b]["term"]["k"] == "call" and
                  q.ends(mir.callee_of(B.blocks[b]["term"])[0], "oneshot::Sender::send") and arm_of(b) == set_variant]
        if not ssends or B.path([sa[1]], ssends, cut_blocks=wblocks) is not None:
            ok = False
            det.append("the write in %s is conditional (or the arm does not reply)" % set_variant)
    ga = arms.get(get_variant)
    sends = [b for b in (ga[2] if ga else []) if B.blocks[b]["term"]["k"] == "call" and
             q.ends(mir.callee_of(B.blocks[b]["term"])[0], "oneshot::Sender::send") and arm_of(b) == get_variant]
    rep = bool(sends) and all(copy_of_local(B, B.blocks[b]["term"]["args"][1], l) for b in sends)
    R.check(ok and rep, rule, "%s:%s:cell:%s" % (rule, fid, var), q.where(B, ga[1]) if ga else "-",
            "%s: `%s` is written only by %s (with the message's %s) and %s replies a copy of it" % (label, var, set_variant, set_field, get_variant),
            "%s: writes of `%s`: %s; %s replies the variable: %s" % (label, var, det, get_variant, rep))


def handwritten_impls(F, trait_suffix, crates):
    return [im for im in F.impls if str(im["trait"]).endswith(trait_suffix) and "Derive" not in str(im.get("exp")) and im["crate"] in crates]


def faithful_clone(F, R, rule, im):
    """A hand-written Clone must be content-blind and field-faithful:
       (1) its branches only follow the structure (Option / iterator discriminants), never the contents (no comparison, is_empty, len ...),
           including in workspace helpers it calls;
       (2) a result field that is read from a parameter is read from the same-named field;
       (3) every loop iteration pushes (no element is skipped)."""
    ty = im["self_ty"]
    todo = list(im["items"])
    seen = set()
    problems = []
    n_fn = 0
    while todo:
        fid = todo.pop()
        if fid in seen or fid not in F.fns:
            continue
        seen.add(fid)
        todo += [f for f in F.fns if f.startswith(fid + "::{closure")]
        fn = F.fns[fid]
        B = mir.Body(fn, F)
        R.touched(fid)
        n_fn += 1
        for sb in B.switch_blocks():
            e = B.cond(sb)
            while e[0] == "not":
                e = e[1]
            if e[0] != "discr":
                what = q.base_name(e[1]).rsplit("::", 1)[-1] if e[0] == "call" else e[0]
                problems.append("%s branches on the contents (%s) at line %s" % (fid.replace(ty, "Self"), what, B.line(sb)))
        for bi, w, r, t in B.calls:
            if w == mir.POLL:
                continue
            c = r or w or ""
            cf = F.fns.get(c)
            if cf is not None and cf["crate"] == fn["crate"] and not q.ends(c, "Clone::clone", "clone") and cf["kind"] in ("Fn", "AssocFn"):
                todo.append(c)
        # (2) field fidelity
        for blk in B.blocks:
            if blk["cleanup"]:
                continue
            for s in blk["stmts"]:
                if s["k"] == "assign" and s["rv"]["k"] == "agg" and s["rv"]["ak"] == "adt" and s["rv"].get("fields"):
                    for i, o in enumerate(s["rv"]["ops"]):
                        fld = s["rv"]["fields"][i]
                        if str(fld).isdigit():
                            continue        # tuple-like (Some(..), Ok(..)): no field name to compare
                        for x in B.origins(o):
                            if x[0] == "param" and x[2] and not str(x[2][0]).startswith("@") and not str(x[2][0]).isdigit() and x[2][0] != fld \
                                    and fld in {l for a in F.adts.values() for v in a["variants"] for l in [f_.get("name") for f_ in v.get("fields", [])]}:
                                problems.append("%s: field `%s` is filled from `%s.%s`" % (fid.replace(ty, "Self"), fld, x[1], ".".join(x[2])))
        # (3) loops push every element
        pushes = [c[0] for c in B.calls_named("Vec::push")]
        for h in q.loop_headers(B):
            body = B.reach([h]) & {b for b in range(len(B.blocks)) if h in B.reach([b])}
            lp = [p for p in pushes if p in body]
            nx = [c for c in B.calls_named("Iterator::next") if c[0] in body]
            if not nx:
                continue
            if not lp:
                problems.append("%s: loop at line %s pushes nothing" % (fid.replace(ty, "Self"), B.line(h)))
                continue
            dl = nx[0][3]["dest"]["l"]
            some = []
            for sb in B.switch_blocks():
                e = B.cond(sb)
                if e[0] == "discr" and e[1]["l"] == dl and not e[1]["p"]:
                    some += [tg for tg, lab in B.succ(sb) if lab == mir.STD_VARIANTS["Some"]]
            if not some or B.path(some, [h], cut_blocks=lp) is not None:
                problems.append("%s: an iteration of the loop at line %s can skip the push" % (fid.replace(ty, "Self"), B.line(h)))
    R.check(not problems, rule, "%s:%s:faithful-clone" % (rule, ty), "%s:%s" % (im["file"], im["line"]),
            "hand-written Clone of %s is content-blind and field-faithful (%d function(s))" % (ty.rsplit("::", 1)[-1], n_fn),
            "hand-written Clone of %s: %s" % (ty, "; ".join(problems)))


def failure_sources(F, root, follow):
    """inventory of where an Err returned by `root` can originate: {(function, source)} with source = 'local Err' for an Err built in
    that function or the external callee whose error is propagated; workspace callees accepted by follow(fid) are expanded. A closure
    handed to a followed callee is bound to that callee's parameter, so `action(x)` inside the callee is followed into the closure."""
    out, seen, work = set(), set(), [(root, ())]
    CALLS = ("FnOnce::call_once", "FnMut::call_mut", "Fn::call")
    while work:
        fid, bind = work.pop()
        bind = dict(bind)
        fn = F.body_of(fid) if hasattr(F, "body_of") else F.fns.get(fid)
        if fn is None:
            fn = F.fns.get(fid)
        if fn is None or (fn["id"], tuple(sorted(bind.items()))) in seen:
            if fn is None:
                out.add((fid, "no-body"))
            continue
        seen.add((fn["id"], tuple(sorted(bind.items()))))
        B = mir.Body(fn, F)
        for o in B.origins(RET):
            if o[0] == "agg":
                if str(o[1]).endswith("Result::Err"):
                    out.add((fn["id"], "local Err(%s)" % _agg_chain(B, o[2], "Err")))
                continue
            if o[0] == "call":
                t = B.blocks[o[2]]["term"]
                if q.ends(q.base_name(o[1]), *CALLS) and t["args"]:
                    tgt = [bind[x[1]] for x in B.origins(t["args"][0]) if x[0] == "param" and x[1] in bind]
                    tgt += [x[1] for x in B.origins(t["args"][0]) if x[0] == "agg" and x[1] in F.fns]
                    if tgt:
                        for c in tgt:
                            work.append((c, tuple(sorted(bind.items()))))
                        continue
                if follow(o[1]):
                    nb = {}
                    cal = F.fns.get(o[1])
                    cb = F.body_of(o[1]) if hasattr(F, "body_of") else cal
                    if cal is not None:
                        Bc = mir.Body(cal, F)
                        for i, a in enumerate(t["args"]):
                            cids = [x[1] for x in B.origins(a) if x[0] == "agg" and x[1] in F.fns and F.fns[x[1]]["kind"] == "Closure"]
                            cids += [bind[x[1]] for x in B.origins(a) if x[0] == "param" and x[1] in bind]
                            if len(cids) == 1 and i + 1 < len(Bc.locals) and Bc.locals[i + 1].get("name"):
                                nb[Bc.locals[i + 1]["name"]] = cids[0]
                    work.append((o[1], tuple(sorted(nb.items()))))
                else:
                    out.add((fn["id"], q.base_name(o[1])))
                continue
            out.add((fn["id"], "%s" % (o[0],)))
    return out, {f for f, _ in seen}


def _agg_chain(B, block, variant, depth=3):
    """Error::Bpf(BpfErrorType::NullBpfObject) -> 'Bpf(NullBpfObject)' for the aggregate of `variant` built in `block`"""
    for s in B.blocks[block]["stmts"]:
        if s["k"] == "assign" and s["rv"]["k"] == "agg" and s["rv"].get("variant") == variant and s["rv"]["ops"]:
            return _describe_payload(B, s["rv"]["ops"][0], depth)
    return "?"


def _describe_payload(B, o, depth):
    names = set()
    for x in B.origins(o):
        if x[0] == "agg" and depth > 0:
            head = str(x[1]).rsplit("::", 1)[-1]
            inner = ""
            for s in B.blocks[x[2]]["stmts"]:
                if s["k"] == "assign" and s["rv"]["k"] == "agg" and str(s["rv"].get("variant") or s["rv"].get("adt") or "").endswith(head) and s["rv"]["ops"]:
                    inner = _describe_payload(B, s["rv"]["ops"][0], depth - 1)
                    break
            names.add(head + ("(%s)" % inner if inner and not inner.startswith(("call", "param", "const", "<")) else ""))
        elif x[0] == "call":
            names.add("call")
        else:
            names.add(x[0])
    return "|".join(sorted(names))


def string_match_table(F, B, adt_suffix):
    """For a function that `match`es a string against literals and builds variants of one enum: {literal taken-as-equal: variant} plus
    the set of results on the no-match path; also whether every comparison's subject went through to_lowercase()."""
    from . import paths as P
    table, nomatch, lowered = {}, set(), True
    for path in P.enumerate_paths(B, allow_loops=True):
        hit = None
        for b, lab in path:
            t = B.blocks[b]["term"]
            if t["k"] != "switch":
                continue
            e, tr, fa = B.truth_edges(b)
            if e[0] == "call" and q.ends(e[1], "eq") and len(e[2]) == 2:
                lits = [a.get("val") for a in e[2] if a["k"] == "const" and isinstance(a.get("val"), str)]
                subj = [a for a in e[2] if a["k"] != "const"]
                if subj and not any(q.ends(v, "to_lowercase", "to_ascii_lowercase") for v in B.via(subj[0])):
                    lowered = False
                nxt = path[path.index((b, lab)) + 1][0] if path.index((b, lab)) + 1 < len(path) else None
                if lits and nxt == tr[1]:
                    hit = lits[0]
        variant = None
        for b, _ in path:
            for s in B.blocks[b]["stmts"]:
                if s["k"] == "assign" and s["rv"]["k"] == "agg" and str(s["rv"].get("adt", "")).endswith(adt_suffix):
                    variant = s["rv"].get("variant")
        res = variant or ("Err" if any(s["k"] == "assign" and s["rv"]["k"] == "agg" and s["rv"].get("variant") == "Err"
                                       for b, _ in path for s in B.blocks[b]["stmts"]) else "?")
        if hit is None:
            nomatch.add(res)
        else:
            table.setdefault(hit, set()).add(res)
    return table, nomatch, lowered


def loop_keeps_all(B, skip_tests):
    """every iteration of the (single) `for` loop pushes its element, unless it takes one of the accepted skip edges.
    skip_tests: [(callee suffix, outcome)] e.g. ("is_file", False) = the edge on which is_file() is false.
    Iterations that leave the function (error return) are not skips. Returns (ok, detail)."""
    pushes = [c[0] for c in B.calls_named("Vec::push")]
    heads = q.loop_headers(B)
    if len(pushes) != 1 or not heads:
        return False, "pushes %d, loops %d" % (len(pushes), len(heads))
    hdr = q.outer_loop_header(B, pushes[0])
    if hdr is None:
        return False, "the push is not inside a loop"
    body = B.reach([hdr]) & {b for b in range(len(B.blocks)) if hdr in B.reach([b])}
    nx = [c for c in B.calls_named("Iterator::next") if c[0] in body]
    if len(nx) != 1:
        return False, "next() calls in the loop: %d" % len(nx)
    dl = nx[0][3]["dest"]["l"]
    some = []
    for sb in B.switch_blocks():
        e = B.cond(sb)
        if e[0] == "discr" and e[1]["l"] == dl and not e[1]["p"]:
            some += [tg for tg, lab in B.succ(sb) if lab == mir.STD_VARIANTS["Some"]]
    allowed = []
    tests_in_loop = []
    for sb, tr, fa, cb, args in q.bool_call_edges(B, [s for s, _ in skip_tests]):
        if sb not in body:
            continue
        callee = q.base_name(mir.callee_of(B.blocks[cb]["term"])[0])
        for s, outcome in skip_tests:
            if q.ends(callee, s):
                allowed.append(tr if outcome else fa)
    if not some:
        return False, "no Some edge of next() found"
    p = B.path(some, [hdr], cut_blocks=pushes, cut_edges=allowed)
    if p is not None:
        return False, "an element can be skipped along lines %s" % B.path_lines(p)
    return True, "every element is pushed (accepted skips: %s)" % ", ".join("%s()==%s" % x for x in skip_tests)


def reliable_round_trip(F, R, rule, fid, what):
    """an actor wrapper `async fn x(&self, ..) -> Result<T>`: the request is enqueued with `mpsc::Sender::send(..).await` (waits for a
    slot, never drops) and the reply is awaited on the oneshot receiver; no lossy variant (try_send, send_timeout, try_recv, blocking)"""
    fn = F.body_of(fid) if hasattr(F, "body_of") else F.fns.get(fid)
    if fn is None:
        R.fail(rule, "%s:anchor-missing:%s" % (rule, fid), "-", "anchor-missing=%s" % fid)
        return
    B = mir.Body(fn, F)
    R.touched(fn["id"])
    sends = B.calls_named("mpsc::Sender::send")
    lossy = sorted({q.base_name(c[2] or c[1]).rsplit("::", 1)[-1] for c in B.calls
                    if q.ends(c[2] or c[1] or "", "try_send", "send_timeout", "try_reserve", "try_reserve_owned", "blocking_send", "try_recv", "blocking_recv")})
    awaited = len(sends) == 1 and q.immediate_await(B, sends[0][0]) is not None
    polls = [c for c in B.calls if c[1] == mir.POLL and "oneshot::Receiver" in str((c[3]["f"].get("fnargs") or [{}])[0].get("ty", ""))]
    R.check(awaited and not lossy and len(polls) == 1, rule, "%s:%s:reliable-round-trip" % (rule, fn["id"]), "%s:%s" % (fn["file"], fn["line"]),
            "%s: enqueued with mpsc::Sender::send(..).await and the reply awaited (a busy actor delays the caller, it never fails it)" % what,
            "%s uses %s (awaited send: %s, awaited reply: %d): when the actor's queue is full the call fails instead of waiting"
            % (what, lossy or "an unexpected shape", awaited, len(polls)))


def parent_terms(F, Bc, origins, depth=4):
    """origins of a value inside a closure, expressed in the terms of the function that built the closure: a captured variable
    becomes what was captured; the closure's own argument becomes the receiver of the iterator / Option call the closure is handed
    to (the elements of `xs.iter().any(|x| ..)` are xs). Other origins are returned unchanged."""
    fn = Bc.fn
    par = F.fns.get(fn.get("parent") or "")
    if fn["kind"] != "Closure" or par is None or depth <= 0:
        return set(origins)
    Bp = mir.Body(par, F)
    ops, site = None, None
    for bi, b in enumerate(Bp.blocks):
        for s in b["stmts"]:
            if s["k"] == "assign" and s["rv"]["k"] == "agg" and s["rv"].get("def") == fn["id"]:
                ops, site = s["rv"]["ops"], (bi, s["lhs"]["l"])
    out = set()
    for o in origins:
        if o[0] != "param":
            out.add(o)
            continue
        idx = [i for i, n in Bc.upvar.items() if n == o[1]]
        res = None
        if idx and ops is not None and idx[0] < len(ops):
            res = Bp.origins(ops[idx[0]], path0=o[2])
        elif site is not None:
            # the closure's argument: elements / payload of the receiver of the call the closure goes to
            for bi, w, r, t in Bp.calls:
                if len(t["args"]) >= 2 and any(x[0] == "agg" and x[1] == fn["id"] for a in t["args"][1:] for x in Bp.origins(a)):
                    res = Bp.origins(t["args"][0], path0=o[2])
        if res is None:
            out.add(o)
        else:
            out |= parent_terms(F, Bp, res, depth - 1) if par["kind"] == "Closure" else set(res)
    return out
