"""Loader and basic accessors for the Engine A fact base."""
import json
import os

from . import build


class Facts:
    def __init__(self, fdir):
        self.dir = fdir
        self.fns = {}
        self.consts = {}
        self.adts = {}
        self.impls = []
        self.crates = {}
        for c in build.CRATES + ["gpa_fixture"]:
            p = os.path.join(fdir, c + ".json")
            if not os.path.exists(p):
                continue
            with open(p) as f:
                d = json.load(f)
            self.crates[c] = d
            for fn in d["fns"]:
                fn["crate"] = c
                self.fns[fn["id"]] = fn
            for k in d["consts"]:
                self.consts[k["id"]] = k
            for a in d["adts"]:
                self.adts[a["id"]] = a
            for i in d["impls"]:
                i["crate"] = c
                self.impls.append(i)
        self.ebpf = None
        p = os.path.join(fdir, "ebpf.json")
        if os.path.exists(p):
            with open(p) as f:
                self.ebpf = json.load(f)

    def fn(self, fid):
        return self.fns.get(fid)

    def find(self, suffix, crate=None):
        """all fns whose id ends with `suffix` at a path boundary"""
        out = []
        for i, f in self.fns.items():
            if crate and f["crate"] != crate:
                continue
            if i == suffix or i.endswith("::" + suffix):
                out.append(f)
        return out

    def children(self, fid):
        return [f for f in self.fns.values() if f.get("parent") == fid or fid in f.get("also_in", ())]

    def body_of(self, fid):
        """for an `async fn f` return its coroutine body `f::{closure#0}`; otherwise f itself"""
        f = self.fns.get(fid)
        if f is None:
            return None
        if f.get("is_async") and f["kind"] in ("Fn", "AssocFn"):
            c = self.fns.get(fid + "::{closure#0}")
            if c is not None:
                return c
        return f


_cache = {}


def load(repo=None):
    fdir = build.build_facts(repo or build.REPO)
    if fdir not in _cache:
        F = Facts(fdir)
        # functions that did not exist on the tree the rules were confirmed on are analysed in place at their call sites
        kp = os.path.join(os.path.dirname(os.path.dirname(os.path.abspath(__file__))), "known_fns.txt")
        F.new_helpers = {"new": [], "inlined": [], "kept": []}
        F.renamed = []
        F.raw_fns = F.fns
        if os.path.exists(kp) and not os.environ.get("GPA_NO_INLINE_NEW"):
            with open(kp) as f:
                known = {l.strip() for l in f if l.strip()}
            from . import inline
            F.renamed = apply_renames(F, known, set(build.CRATES))
            comb = []
            cp = os.path.join(os.path.dirname(kp), "known_closures.txt")
            if os.path.exists(cp):
                rec = {}
                with open(cp) as f:
                    for l in f:
                        if "\t" in l:
                            k, v = l.rstrip("\n").rsplit("\t", 1)
                            rec[k] = int(v)
                # 1. in functions whose family of closures changed, Option/Result combinators are written out as matches
                comb = inline.desugar_changed_functions(F, rec, set(build.CRATES))
            F.raw_fns = dict(F.fns)
            # 2. new helpers are analysed in place
            F.new_helpers = inline.inline_new_helpers(F, known, set(build.CRATES))
            F.new_helpers["combinators"] = comb
            # 3. loops over an array literal are the body once per element
            unr = []
            for fid_ in list(F.fns):
                f_ = F.fns[fid_]
                if f_.get("crate") in build.CRATES:
                    nf_, n_ = inline.unroll_array_loops(F, f_)
                    if nf_ is not None and n_:
                        nf_["crate"] = f_.get("crate")
                        F.fns[fid_] = nf_
                        unr.append((fid_, n_))
                    nf_, n_ = inline.expand_quantifiers(F, F.fns[fid_])
                    if nf_ is not None and n_:
                        nf_["crate"] = f_.get("crate")
                        F.fns[fid_] = nf_
                        unr.append((fid_, n_))
                    if F.fns[fid_] is not f_:
                        # a table of function items: the call through the element is a call of that function
                        inline._devirtualise(F, F.fns[fid_])
            F.new_helpers["unrolled"] = unr
            # 4. in functions that differ from the confirmed tree (or were rewritten above), a boolean that only carries the outcome
            #    of a test to the next `if` is threaded through
            hp = os.path.join(os.path.dirname(kp), "known_hashes.json")
            thr = []
            if os.path.exists(hp):
                import json as _json
                kh = _json.load(open(hp))
                for fid_ in list(F.fns):
                    f_ = F.fns[fid_]
                    if f_.get("crate") not in build.CRATES:
                        continue
                    raw_ = F.raw_fns.get(fid_)
                    changed_ = raw_ is None or f_ is not raw_ or kh.get(fid_) != inline.body_hash(raw_)
                    if changed_:
                        if f_ is raw_:
                            import copy as _copy
                            f_ = _copy.deepcopy(f_)
                        n_ = inline.thread_bool_phis(f_)
                        if n_:
                            F.fns[fid_] = f_
                            thr.append((fid_, n_))
            F.new_helpers["threaded"] = thr
        _cache[fdir] = F
    return _cache[fdir]


def apply_renames(F, known, crates):
    """a function of the confirmed tree that is gone, and exactly one new function with the same signature in the same module /
    impl (a rename) or with the same name elsewhere (a move): the view shows it under the id the rules know. Returns [(old, new)]."""
    import json, re
    sp = os.path.join(os.path.dirname(os.path.dirname(os.path.abspath(__file__))), "known_sigs.json")
    if not os.path.exists(sp):
        return []
    sigs = json.load(open(sp))
    cur = {fid for fid, f in F.fns.items() if f["kind"] in ("Fn", "AssocFn") and f.get("crate") in crates and not fid.startswith("<")}
    missing = sorted(k for k in known if k not in cur and k in sigs)
    new = sorted(c for c in cur if c not in known)
    if not missing or not new:
        return []
    sig_now = {c: [str(l.get("ty")) for l in F.fns[c]["locals"][:F.fns[c]["arg_count"] + 1]] for c in new}
    owner = lambda x: x.rsplit("::", 1)[0]
    short = lambda x: x.rsplit("::", 1)[-1]
    pairs, used, reordered = [], set(), set()
    for m in missing:
        same_owner = [c for c in new if c not in used and owner(c) == owner(m) and sig_now[c] == sigs[m]]
        if not same_owner:
            # renamed and its parameters reordered: same return type, same parameter types in another order
            same_owner = [c for c in new if c not in used and owner(c) == owner(m) and sig_now[c][:1] == sigs[m][:1]
                          and sorted(sig_now[c][1:]) == sorted(sigs[m][1:]) and len(set(sigs[m][1:])) == len(sigs[m][1:])]
            reordered.update(same_owner if len(same_owner) == 1 else [])
        same_name = [c for c in new if c not in used and short(c) == short(m) and sig_now[c] == sigs[m]]
        others = [x for x in missing if x != m and owner(x) == owner(m) and sigs[x] == sigs[m]]
        pick = None
        if len(same_owner) == 1 and not others:
            pick = same_owner[0]
        elif len(same_name) == 1:
            pick = same_name[0]
        if pick:
            pairs.append((m, pick))
            used.add(pick)
    if not pairs:
        return []
    # a reordered parameter list is put back into the order the rules know: arguments at the call sites, parameter locals in the
    # body (for an async fn the captured fields of its coroutine body)
    for old, nw in pairs:
        if nw not in reordered:
            continue
        now_t, old_t = sig_now[nw][1:], sigs[old][1:]
        perm = [now_t.index(t_) for t_ in old_t]          # old position i  <-  new position perm[i]
        f = F.fns[nw]
        n = len(perm)

        def remap_local(l):
            return 1 + perm.index(l - 1) if 1 <= l <= n else l

        def walk(x):
            if isinstance(x, dict):
                if set(x.keys()) >= {"l", "p"} and isinstance(x["l"], int) and isinstance(x["p"], list):
                    x["l"] = remap_local(x["l"])
                    for e in x["p"]:
                        if isinstance(e, dict) and "i" in e and isinstance(e["i"], int):
                            e["i"] = remap_local(e["i"])
                    return
                for v in x.values():
                    walk(v)
            elif isinstance(x, list):
                for v in x:
                    walk(v)
        if not f.get("is_async"):
            walk(f["blocks"])
            walk(f.get("debug", []))
            f["locals"][1:n + 1] = [f["locals"][1 + perm[i]] for i in range(n)]
        else:
            f["locals"][1:n + 1] = [f["locals"][1 + perm[i]] for i in range(n)]
            walk(f["blocks"])
            body = F.fns.get(nw + "::{closure#0}")
            if body is not None:
                def walk_f(x):
                    if isinstance(x, dict):
                        if set(x.keys()) >= {"l", "p"} and x.get("l") == 1 and isinstance(x["p"], list) and x["p"] and isinstance(x["p"][0], dict) \
                                and "f" in x["p"][0] and x["p"][0]["f"] < n:
                            x["p"][0] = dict(x["p"][0], f=perm.index(x["p"][0]["f"]))
                            return
                        for v in x.values():
                            walk_f(v)
                    elif isinstance(x, list):
                        for v in x:
                            walk_f(v)
                walk_f(body["blocks"])
                walk_f(body.get("debug", []))
        for g in F.fns.values():
            for b in g["blocks"]:
                t = b["term"]
                if t["k"] == "call" and (t["f"].get("resolved") == nw or t["f"].get("fn") == nw) and len(t["args"]) == n:
                    t["args"] = [t["args"][perm[i]] for i in range(n)]
    for old, nw in pairs:
        pat = re.compile(re.escape(nw) + r"(?![A-Za-z0-9_])")
        for fid in list(F.fns):
            f = F.fns[fid]
            txt = json.dumps(f)
            if nw not in txt:
                continue
            g = json.loads(pat.sub(old.replace("\\", "\\\\"), txt))
            del F.fns[fid]
            F.fns[g["id"]] = g
        for im in F.impls:
            for k, v in list(im.items()):
                if isinstance(v, str) and nw in v:
                    im[k] = pat.sub(old, v)
    return pairs


def uninlined_view(F):
    """the fact base with every function as written (no new helper dissolved into its caller), for inventories that follow calls
    themselves (lib/sympath.py effect inventories, who-may-call scans). One exception: a new helper that only hands back a table
    (its return type is an array) is read in place, and loops over array literals are unrolled - a table-driven copy list reads like
    the straight-line list it replaces."""
    if not getattr(F, "new_helpers", None) or not (F.new_helpers.get("inlined") or F.new_helpers.get("unrolled")):
        return F
    cached = F.__dict__.get("_uninlined_view")
    if cached is None:
        import copy
        from . import inline
        cached = copy.copy(F)
        cached.fns = dict(F.raw_fns)
        cached.__dict__.pop("_body_cache", None)
        kp = os.path.join(os.path.dirname(os.path.dirname(os.path.abspath(__file__))), "known_fns.txt")
        with open(kp) as f:
            known = {l.strip() for l in f if l.strip()}

        def not_a_table(G, fid):
            fn = G.fns.get(fid) or {}
            return not str((fn.get("locals") or [{}])[0].get("ty", "")).startswith("[")
        rep = inline.inline_new_helpers(cached, known, set(build.CRATES), keep=not_a_table)
        for fid_ in list(cached.fns):
            f_ = cached.fns[fid_]
            if f_.get("crate") in build.CRATES:
                nf_, n_ = inline.unroll_array_loops(cached, f_)
                if nf_ is not None and n_:
                    nf_["crate"] = f_.get("crate")
                    cached.fns[fid_] = nf_
        cached.new_helpers = {"new": F.new_helpers.get("new", []), "inlined": rep["inlined"], "kept": rep["kept"],
                              "combinators": F.new_helpers.get("combinators", [])}
        F.__dict__["_uninlined_view"] = cached
    return cached


def raw_view(F, keep_loops=True):
    """the fact base for rule modules that recognise some helpers by a contract of their own (body readers: helpers with a loop):
    new helpers WITH a source loop stay functions, straight-line new helpers are still analysed in place"""
    if not getattr(F, "new_helpers", None) or not F.new_helpers.get("inlined"):
        return F
    cached = F.__dict__.get("_raw_view")
    if cached is not None:
        return cached
    import copy
    from . import inline
    G = copy.copy(F)
    G.fns = dict(F.raw_fns)
    G.__dict__.pop("_body_cache", None)
    kp = os.path.join(os.path.dirname(os.path.dirname(os.path.abspath(__file__))), "known_fns.txt")
    with open(kp) as f:
        known = {l.strip() for l in f if l.strip()}
    G.new_helpers = inline.inline_new_helpers(G, known, set(build.CRATES), keep=inline.has_source_loop)
    for fid_ in list(G.fns):
        f_ = G.fns[fid_]
        if f_.get("crate") in build.CRATES:
            nf_, n_ = inline.unroll_array_loops(G, f_)
            if nf_ is not None and n_:
                nf_["crate"] = f_.get("crate")
                G.fns[fid_] = nf_
            nf_, n_ = inline.expand_quantifiers(G, G.fns[fid_])
            if nf_ is not None and n_:
                nf_["crate"] = f_.get("crate")
                G.fns[fid_] = nf_
    G.new_helpers["combinators"] = F.new_helpers.get("combinators", [])
    F.__dict__["_raw_view"] = G
    return G


# ----------------------------------------------------------------------------------------
# pretty printing (for `verif explain` and for witness text in reports)

def place_str(p, fn=None):
    s = "_%d" % p["l"]
    if fn is not None:
        nm = fn["locals"][p["l"]].get("name")
        if nm:
            s = "%s{_%d}" % (nm, p["l"])
    for e in p["p"]:
        if e == "*":
            s = "(*%s)" % s
        elif isinstance(e, str):
            s = "%s as %s" % (s, e)
        elif "f" in e:
            s = "%s.%s" % (s, e["n"] if e.get("n") else e["f"])
        elif "d" in e:
            s = "(%s as %s)" % (s, e["d"])
        elif "i" in e:
            s = "%s[_%d]" % (s, e["i"])
        elif "ci" in e:
            s = "%s[%s%d]" % (s, "-" if e.get("from_end") else "", e["ci"])
        elif "sub" in e:
            s = "%s[%d..%d]" % (s, e["sub"][0], e["sub"][1])
    return s


def op_str(o, fn=None):
    if o["k"] in ("copy", "move"):
        return ("move " if o["k"] == "move" else "") + place_str(o["p"], fn)
    if "fn" in o:
        r = o.get("resolved")
        return "fn %s%s" % (o["fn"], (" => " + r) if r and r != o["fn"] else "")
    if "promoted" in o:
        return "promoted[%d]" % o["promoted"]
    if "def" in o:
        return "const %s%s" % (o["def"], ("=%r" % (o["val"],)) if "val" in o else "")
    if "val" in o:
        return "const %r: %s" % (o["val"], o["ty"])
    return "const <%s>" % o["ty"]


def rv_str(rv, fn=None):
    k = rv["k"]
    if k == "use":
        return op_str(rv["o"], fn)
    if k == "ref":
        return "&%s%s" % ("mut " if rv["mut"] else "", place_str(rv["p"], fn))
    if k == "rawptr":
        return "&raw %s" % place_str(rv["p"], fn)
    if k == "cast":
        return "%s as %s (%s)" % (op_str(rv["o"], fn), rv["ty"], rv["ck"])
    if k == "bin":
        return "%s(%s, %s)" % (rv["op"], op_str(rv["a"], fn), op_str(rv["b"], fn))
    if k == "un":
        return "%s(%s)" % (rv["op"], op_str(rv["a"], fn))
    if k == "discr":
        return "discriminant(%s)" % place_str(rv["p"], fn)
    if k == "agg":
        head = rv["ak"]
        if rv["ak"] == "adt":
            head = "%s::%s" % (rv["adt"], rv["variant"])
        elif "def" in rv:
            head = "%s %s" % (rv["ak"], rv["def"])
        return "%s{%s}" % (head, ", ".join(op_str(o, fn) for o in rv["ops"]))
    if k == "repeat":
        return "[%s; n]" % op_str(rv["o"], fn)
    return k


def term_str(t, fn=None):
    k = t["k"]
    if k == "call":
        return "%s = %s(%s) -> bb%s [unwind %s]" % (
            place_str(t["dest"], fn), op_str(t["f"], fn), ", ".join(op_str(a, fn) for a in t["args"]),
            t["target"], t["unwind"])
    if k == "switch":
        return "switchInt(%s) -> [%s, otherwise: bb%d]" % (
            op_str(t["d"], fn), ", ".join("%s: bb%d" % (v, b) for v, b in t["targets"]), t["otherwise"])
    if k == "assert":
        return "assert(%s == %s, %s) -> bb%d" % (op_str(t["cond"], fn), t["expected"], t["msg"], t["target"])
    if k == "drop":
        return "drop(%s) -> bb%d" % (place_str(t["p"], fn), t["target"])
    if k == "yield":
        return "yield(%s) -> bb%d [drop %s]" % (op_str(t["value"], fn), t["target"], t["drop"])
    if k in ("goto", "falseedge", "falseunwind"):
        extra = ""
        if k == "falseedge":
            extra = " [imaginary bb%d]" % t["imaginary"]
        return "%s -> bb%d%s" % (k, t["target"], extra)
    return k


def dump_fn(fn, out):
    out.write("fn %s  [%s %s:%s-%s] args=%d\n" % (fn["id"], fn["kind"], fn["file"], fn["line"], fn["line_hi"], fn["arg_count"]))
    for i, l in enumerate(fn["locals"]):
        out.write("  let _%d: %s%s\n" % (i, l["ty"], ("  // " + l["name"]) if l.get("name") else ""))
    for d in fn["debug"]:
        if d["place"]["p"]:
            out.write("  debug %s => %s\n" % (d["name"], place_str(d["place"])))
    _dump_blocks(fn, fn["blocks"], out)
    for i, p in enumerate(fn["promoted"]):
        out.write(" promoted[%d]:\n" % i)
        _dump_blocks(p, p["blocks"], out)


def _dump_blocks(fn, blocks, out):
    for i, b in enumerate(blocks):
        out.write("  bb%d%s:\n" % (i, " (cleanup)" if b["cleanup"] else ""))
        for s in b["stmts"]:
            if s["k"] == "assign":
                out.write("    %s = %s   // L%s\n" % (place_str(s["lhs"], fn), rv_str(s["rv"], fn), s["line"]))
            else:
                out.write("    %s %s\n" % (s["k"], s.get("what", "")))
        t = b["term"]
        out.write("    %s   // L%s %s\n" % (term_str(t, fn), t["line"], t["exp"] or ""))
