"""P-CG: whole-workspace call graph over resolved callees."""
from collections import defaultdict, deque

from . import mir


def _operands_of_fn(fn):
    for b in fn["blocks"]:
        if b["cleanup"]:
            continue
        for s in b["stmts"]:
            if s["k"] != "assign":
                continue
            rv = s["rv"]
            if rv["k"] in ("use", "cast", "repeat"):
                yield rv["o"], rv
            elif rv["k"] == "agg":
                for o in rv["ops"]:
                    yield o, rv
            elif rv["k"] == "bin":
                yield rv["a"], rv
                yield rv["b"], rv
        t = b["term"]
        if t["k"] == "call":
            yield t["f"], t
            for a in t["args"]:
                yield a, t


class CallGraph:
    def __init__(self, F):
        self.F = F
        self.out = defaultdict(set)    # caller -> callees (ids; may be external)
        self.inn = defaultdict(set)
        self.sites = defaultdict(list)  # (caller, callee) -> [(block, line)]
        # trait -> {method name -> [impl method ids]}
        self.trait_impls = defaultdict(lambda: defaultdict(list))
        for im in F.impls:
            if im.get("trait"):
                for it in im["items"]:
                    self.trait_impls[im["trait"]][it.rsplit("::", 1)[-1]].append(it)
        for fid, fn in F.fns.items():
            self._scan(fid, fn)

    def _add(self, a, b, block=None, line=None):
        self.out[a].add(b)
        self.inn[b].add(a)
        self.sites[(a, b)].append((block, line))

    def _scan(self, fid, fn):
        for bi, b in enumerate(fn["blocks"]):
            if b["cleanup"]:
                continue
            for s in b["stmts"]:
                if s["k"] != "assign":
                    continue
                rv = s["rv"]
                if rv["k"] == "agg" and "def" in rv:
                    self._add(fid, rv["def"], bi, s["line"])
                for o in _ops_of_rv(rv):
                    if o["k"] == "const" and "fn" in o:
                        self._fn_operand(fid, o, bi, s["line"])
            t = b["term"]
            if t["k"] == "call":
                if "fn" in t["f"]:
                    self._fn_operand(fid, t["f"], bi, t["line"])
                for a in t["args"]:
                    if a["k"] == "const" and "fn" in a:
                        self._fn_operand(fid, a, bi, t["line"])
        for p in fn.get("promoted", []):
            pass

    def _fn_operand(self, fid, o, bi, line):
        w = o["fn"]
        r = o.get("resolved")
        if w == mir.POLL:
            return  # awaiting: the edge caller -> async fn -> its coroutine body already exists
        tgt = r or w
        self._add(fid, tgt, bi, line)
        if r is None or r == w:
            # possibly a trait method (dyn or generic dispatch): fan out to workspace implementors
            if "::" in w:
                trait, meth = w.rsplit("::", 1)
                if trait in self.trait_impls:
                    for impl_m in self.trait_impls[trait].get(meth, []):
                        self._add(fid, impl_m, bi, line)

    def callers(self, fid):
        return set(self.inn.get(fid, ()))

    def callees(self, fid):
        return set(self.out.get(fid, ()))

    def reachable(self, roots, stop=()):
        stop = set(stop)
        seen = set()
        dq = deque()
        for r in roots:
            if r not in seen:
                seen.add(r)
                dq.append(r)
        while dq:
            a = dq.popleft()
            if a in stop:
                continue
            for b in self.out.get(a, ()):
                if b not in seen:
                    seen.add(b)
                    dq.append(b)
        return seen

    def reaches(self, a, target_pred, stop=()):
        """one call chain from a to a node satisfying target_pred, or None"""
        stop = set(stop)
        prev = {a: None}
        dq = deque([a])
        while dq:
            x = dq.popleft()
            if x != a and target_pred(x):
                chain = []
                while x is not None:
                    chain.append(x)
                    x = prev[x]
                return chain[::-1]
            if x in stop:
                continue
            for y in self.out.get(x, ()):
                if y not in prev:
                    prev[y] = x
                    dq.append(y)
        return None

    def transitive_callers(self, fid):
        seen = {fid}
        dq = deque([fid])
        while dq:
            x = dq.popleft()
            for y in self.inn.get(x, ()):
                if y not in seen:
                    seen.add(y)
                    dq.append(y)
        return seen


def _ops_of_rv(rv):
    k = rv["k"]
    if k in ("use", "cast", "repeat"):
        yield rv["o"]
    elif k == "agg":
        yield from rv["ops"]
    elif k == "bin":
        yield rv["a"]
        yield rv["b"]
    elif k == "un":
        yield rv["a"]


_cg = {}


def get(F):
    if id(F) not in _cg:
        _cg[id(F)] = CallGraph(F)
    return _cg[id(F)]
