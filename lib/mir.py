"""Analysis primitives over one extracted MIR body (P-DOM, P-EVT, P-PROV, branch conditions).

All primitives work on the *pre-coroutine-lowering* MIR: an `async fn` body is one CFG whose
`.await`s are poll loops with `Yield`; dominance across awaits is therefore meaningful.
"""
import json
from collections import defaultdict, deque

# discriminant values of std enums
STD_VARIANTS = {
    "Ok": 0, "Err": 1, "None": 0, "Some": 1, "Continue": 0, "Break": 1, "Ready": 0, "Pending": 1,
}

# callees through which provenance passes from argument 0 (value preserving / view producing)
PASS_THROUGH_SUFFIX = (
    "::clone", "::to_string", "::to_owned", "::into", "::from", "::as_str", "::as_ref", "::as_mut",
    "::borrow", "::borrow_mut", "::deref", "::deref_mut", "::into_future", "::new_unchecked",
    "::must_use", "::branch", "::from_residual", "::unwrap_or_default", "::as_bytes", "::into_inner",
    "::to_lowercase", "::to_uppercase", "::to_ascii_lowercase", "::trim", "::as_deref", "::cloned",
    "::copied", "::to_vec", "::as_slice", "::into_iter", "::iter", "::unwrap", "::expect", "::as_path",
    "::to_path_buf", "::into_boxed_str", "::unwrap_or", "::map_err", "::ok", "::get_mut", "::as_pin_mut",
    "::as_mut_ptr", "::into_string", "::to_str", "::to_string_lossy", "::into_owned", "::as_os_str", "::next", "::values",
    "::keys", "::iter_mut", "::first", "::last",
)
# iterator / Option / Result adaptors: value derived from the receiver – only for the std types (not e.g. aya::Ebpf::map)
ADAPTORS = ("map", "filter", "filter_map", "and_then", "rev", "enumerate", "peekable", "chain", "skip", "take", "find", "cloned", "copied")
ADAPTOR_OWNERS = ("std::iter::Iterator::", "core::iter::Iterator::", "std::option::Option::", "core::option::Option::",
                  "std::result::Result::", "core::result::Result::", "itertools::Itertools::")
# poll: value comes from the awaited future (arg 0)
POLL = "std::future::Future::poll"


import re as _re
_GEN = _re.compile(r"::<[^<>]*>")
_norm_cache = {}


def norm(c):
    """callee path with every `::<...>` generic-argument segment removed (HashMap::<K, V>::insert -> HashMap::insert)"""
    if c is None:
        return ""
    r = _norm_cache.get(c)
    if r is None:
        r = c
        while True:
            n = _GEN.sub("", r)
            if n == r:
                break
            r = n
        _norm_cache[c] = r
    return r


def callee_of(t):
    """(written path, resolved path or written) of a call terminator; (None, None) for indirect calls"""
    f = t["f"]
    if "fn" in f:
        return f["fn"], f.get("resolved") or f["fn"]
    return None, None


NOT_PASS_THROUGH_PREFIX = ("serde_json::", "serde_xml_rs::", "hex::", "std::fs::", "std::env::")


def is_pass_through(written, resolved):
    for c in (resolved, written):
        if c is None:
            continue
        if c.startswith(NOT_PASS_THROUGH_PREFIX):
            return False
        # strip generic args and `<T as Trait>::` wrappers
        base = c
        if base.endswith(">") and "::<" in base:
            base = base[: base.rfind("::<")]
        for s in PASS_THROUGH_SUFFIX:
            if base.endswith(s):
                return True
        nb = norm(c)
        if nb.startswith(ADAPTOR_OWNERS) and nb.rsplit("::", 1)[-1] in ADAPTORS:
            return True
    return False


_CC = ("map", "and_then", "unwrap_or_else", "map_or", "map_or_else")
_CC_OWNERS = ("std::option::Option::", "core::option::Option::", "std::result::Result::", "core::result::Result::")


def closure_comb(written):
    """Option/Result method whose result is (partly) what its closure argument returns"""
    if not written:
        return None
    nb = norm(written)
    if nb.startswith(_CC_OWNERS):
        s = nb.rsplit("::", 1)[-1]
        if s in _CC:
            return s
    return None


class Body:
    def __init__(self, fn, F=None):
        self.fn = fn
        self.F = F
        self.id = fn["id"]
        self.blocks = fn["blocks"]
        self.n = len(self.blocks)
        self.locals = fn["locals"]
        self.arg_count = fn["arg_count"]
        self._succ = [None] * self.n
        self._pred = None
        self.dead = set()
        for i, b in enumerate(self.blocks):
            if b["term"]["k"] == "unreachable" and not b["stmts"]:
                self.dead.add(i)
        self.defs = defaultdict(list)  # local -> [(block, idx|'term', kind, payload)]
        self.calls = []  # (block, written, resolved, term)
        for bi, b in enumerate(self.blocks):
            if b["cleanup"]:
                continue
            for si, s in enumerate(b["stmts"]):
                if s["k"] == "assign":
                    self.defs[s["lhs"]["l"]].append((bi, si, "assign", s))
            t = b["term"]
            if t["k"] == "call":
                self.defs[t["dest"]["l"]].append((bi, "term", "call", t))
                w, r = callee_of(t)
                self.calls.append((bi, w, r, t))
            elif t["k"] == "yield":
                self.defs[t["resume_arg"]["l"]].append((bi, "term", "yield", t))
        # upvar names for closures/coroutines: debug entries `_1.N`
        self.upvar = {}
        for d in fn["debug"]:
            p = d["place"]
            if p["l"] == 1 and p["p"]:
                fields = [e for e in p["p"] if isinstance(e, dict) and "f" in e]
                if fields:
                    self.upvar[fields[0]["f"]] = d["name"]

    # ------------------------------------------------------------------ CFG
    def succ(self, b):
        """normal (non-unwind) successors as (target, label)"""
        if self._succ[b] is not None:
            return self._succ[b]
        t = self.blocks[b]["term"]
        k = t["k"]
        out = []
        if k == "switch":
            for v, tg in t["targets"]:
                out.append((tg, v))
            out.append((t["otherwise"], "otherwise"))
        elif k in ("goto", "drop", "assert", "falseedge", "falseunwind", "yield"):
            out.append((t["target"], None))
        elif k == "call":
            if t["target"] is not None:
                out.append((t["target"], None))
        out = [(tg, l) for tg, l in out if tg not in self.dead]
        self._succ[b] = out
        return out

    # ---- path sensitivity for inlined helper results (see lib/inline.py): the variant an inlined call returned on this path is
    # remembered and the caller's test of that result is followed only along the matching edge
    def _ps(self):
        """(tracked locals, index of each, switch block -> tracked local it tests, per-block effects). Tracked: the result locals of
        the inlined calls / written-out combinators and every local whose value is moved into one of them."""
        if getattr(self, "_ps_cache", None) is None:
            metas = self.fn.get("inlined") or []
            self._ps_building = True
            tracked = {m["dest_local"] for m in metas if m.get("dest_local") is not None}
            # a value defined once whose variant is tested more than once (`if !matches!(v, A) {..}  if matches!(v, B) {..}`):
            # the edge taken at the first test is remembered at the second
            cnt = {}
            for sb in self.switch_blocks():
                e = self.cond(sb)
                if e[0] == "discr" and not e[1]["p"] and len(self.defs.get(e[1]["l"], [])) == 1:
                    cnt[e[1]["l"]] = cnt.get(e[1]["l"], 0) + 1
            tracked |= {l for l, n in cnt.items() if n >= 2}
            # an Option / Result built as a literal variant in each arm of an earlier decision and tested later
            # (`let v = match sign() { Ok(s) => Some(..), Err(_) => None }; if let Some(v) = v {..}`)
            for sb in self.switch_blocks():
                e = self.cond(sb)
                if e[0] == "discr" and not e[1]["p"]:
                    ds_ = self.defs.get(e[1]["l"], [])
                    if len(ds_) >= 2 and all(k_ == "assign" and not pl_["lhs"]["p"] and pl_["rv"]["k"] == "agg" and pl_["rv"].get("variant") in STD_VARIANTS
                                             for (_b, _s, k_, pl_) in ds_):
                        tracked.add(e[1]["l"])
            changed = True
            while changed:
                changed = False
                for blk in self.blocks:
                    for s in blk["stmts"]:
                        if s["k"] == "assign" and not s["lhs"]["p"] and s["rv"]["k"] == "use":
                            o = s["rv"]["o"]
                            if o["k"] in ("copy", "move") and not o["p"]["p"]:
                                a_, b_ = s["lhs"]["l"], o["p"]["l"]
                                if (a_ in tracked) != (b_ in tracked):   # whole-value moves carry the variant both ways
                                    tracked.update((a_, b_))
                                    changed = True
                    t_ = blk["term"]
                    if t_["k"] == "call" and not t_["dest"]["p"] and t_["args"] and str(callee_of(t_)[0] or "").endswith("::branch"):
                        a0 = t_["args"][0]
                        if a0["k"] in ("copy", "move") and not a0["p"]["p"] and (a0["p"]["l"] in tracked) != (t_["dest"]["l"] in tracked):
                            tracked.update((a0["p"]["l"], t_["dest"]["l"]))     # `x?`: Ok/Some -> Continue, Err/None -> Break
                            changed = True
            order = sorted(tracked)
            idx = {l: i for i, l in enumerate(order)}
            tests = {}
            for sb in self.switch_blocks():
                e = self.cond(sb)
                if e[0] == "discr" and not e[1]["p"] and e[1]["l"] in idx:
                    tests[sb] = idx[e[1]["l"]]
            # effects of entering a block: ordered (target index, ('copy', source index) | ('set', variant) | ('clear',))
            effects = {}
            for bi, blk in enumerate(self.blocks):
                ef = []
                for s in blk["stmts"]:
                    if s["k"] != "assign" or s["lhs"]["l"] not in idx:
                        continue
                    x = idx[s["lhs"]["l"]]
                    rv = s["rv"]
                    if s["lhs"]["p"]:
                        ef.append((x, ("clear",)))
                    elif rv["k"] == "use" and rv["o"]["k"] in ("copy", "move") and not rv["o"]["p"]["p"] and rv["o"]["p"]["l"] in idx:
                        ef.append((x, ("copy", idx[rv["o"]["p"]["l"]])))
                    elif rv["k"] == "agg" and rv.get("variant") in STD_VARIANTS:
                        ef.append((x, ("set", STD_VARIANTS[rv["variant"]])))
                    else:
                        ef.append((x, ("clear",)))
                for m in metas:
                    d = m.get("dest_local")
                    if d is None:
                        continue
                    if bi == m["entry"] and not m.get("combinator"):
                        ef.insert(0, (idx[d], ("clear",)))
                    v = m["sites"].get(bi)
                    if v is not None:
                        # an exit site of an inlined helper: the variant is that of the helper's return slot (moved to the call's
                        # destination when the helper returns)
                        rl = m.get("ret_local")
                        ef.append((idx[rl] if rl in idx else idx[d], ("set", v)))
                t = blk["term"]
                tail = []
                if t["k"] == "call" and not t["dest"]["p"] and t["dest"]["l"] in idx:
                    op = ("clear",)
                    if t["args"] and str(callee_of(t)[0] or "").endswith("::branch"):
                        a0 = t["args"][0]
                        if a0["k"] in ("copy", "move") and not a0["p"]["p"] and a0["p"]["l"] in idx:
                            is_opt = "option::Option<" in str(self.locals[a0["p"]["l"]].get("ty", ""))
                            op = ("branch", idx[a0["p"]["l"]], is_opt)
                    tail.append((idx[t["dest"]["l"]], op))
                if ef or tail:
                    effects[bi] = (ef, tail)
            self._ps_building = False
            self._ps_cache = (order, tests, effects)
        return self._ps_cache

    def _ps_step(self, b, tg, lab, tags):
        """new tag tuple after moving b -> tg, or None if the edge contradicts what is known"""
        order, tests, effects = self._ps()
        new = list(tags)
        if b is not None:
            # the call that ends b defines its destination on the way out
            for x, op in effects.get(b, ((), ()))[1]:
                if op[0] == "branch" and new[op[1]] is not None:
                    # Continue = 0, Break = 1; Ok = 0 / Err = 1 map straight, Some = 1 / None = 0 the other way round
                    new[x] = (1 - new[op[1]]) if op[2] else new[op[1]]
                else:
                    new[x] = None
            if b in tests:
                known = new[tests[b]]
                if known is not None:
                    term = self.blocks[b]["term"]
                    listed = {v for v, _ in term["targets"]}
                    if lab == "otherwise":
                        if known in listed:
                            return None
                    elif lab != known:
                        return None
                elif lab != "otherwise" and isinstance(lab, int):
                    new[tests[b]] = lab          # the edge taken tells the variant
        for x, op in effects.get(tg, ((), ()))[0]:
            if op[0] == "copy":
                new[x] = new[op[1]]
            elif op[0] == "set":
                new[x] = op[1]
            else:
                new[x] = None
        return tuple(new)

    def _ps_search(self, starts, goal, cut_edges, cut_blocks):
        order, _, _ = self._ps()
        init = tuple(None for _ in order)
        prev = {}
        dq = deque()
        for s in starts:
            if s not in cut_blocks:
                st = (s, self._ps_step(None, s, None, init) or init)
                prev[st] = None
                dq.append(st)
        seen_blocks = set(s for s, _ in prev)
        while dq:
            st = dq.popleft()
            b, tags = st
            if goal is not None and b in goal:
                out = []
                while st is not None:
                    out.append(st[0])
                    st = prev[st]
                return out[::-1], seen_blocks
            for tg, lab in self.succ(b):
                if (b, tg) in cut_edges or tg in cut_blocks:
                    continue
                nt = self._ps_step(b, tg, lab, tags)
                if nt is None:
                    continue
                ns = (tg, nt)
                if ns in prev:
                    continue
                prev[ns] = st
                seen_blocks.add(tg)
                dq.append(ns)
        return None, seen_blocks

    def reach(self, starts, cut_edges=(), cut_blocks=()):
        """blocks reachable from `starts` (inclusive) without crossing cut edges / entering cut blocks"""
        cut_edges = set(cut_edges)
        cut_blocks = set(cut_blocks)
        if self.fn.get("inlined") and not getattr(self, "_ps_building", False):
            return self._ps_search(list(starts), None, cut_edges, cut_blocks)[1]
        seen = set()
        dq = deque(s for s in starts if s not in cut_blocks)
        seen.update(dq)
        while dq:
            b = dq.popleft()
            for tg, _ in self.succ(b):
                if (b, tg) in cut_edges or tg in cut_blocks or tg in seen:
                    continue
                seen.add(tg)
                dq.append(tg)
        return seen

    def path(self, starts, goal, cut_edges=(), cut_blocks=()):
        """one witness path (list of blocks) from any start to any block in `goal`, or None"""
        cut_edges = set(cut_edges)
        cut_blocks = set(cut_blocks)
        goal = set(goal)
        if self.fn.get("inlined") and not getattr(self, "_ps_building", False):
            return self._ps_search(list(starts), goal, cut_edges, cut_blocks)[0]
        prev = {}
        dq = deque()
        for s in starts:
            if s not in cut_blocks:
                prev[s] = None
                dq.append(s)
        while dq:
            b = dq.popleft()
            if b in goal:
                out = []
                while b is not None:
                    out.append(b)
                    b = prev[b]
                return out[::-1]
            for tg, _ in self.succ(b):
                if (b, tg) in cut_edges or tg in cut_blocks or tg in prev:
                    continue
                prev[tg] = b
                dq.append(tg)
        return None

    def return_blocks(self):
        return [i for i, b in enumerate(self.blocks) if b["term"]["k"] == "return" and not b["cleanup"]]

    def live_blocks(self):
        return self.reach([0])

    def preds(self):
        if self._pred is None:
            self._pred = defaultdict(list)
            for b in range(self.n):
                if self.blocks[b]["cleanup"]:
                    continue
                for tg, l in self.succ(b):
                    self._pred[tg].append((b, l))
        return self._pred

    def edges_dominate(self, edges, targets, starts=(0,)):
        """True iff every path from `starts` to any block in `targets` crosses one of `edges`"""
        r = self.reach(starts, cut_edges=edges)
        return not (r & set(targets))

    def line(self, b):
        return self.blocks[b]["term"]["line"]

    def path_lines(self, path):
        out = []
        for b in path or []:
            l = self.line(b)
            if not out or out[-1] != l:
                out.append(l)
        return out

    # ------------------------------------------------------------------ calls / events
    def calls_to(self, pred):
        """call sites whose written or resolved callee satisfies pred(str) -> [(block, written, resolved, term)]"""
        out = []
        for bi, w, r, t in self.calls:
            if (w and pred(w)) or (r and pred(r)):
                out.append((bi, w, r, t))
        return out

    def calls_named(self, *names):
        """call sites whose resolved/written callee equals or ends with `::name` for one of names"""
        names = [norm(x) for x in names]

        def pred(c):
            base = norm(c)
            for nme in names:
                if base == nme or base.endswith("::" + nme):
                    return True
            return False
        return self.calls_to(pred)

    def single_def(self, l):
        d = self.defs.get(l, [])
        return d[0] if len(d) == 1 else None

    def await_of(self, call_block):
        """For a call creating a future that is awaited at once: (poll_block, result_places, ready_blocks).
        Returns None when the created future is not (only) consumed by an immediate await."""
        t = self.blocks[call_block]["term"]
        fut = t["dest"]["l"]
        # follow: into_future(fut) -> awaitee local -> &mut -> new_unchecked -> poll
        cur = {fut}
        poll_block = None
        steps = 0
        frontier = [fut]
        seen = set(frontier)
        polls = []
        while frontier and steps < 64:
            steps += 1
            l = frontier.pop()
            for u in self.uses_of(l):
                kind = u[0]
                if kind == "assign":
                    s = u[2]
                    tgt = s["lhs"]["l"]
                    if s["rv"]["k"] in ("use", "ref", "rawptr", "cast") and tgt not in seen:
                        seen.add(tgt)
                        frontier.append(tgt)
                elif kind == "callarg":
                    bi, w, r, ct = u[1], u[2], u[3], u[4]
                    if w == POLL:
                        polls.append(bi)
                    elif w and (w.endswith("::into_future") or w.endswith("::new_unchecked")):
                        tgt = ct["dest"]["l"]
                        if tgt not in seen:
                            seen.add(tgt)
                            frontier.append(tgt)
                    else:
                        return None  # future handed to something else
        if len(polls) != 1:
            return None
        pb = polls[0]
        pd = self.blocks[pb]["term"]["dest"]["l"]
        return pb, pd

    _uses = None

    def uses_of(self, l):
        if self._uses is None:
            self._uses = defaultdict(list)
            for bi, b in enumerate(self.blocks):
                if b["cleanup"]:
                    continue
                for si, s in enumerate(b["stmts"]):
                    if s["k"] != "assign":
                        continue
                    for pl in places_in_rvalue(s["rv"]):
                        self._uses[pl["l"]].append(("assign", bi, s))
                t = b["term"]
                if t["k"] == "call":
                    w, r = callee_of(t)
                    for ai, a in enumerate(t["args"]):
                        if a["k"] in ("copy", "move"):
                            self._uses[a["p"]["l"]].append(("callarg", bi, w, r, t, ai))
                    if t["f"]["k"] in ("copy", "move"):
                        self._uses[t["f"]["p"]["l"]].append(("callee", bi, None, None, t, -1))
                elif t["k"] == "switch":
                    if t["d"]["k"] in ("copy", "move"):
                        self._uses[t["d"]["p"]["l"]].append(("switch", bi, t))
                elif t["k"] == "drop":
                    pass
                elif t["k"] == "yield":
                    if t["value"]["k"] in ("copy", "move"):
                        self._uses[t["value"]["p"]["l"]].append(("yield", bi, t))
                elif t["k"] == "assert":
                    if t["cond"]["k"] in ("copy", "move"):
                        self._uses[t["cond"]["p"]["l"]].append(("assert", bi, t))
        return self._uses.get(l, [])

    # ------------------------------------------------------------------ provenance
    def via(self, x, depth=40):
        """base names of the value-preserving calls a value passed through on its way from its origins"""
        v = set()
        self.origins(x, depth, via=v)
        return v

    def _closure_results(self, clo_op, recv_op, path, d, order, via):
        """origins (in this body's terms) of what the closure in clo_op returns when called with recv_op's payload as its argument;
        None when the closure cannot be identified"""
        if self.F is None or d <= 0:
            return None
        cids = [(o[1], o[2]) for o in self._origins(clo_op, d, None, order) if o[0] == "agg" and o[1] in self.F.fns and self.F.fns[o[1]]["kind"] == "Closure"]
        if len(cids) != 1:
            return None
        cid, ablk = cids[0]
        cache = self.F.__dict__.setdefault("_body_cache", {})
        Bc = cache.get(cid)
        if Bc is None:
            Bc = cache[cid] = Body(self.F.fns[cid], self.F)
        ops = []
        for s in self.blocks[ablk]["stmts"]:
            if s["k"] == "assign" and s["rv"]["k"] == "agg" and s["rv"].get("def") == cid:
                ops = s["rv"]["ops"]
        res = set()
        argn = Bc.locals[2].get("name") if len(Bc.locals) > 2 and Bc.arg_count >= 2 else None
        for o in Bc._origins({"l": 0, "p": []}, d, via, None, path0=path):
            if o[0] == "param":
                if o[1] == 2 or (argn is not None and o[1] == argn):
                    if recv_op is not None:
                        res |= self._origins(recv_op, d, via, order, path0=o[2])
                    else:
                        res.add(("unknown", "closure-arg"))
                else:
                    idx = [i for i, n in Bc.upvar.items() if n == o[1]]
                    if idx and idx[0] < len(ops):
                        res |= self._origins(ops[idx[0]], d, via, order, path0=o[2])
                    else:
                        res.add(("unknown", "upvar"))
            elif o[0] in ("call", "agg", "bin"):
                res.add(("in-closure", o[0], o[1], cid))
            else:
                res.add(o)
        return res

    def origins(self, x, depth=40, via=None, restrict=None, deep=False, path0=()):
        """`restrict`: ordered list of blocks (a path prefix). When given, a local with several definitions takes only the
        latest definition that lies on that path (path-restricted provenance); single-definition temporaries are unaffected."""
        order = {b: i for i, b in enumerate(restrict)} if restrict is not None else None
        return self._origins(x, depth, via, order, deep, path0)

    def _origins(self, x, depth, via, order, deep=False, path0=()):
        """Origins of an operand or place: set of tuples
             ('param', name_or_index, fieldpath)   – argument / captured variable (+ field names)
             ('const', def_or_None, value)         – named or literal constant
             ('fnitem', path)
             ('call', callee, block, fieldpath)    – result of a non-pass-through call
             ('agg', head, block)                  – aggregate constructed here
             ('promoted', n) ('resume',) ('unknown', why)
        Flow-insensitive over all definitions of each local; passes through value-preserving calls.
        """
        out = set()
        seen = set()

        def fpath(proj):
            names = []
            for e in proj:
                if isinstance(e, dict) and "f" in e:
                    names.append(e["n"] if e.get("n") is not None else str(e["f"]))
                elif isinstance(e, dict) and "d" in e:
                    names.append("@" + e["d"])
            return tuple(names)

        def from_operand(o, path, d):
            if o["k"] in ("copy", "move"):
                from_place(o["p"], path, d)
            else:
                if "fn" in o:
                    out.add(("fnitem", o.get("resolved") or o["fn"]))
                elif "promoted" in o:
                    out.add(("promoted", o["promoted"]))
                else:
                    v = o.get("val")
                    if isinstance(v, (dict, list)):
                        v = json.dumps(v, sort_keys=True)
                    out.add(("const", o.get("def"), v))

        def from_place(p, path, d):
            l = p["l"]
            proj = list(p["p"])
            path = fpath(proj) + tuple(path)
            from_local(l, proj, path, d)

        def from_local(l, proj, path, d):
            key = (l, path)
            if key in seen or d <= 0:
                if d <= 0:
                    out.add(("unknown", "depth"))
                return
            seen.add(key)
            # closure / coroutine captures
            if l == 1 and self.fn["kind"] in ("Closure", "SyntheticCoroutineBody") and path:
                fields = [e for e in proj if isinstance(e, dict) and "f" in e]
                if fields and fields[0]["f"] in self.upvar:
                    out.add(("param", self.upvar[fields[0]["f"]], path[1:]))
                    return
            defs = self.defs.get(l, [])
            if 1 <= l <= self.arg_count:
                nm = self.locals[l].get("name") or l
                out.add(("param", nm, path))
                if not defs:
                    return
            if not defs:
                out.add(("unknown", "nodef:_%d" % l))
                return
            if order is not None and len(defs) > 1:
                on = [dd for dd in defs if dd[0] in order and not (dd[2] == "assign" and dd[3]["lhs"]["p"])]
                if on:
                    latest = max(on, key=lambda dd: (order[dd[0]], dd[1] if isinstance(dd[1], int) else 10 ** 6))
                    defs = [latest] + [dd for dd in defs if dd[2] == "assign" and dd[3]["lhs"]["p"]]
            for (bi, si, kind, payload) in defs:
                if kind == "assign":
                    if payload["lhs"]["p"]:
                        # partial write (field store) – treat the stored value as an origin of that field
                        lf = fpath(payload["lhs"]["p"])
                        if path[: len(lf)] != lf and lf[: len(path)] != path:
                            continue
                        sub = path[len(lf):] if path[: len(lf)] == lf else ()
                        from_rvalue(payload["rv"], sub, d - 1, bi)
                    else:
                        from_rvalue(payload["rv"], path, d - 1, bi)
                elif kind == "call":
                    w, r = callee_of(payload)
                    cc = closure_comb(w) if self.F is not None else None
                    if cc and len(payload["args"]) >= (3 if cc in ("map_or", "map_or_else") else 2) and "<discr>" not in path:
                        # the value also is what the closure argument returns (Option/Result::map, unwrap_or_else, map_or ..)
                        a_ = payload["args"]
                        clos = {"map": [(a_[1], True)], "and_then": [(a_[1], True)], "unwrap_or_else": [(a_[1], False)],
                                "map_or": [(a_[-1], True)], "map_or_else": [(a_[1], False), (a_[-1], True)]}[cc]
                        opaque = False
                        for cop, takes in clos:
                            rs = self._closure_results(cop, a_[0] if takes else None, path, d - 1, order, via)
                            if rs is None:
                                opaque = True
                            else:
                                out.update(rs)
                        if cc == "map_or":
                            from_operand(a_[1], path, d - 1)
                        if cc in ("unwrap_or_else",) and not opaque:
                            from_operand(a_[0], path, d - 1)
                            continue
                        if cc in ("map", "and_then") and not opaque and path[:1] in (("@Ok",), ("@Some",), ("@+",)):
                            # the payload of `x.map(f)` is what f returns - not x's payload
                            continue
                        if cc in ("map_or", "map_or_else"):
                            if opaque:
                                out.add(("call", r or w or "<indirect>", bi, path))
                            continue
                    if w == POLL or (w and is_pass_through(w, r) and payload["args"]):
                        # the Poll::Ready payload / pass-through: value of arg 0
                        p2 = path
                        if w == POLL:
                            if p2[:2] == ("@Ready", "0"):
                                p2 = p2[2:]
                            elif p2[:1] == ("@Pending",):
                                continue
                        elif w and w.endswith("::from_residual") and p2[:1] in (("@+",), ("@Ok",), ("@Some",)):
                            # `?` on the failure side builds Err / None only: never the origin of a success payload
                            continue
                        elif w and w.endswith("::branch"):
                            if p2[:2] == ("@Continue", "0"):
                                p2 = ("@+", "0") + p2[2:]
                            elif p2[:2] == ("@Break", "0"):
                                p2 = p2[2:]
                        if via is not None:
                            via.add(r or w)
                        from_operand(payload["args"][0], p2, d - 1)
                    else:
                        out.add(("call", r or w or "<indirect>", bi, path))
                elif kind == "yield":
                    out.add(("resume",))

        def from_rvalue(rv, path, d, bi):
            k = rv["k"]
            if k in ("use", "cast", "repeat"):
                from_operand(rv["o"], path, d)
            elif k in ("ref", "rawptr"):
                from_place(rv["p"], path, d)
            elif k == "discr":
                from_place(rv["p"], ("<discr>",) + tuple(path), d)
            elif k == "agg":
                head = rv.get("adt") or rv.get("def") or rv["ak"]
                if rv.get("variant"):
                    head = "%s::%s" % (head, rv["variant"])
                # payload extraction: (x as V).i after `x = V{ops}`
                if path and path[0].startswith("@") and rv["ak"] == "adt":
                    v = rv.get("variant")
                    if path[0] == "@+":
                        if v not in ("Ok", "Some"):
                            return  # the other variant was built here: not an origin of this payload
                    elif v is not None and path[0] != "@" + v:
                        return
                    path = path[1:]
                if path and rv["ak"] in ("adt", "tuple", "closure", "coroutine"):
                    idx = None
                    names = rv.get("fields")
                    if names and path[0] in names:
                        idx = names.index(path[0])
                    elif path[0].isdigit() and int(path[0]) < len(rv["ops"]):
                        idx = int(path[0])
                    if idx is not None and idx < len(rv["ops"]):
                        from_operand(rv["ops"][idx], path[1:], d)
                        return
                if deep and rv["ops"]:
                    # leaves of the aggregate: everything it was built from
                    for o_ in rv["ops"]:
                        from_operand(o_, (), d)
                    return
                out.add(("agg", head, bi))
            elif k == "bin":
                out.add(("bin", rv["op"], bi))
            elif k == "un":
                from_operand(rv["a"], path, d)
            else:
                out.add(("unknown", k))

        if "k" in x and x["k"] in ("copy", "move", "const"):
            from_operand(x, tuple(path0), depth)
        else:
            from_place(x, tuple(path0), depth)
        return out

    # ------------------------------------------------------------------ branch conditions
    def cond(self, sw_block, depth=12):
        """Condition expression of a SwitchInt:
             ('discr', place) | ('call', callee, args, block) | ('not', e) | ('bin', op, a, b, block)
             | ('op', operand)
        """
        t = self.blocks[sw_block]["term"]
        return self._expr(t["d"], depth)

    def _expr(self, o, depth):
        if o["k"] == "const" or depth <= 0:
            return ("op", o)
        p = o["p"]
        if p["p"]:
            return ("op", o)
        d = self.single_def(p["l"])
        if d is None:
            return ("op", o)
        bi, si, kind, payload = d
        if kind == "call":
            w, r = callee_of(payload)
            return ("call", r or w, payload["args"], bi)
        if kind == "assign":
            rv = payload["rv"]
            if rv["k"] == "discr":
                return ("discr", rv["p"])
            if rv["k"] == "use":
                return self._expr(rv["o"], depth - 1)
            if rv["k"] == "un" and rv["op"] == "Not":
                return ("not", self._expr(rv["a"], depth - 1))
            if rv["k"] == "bin":
                return ("bin", rv["op"], rv["a"], rv["b"], bi)
        return ("op", o)

    def switch_blocks(self, include_await=False):
        """live SwitchInt blocks; the Ready/Pending switch of an `.await` poll loop is plumbing and excluded"""
        live = self.live_blocks()
        out = []
        for i in sorted(live):
            t = self.blocks[i]["term"]
            if t["k"] != "switch":
                continue
            if not include_await and t.get("exp") and "Await" in t["exp"]:
                continue
            out.append(i)
        return out

    def switch_target(self, sw_block, value):
        """target block chosen when the discriminant equals `value`"""
        t = self.blocks[sw_block]["term"]
        for v, tg in t["targets"]:
            if v == value:
                return tg
        return t["otherwise"]

    def bool_edges(self, sw_block):
        """(true_target, false_target) of a switch on a bool"""
        t = self.blocks[sw_block]["term"]
        f = self.switch_target(sw_block, 0)
        tr = t["otherwise"] if all(v == 0 for v, _ in t["targets"]) else self.switch_target(sw_block, 1)
        return tr, f

    # truth edges of a condition with negations folded
    def truth_edges(self, sw_block):
        """returns (expr_without_not, edge_when_expr_true, edge_when_expr_false) as (src,tgt) pairs"""
        e = self.cond(sw_block)
        tr, fa = self.bool_edges(sw_block)
        while e[0] == "not":
            e = e[1]
            tr, fa = fa, tr
        return e, (sw_block, tr), (sw_block, fa)


def places_in_operand(o):
    if o["k"] in ("copy", "move"):
        yield o["p"]


def places_in_rvalue(rv):
    k = rv["k"]
    if k in ("use", "cast", "repeat"):
        yield from places_in_operand(rv["o"])
    elif k in ("ref", "rawptr", "discr"):
        yield rv["p"]
    elif k == "bin":
        yield from places_in_operand(rv["a"])
        yield from places_in_operand(rv["b"])
    elif k == "un":
        yield from places_in_operand(rv["a"])
    elif k == "agg":
        for o in rv["ops"]:
            yield from places_in_operand(o)


def field_names(place):
    return tuple(e["n"] if e.get("n") is not None else str(e["f"])
                 for e in place["p"] if isinstance(e, dict) and "f" in e)
