"""Interprocedural *role* provenance: which named constants / source calls / struct fields can a value be, following parameters
up through every workspace call site (bounded depth). Used for "arguments swapped" rules: same type, different role."""
from collections import defaultdict

from . import mir, q


class Roles:
    def __init__(self, F, crate, classify, max_depth=6):
        """classify(origin_kind, name) -> role or None; origin kinds: 'const' (def path), 'call' (callee base name), 'field' (param.field path)"""
        self.F = F
        self.crate = crate
        self.classify = classify
        self.max_depth = max_depth
        self._bodies = {}
        self._sites = None

    def body(self, fid):
        if fid not in self._bodies:
            self._bodies[fid] = mir.Body(self.F.fns[fid], self.F)
        return self._bodies[fid]

    def sites(self, fid):
        """[(caller fid, term)] for every call of fid in the crate (written or resolved callee)"""
        if self._sites is None:
            self._sites = defaultdict(list)
            for cid, fn in self.F.fns.items():
                if fn["crate"] != self.crate:
                    continue
                for b in fn["blocks"]:
                    t = b["term"]
                    if t["k"] != "call":
                        continue
                    w, r = mir.callee_of(t)
                    if w == mir.POLL:
                        continue
                    for c in {x for x in (w, r) if x}:
                        self._sites[mir.norm(c)].append((cid, t))
        return self._sites.get(mir.norm(fid), [])

    def of(self, fid, operand, depth=None, seen=frozenset()):
        """set of roles / 'unknown:<why>' strings"""
        depth = self.max_depth if depth is None else depth
        B = self.body(fid)
        out = set()
        for o in B.origins(operand):
            out |= self._origin(fid, B, o, depth, seen)
        return out

    def _origin(self, fid, B, o, depth, seen):
        cl = self.classify
        if o[0] == "const":
            r = cl("const", o[1] or "") if o[1] else None
            return {r} if r else {"const:%s" % (o[1] or o[2])}
        if o[0] == "promoted":
            out = set()
            for c in q.promoted_consts(B.fn, o[1]):
                r = cl("const", c[0] or "") if c[0] else None
                out.add(r or "const:%s" % (c[0] or c[1]))
            return out or {"unknown:promoted"}
        if o[0] == "call":
            name = q.base_name(o[1])
            r = cl("call", name)
            if r == "<through>":
                t = B.blocks[o[2]]["term"]
                return self.of(fid, t["args"][0], depth, seen)
            return {r} if r else {"call:%s" % name}
        if o[0] == "param":
            name, path = o[1], tuple(o[2])
            if path:
                r = cl("field", "%s.%s" % (name, ".".join(path)))
                if r:
                    return {r}
            if depth <= 0 or (fid, name) in seen:
                return {"unknown:depth"}
            seen = seen | {(fid, name)}
            # coroutine of an async fn: captures are the parent's parameters
            target = fid
            fn = self.F.fns[fid]
            if fn["kind"] in ("Closure", "SyntheticCoroutineBody") and fid.endswith("::{closure#0}") and \
                    self.F.fns.get(fid[:-len("::{closure#0}")], {}).get("is_async"):
                target = fid[:-len("::{closure#0}")]
            Bt = self.body(target)
            idx = None
            for i in range(1, Bt.arg_count + 1):
                if (Bt.locals[i].get("name") or i) == name:
                    idx = i - 1
            if idx is None:
                return {"unknown:param %s of %s" % (name, fid)}
            sites = self.sites(target)
            if not sites:
                return {"unknown:no caller of %s" % target}
            out = set()
            for cid, t in sites:
                if idx >= len(t["args"]):
                    out.add("unknown:arity")
                    continue
                a = t["args"][idx]
                if path:
                    # field of a by-value / by-ref struct argument: describe as the caller's value + path (not followed further)
                    out.add("unknown:field %s of %s" % (".".join(path), name))
                    continue
                out |= self.of(cid, a, depth - 1, seen)
            return out
        return {"unknown:%s" % (o[0],)}
